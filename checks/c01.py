"""C01 BFT agreement -- Consensus.tla: exhaustive design check, attack corpus + simulated behaviours replayed on
real bft.BFT replicas, TLC trace validation of the recorded real states (see DESIGN.md section 4, C01)."""
import json, os, shutil, sys, time
sys.path.insert(0, os.path.dirname(os.path.abspath(__file__)))
import vlib
import consensus_common as cc

PID = "C01"
CORPUS = os.path.join(vlib.VERIF, "corpus", "consensus")


def design_check(work, tier):
    """exhaustive TLC run of the guarded spec on a bounded instance; the thorough tier adds a time-boxed exploration of a
    larger instance (two root-height changes) whose incompleteness is reported, not required"""
    consts = cc.constants(max_round=1, max_rh=1, leader="FixedLeader")
    inv = ["Agreement", "LockHasQC", "CommitHasQC", "VoteOnce", "TypeOK"]
    cfg = vlib.cfg_text(constants=consts, view="view", symmetry="Symm23", invariants=inv)
    r = vlib.tlc(os.path.join(work, "design"), "MCConsensus", cfg, workers=16, timeout=1500, extra=["-coverage", "1"])
    deep = None
    if tier != "quick":
        c2 = cc.constants(max_round=1, max_rh=2, leader="FixedLeader")
        deep = vlib.tlc(os.path.join(work, "design-deep"), "MCConsensus", vlib.cfg_text(constants=c2, view="view", symmetry="Symm23", invariants=inv), workers=16, timeout=1500)
        if deep.violated:
            raise vlib.Infra("design check (deep): guarded Consensus.tla violates %s (spec bug, not a finding)" % deep.violated)
    r.deep = deep
    return r, consts


def load_corpus():
    out = []
    if os.path.isdir(CORPUS):
        for f in sorted(os.listdir(CORPUS)):
            if f.endswith(".json"):
                with open(os.path.join(CORPUS, f)) as fh:
                    out.append(json.load(fh))
    return out


def sim_scripts(work, tier, sd):
    """random behaviours of the guarded spec (progress-biased and unbiased) as scripts"""
    scripts = []
    plans = [("SimSpec", "RotLeader", 60 if tier == "quick" else 1500, 60, "simb"),
             ("Spec", "AnyLeader", 40 if tier == "quick" else 1000, 45, "simu")]
    stats = {}
    for spec, leader, num, depth, tag in plans:
        consts = cc.constants(max_round=2, max_rh=2, leader=leader, track_pm=True)
        cfg = vlib.cfg_text(spec=spec, constants=consts)
        r, behs = vlib.simulate(os.path.join(work, tag), "MCConsensus", cfg, num, depth, sd)
        if r.error:
            raise vlib.Infra("TLC simulation failed: %s\n%s" % (r.error, r.out[-1500:]))
        if r.violated:
            raise vlib.Infra("guarded spec violates %s in simulation -- spec bug" % r.violated)
        for k, lasts in enumerate(behs):
            scripts.append(cc.script_from_lasts("%s-%d-%d" % (tag, sd, k), lasts))
        stats[tag] = len(behs)
    return scripts, stats


def validate(work, trace_path, name, check_state=True, timeout=1200, off=()):
    """TLC trace validation; returns (accepted, lines_consumed, total_lines, result)"""
    d = os.path.join(work, "tv-" + name)
    os.makedirs(d, exist_ok=True)
    shutil.copyfile(trace_path, os.path.join(d, "trace.ndjson"))
    consts = cc.constants(max_round=9, max_rh=9, leader="AnyLeader", track_pm=True, nodes_as_strings=True, off=off)
    consts["CheckState"] = "TRUE" if check_state else "FALSE"
    cfg = vlib.cfg_text(spec="TraceSpec", constants=consts, invariants=["RealAgreement"], postcondition="TraceAccepted")
    r = vlib.tlc(d, "ConsensusTrace", cfg, workers=1, timeout=timeout)
    total = sum(1 for _ in open(trace_path))
    consumed = r.distinct - 1 if r.distinct else 0
    accepted = r.finished and "Postcondition" not in r.out and not r.violated
    if "TraceAccepted" in r.out and "violated" in r.out:
        accepted = False
    return accepted, consumed, total, r


def main(tier):
    t0 = time.time()
    sd = vlib.seed()
    v = vlib.Verdict(PID)
    work = vlib.scratch("c01")
    try:
        bftsim, _ = vlib.build_harness("bftsim")
        # 1. design
        r, consts = design_check(work, tier)
        if r.violated:
            raise vlib.Infra("design check: guarded Consensus.tla violates %s (spec bug, not a finding)" % r.violated)
        if not r.finished:
            raise vlib.Infra("design check did not finish: %s" % (r.error or "timeout"))
        cov = r.coverage()
        for act in ("ElectionVote", "Propose", "ProposeVote", "LeaderStep", "PrecommitVote", "CommitProcess", "AdoptLock", "Pacemaker"):
            if act in cov and cov[act][1] == 0:
                raise vlib.Infra("vacuous design check: action %s never taken" % act)
        # 2. attack corpus on real code
        corpus = load_corpus()
        attack_results = []
        scripts = [c["script"] for c in corpus]
        runs, attack_trace = cc.replay(bftsim, scripts, work, "attacks") if scripts else ([], None)
        for k, (c, run) in enumerate(zip(corpus, runs)):
            end = run[-1]
            refused_at = None
            if end["err"]:
                refused_at = {"step": end["i"], "action": end["a"]["a"], "why": end["err"]}
            # TLC evaluates Agreement on the recorded real states of this replay and checks that the real replicas
            # behaved as the guarded spec says (i.e. refused the attack at the guarded step)
            ap = os.path.join(work, "attack-%d.ndjson" % k)
            with open(ap, "w") as fh:
                for ln in run:
                    fh.write(json.dumps(ln) + "\n")
            acc, cons, tot, tr = validate(work, ap, "attack-%d" % k)
            res = {"guard": c["guard"], "id": c["script"]["id"], "steps": len(c["script"]["actions"]),
                   "agreement_on_real_state": end["agreement"] and tr.violated != "RealAgreement", "refused_at": refused_at,
                   "conforms_to_guarded_spec": acc, "lines_accepted": cons, "lines": tot,
                   "commits": {n: s["committed"] for n, s in end["st"].items()}}
            attack_results.append(res)
            if tr.violated == "RealAgreement" or not end["agreement"]:
                v.violation("attack:" + c["guard"], "attack script for weakened guard %s makes honest replicas commit different blocks: %s"
                            % (c["guard"], res["commits"]), {"script": c["script"], "trace": run})
            elif not acc:
                rec = run[min(cons, len(run) - 1)]
                v.divergence("attack replay %s left the guarded spec at step %d %s without breaking Agreement" % (c["guard"], rec["i"], rec["a"]["a"]))
        # 3. simulated behaviours on real code
        sscripts, sim_stats = sim_scripts(work, tier, sd)
        sruns, sim_trace = cc.replay(bftsim, sscripts, work, "sim")
        infeasible = [run[-1] for run in sruns if run[-1]["err"]]
        commits = sum(1 for run in sruns if any(s["committed"] for s in run[-1]["st"].values()))
        for run in sruns:
            if not run[-1]["agreement"]:
                v.violation("sim:" + run[0]["script"], "honest replicas committed different blocks on a behaviour of the guarded spec", {"trace": run})
        # 3b. the same scripts in a world where the values share one block and differ in their certificate results only
        #     (a value is the pair (block, results): agreement must not depend on the blocks being different)
        same_runs, _ = cc.replay(bftsim, scripts + sscripts, work, "sameblock", env={"BFTSIM_SAMEBLOCK": "1"})
        same_bad = 0
        for run in same_runs:
            if not run[-1]["agreement"]:
                same_bad += 1
                v.violation("results-only:" + run[0]["script"].split("-")[0], "honest replicas committed the same block with different certificate results (script %s)" % run[0]["script"], {"trace": run})
        # 4. trace validation (real states vs spec), attacks and simulations together
        allp = sim_trace
        accepted, consumed, total, tr = validate(work, allp, "all")
        if tr.violated == "RealAgreement":
            v.violation("trace:agreement", "Agreement is false on a recorded real state (TLC)", {"trace": allp})
        elif not accepted:
            # explain the divergence: which guards of the intended design does the code not implement?
            off, best = [], consumed
            improved = True
            while improved and best < total:
                improved = False
                for g in cc.GUARDS:
                    if g in off:
                        continue
                    a2, c2, _, r2 = validate(work, allp, "x-" + g, off=off + [g])
                    if r2.violated == "RealAgreement":
                        c2 = total
                    if c2 > best:
                        off, best, improved = off + [g], c2, True
                        break
            rec = json.loads(open(allp).read().splitlines()[min(consumed, total - 1)])
            v.divergence("trace rejected by the guarded Consensus.tla at line %d of %d (script %s step %d %s); %s"
                         % (consumed + 1, total, rec["script"], rec["i"], rec["a"]["a"],
                            ("explained by missing guard(s) %s in the code" % off) if best >= total else
                            ("unexplained beyond line %d even with guards %s off" % (best + 1, off))))
            missing_guards = off
        else:
            missing_guards = []
        # 5. binding self-test: corrupt one recorded field, TLC must reject
        selftest = "skipped"
        if accepted and total > 5:
            lines = open(allp).read().splitlines()
            k = next((i for i, ln in enumerate(lines) if '"a":"ProposeVote"' in ln or '"a":"ElectionVote"' in ln), None)
            if k is not None:
                rec = json.loads(lines[k])
                n = rec["a"]["n"]
                rec["st"][n]["rnd"] += 1
                lines[k] = json.dumps(rec)
                bad = os.path.join(work, "bad.ndjson")
                open(bad, "w").write("\n".join(lines) + "\n")
                a2, c2, _, _ = validate(work, bad, "bad")
                if a2:
                    raise vlib.Infra("binding self-test failed: corrupted trace was accepted")
                selftest = "corrupted line %d rejected at line %d" % (k + 1, c2 + 1)
        samples = []
        if sruns:
            samples.append([ln["a"] for ln in sruns[0][1:8]])
        if attack_results:
            samples.append(attack_results[0])
        coverage = {
            "states": r.distinct, "transitions": r.generated, "depth": r.depth, "exhaustive": True,
            "constants": {k: consts[k] for k in ("MaxRound", "MaxRH", "LeaderChoices", "Honest", "Byz", "Values")},
            "traces_validated_against_impl": len(runs) + len(sruns) if accepted else 0,
            "trace_lines": total, "trace_lines_accepted": consumed,
            "deep_design_states": (r.deep.distinct if r.deep else 0), "deep_design_finished": bool(r.deep and r.deep.finished),
            "attack_scripts_replayed": len(runs), "attack_results": attack_results, "scripts_replayed_with_results_only_values": len(same_runs),
            "behaviours_replayed": len(sruns), "behaviours_with_commit": commits, "behaviours_infeasible": len(infeasible),
            "simulation": sim_stats, "coverage_by_action": {k: list(vv) for k, vv in cov.items()},
            "binding_selftest": selftest, "guards_missing_in_code": missing_guards, "model_divergences": v.divergences,
            "known_findings_reproduced": [k for k, _ in v.known],
            "samples": samples,
        }
        vlib.write_evidence(PID, tier, "model_checking", coverage, time.time() - t0, len(v.violations),
                            ["BLS/hash primitives are sound", "controller callbacks scripted: proposals always validate, committee constant across root heights",
                             "certificate gate of HandlePeerBlock re-implemented in the driver (C02 checks the real one)"])
        print("C01 %s: design %d states/%d transitions depth %d; attacks %d (all refused: %s); behaviours %d (%d with commit, %d infeasible); trace %d/%d lines accepted; selftest: %s"
              % (tier, r.distinct, r.generated, r.depth, len(runs), all(a["agreement_on_real_state"] for a in attack_results), len(sruns), commits, len(infeasible), consumed, total, selftest))
        if infeasible and len(infeasible) > len(sruns) // 2:
            raise vlib.Infra("driver cannot realise most spec behaviours: %s" % infeasible[0]["err"])
        return v.exit_code()
    finally:
        shutil.rmtree(work, ignore_errors=True)
