"""C02 finality gate -- CertificateDef.tla / Certificate.tla / CertTrace.tla"""
import json, os, re, shutil, sys, time
sys.path.insert(0, os.path.dirname(os.path.abspath(__file__)))
import vlib
import ledger_common as lc

PID = "C02"
GUARDS = ["G_SignBytesBound", "G_BitmapExact", "G_Threshold", "G_ViewBound", "G_BlockBound", "G_PhaseBound"]


def design(work, off=None, name="design", timeout=900):
    c = {g: ("FALSE" if g == off else "TRUE") for g in GUARDS}
    c["Powers"] = "<- MCPowers"
    cfg = vlib.cfg_text(constants=c, invariants=["GateSound"])
    return vlib.tlc(os.path.join(work, name), "Certificate", cfg, workers=16, timeout=timeout)


def main(tier):
    t0 = time.time()
    sd = vlib.seed()
    v = vlib.Verdict(PID)
    work = vlib.scratch("c02")
    try:
        binp, _ = vlib.build_harness("nodex")
        r = design(work)
        if r.violated or not r.finished:
            raise vlib.Infra("Certificate.tla design check failed: %s %s" % (r.violated, r.error))
        for g in GUARDS:
            rw = design(work, g, "weak-" + g, 120)
            if rw.violated != "GateSound":
                raise vlib.Infra("vacuous: Certificate.tla without %s does not violate GateSound" % g)
        tr = lc.nodex(binp, ["gate", sd, 600 if tier == "quick" else 12000], os.path.join(work, "gate.ndjson"))
        d = os.path.join(work, "tv")
        os.makedirs(d)
        shutil.copyfile(tr, os.path.join(d, "trace.ndjson"))
        c = {g: "TRUE" for g in GUARDS}
        rt = vlib.tlc(d, "CertTrace", vlib.cfg_text(constants=c, invariants=["Report"], postcondition="TraceAccepted"), workers=1, timeout=2400)
        recs = [json.loads(x) for x in open(tr)]
        consumed = max(rt.distinct - 1, 0)
        if rt.error or not rt.finished or consumed < len(recs):
            raise vlib.Infra("CertTrace stopped at line %d of %d: %s\n%s" % (consumed + 1, len(recs), rt.error, rt.out[-1000:]))
        unsound, nonconf, honest_refused = [], [], []
        for m in re.finditer(r'<<\s*"VIOL",\s*(\d+),\s*\[([^\]]*)\]\s*>>', rt.out.replace("\n", " ")):
            rec = recs[int(m.group(1)) - 1]
            flags = dict(re.findall(r"(\w+) \|-> (TRUE|FALSE)", m.group(2)))
            if flags.get("GateSoundReal") == "FALSE":
                unsound.append(rec)
            elif flags.get("HonestAccepted") == "FALSE":
                honest_refused.append(rec)
            elif flags.get("GateConforms") == "FALSE":
                nonconf.append(rec)
        classes = {}
        for rec in unsound:
            classes.setdefault("unsound:" + rec["dev"].replace("honest", "").strip("+").split("+")[0], []).append(rec)
        for key, items in sorted(classes.items()):
            v.violation(key, "the node committed a block that is not certified by +2/3 exactly as committed (%d case(s); first: %s)" % (len(items), json.dumps(items[0])[:600]), {"line": items[0]})
        if honest_refused:
            raise vlib.Infra("gate driver: an honest +2/3 certificate was refused: %s" % json.dumps(honest_refused[0])[:400])
        for rec in nonconf[:5]:
            v.divergence("gate answer differs from CertificateDef!Accept without breaking C02: accepted=%s dev=%s err=%s" % (rec["accepted"], rec["dev"], rec["err"][:80].replace("\n", " ")))
        acc = [x for x in recs if x["accepted"]]
        coverage = {"states": r.distinct, "transitions": r.generated, "exhaustive": True,
                    "constants": {"stake_vectors": [[1, 1, 1, 1], [5, 3, 2, 1]], "signer_sets": 16, "deviations": "<= 2 of: 9 fields x {claimed, signed, both}, bitmap, aggregated set, attached block, attached results"},
                    "traces_validated_against_impl": 1, "trace_lines": len(recs), "trace_lines_accepted": consumed,
                    "cases_on_real_node": len(recs), "accepted_by_real_node": len(acc), "distinct_deviation_kinds": len({x["dev"] for x in recs}),
                    "real_stake_vectors": [[1, 1, 1, 1], [5, 3, 2, 1], [1000000, 1, 1, 1], [2, 2, 1, 1]],
                    "model_divergences": v.divergences, "violation_classes": {k: len(x) for k, x in classes.items()},
                    "known_findings_reproduced": [k for k, _ in v.known], "samples": recs[:2]}
        vlib.write_evidence(PID, tier, "model_checking", coverage, time.time() - t0, len(v.violations),
                            ["BLS aggregate signatures are unforgeable: only subsets of genuinely produced signatures are aggregated",
                             "fast-sync (syncing=true) path is out of scope as the property states", "committee constant across the root heights used"])
        print("C02 %s: design %d cases; %d real cases (%d accepted, %d deviation kinds) validated by TLC; unsound %d, non-conforming %d"
              % (tier, r.distinct, len(recs), len(acc), coverage["distinct_deviation_kinds"], len(unsound), len(nonconf)))
        return v.exit_code()
    finally:
        shutil.rmtree(work, ignore_errors=True)
