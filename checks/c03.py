"""C03 deterministic replicated execution -- Chain.tla / ChainTrace.tla"""
import os, sys
sys.path.insert(0, os.path.dirname(os.path.abspath(__file__)))
import chain_common as cc
WHAT = {"HeaderAgreement": "two execution paths / nodes computed different headers, certificate results or states for the same prefix and block",
        "ExecAgreement": "a node executed a certified block on top of the same prefix (as replica, on commit, or replaying the archive during sync) and arrived at another header or other certificate results",
        "NoPathError": "an execution path failed on a block the other paths accepted"}
def main(tier):
    return cc.run("C03", tier, set(WHAT), WHAT, ["G_ResetBeforeExec", "G_CacheNotConsulted"])
