"""C04 token supply conservation -- Ledger.tla / LedgerTrace.tla"""
import os, sys
sys.path.insert(0, os.path.dirname(os.path.abspath(__file__)))
import ledger_common as lc

WHAT = {"SumEq": "recorded total supply differs from accounts + pools + stakes",
        "NoWrap": "a balance is negative / larger than the total supply",
        "MintBound": "the total supply changed by more than the scheduled mint, or dropped by more than slashes and pool contents allow"}


def main(tier):
    return lc.run_family("C04", tier, set(WHAT), WHAT)
