"""C05 authorization: only authorized signers can move funds or alter validators / orders -- AuthDef.tla / Auth.tla / AuthTrace.tla"""
import json, os, re, shutil, sys, time
sys.path.insert(0, os.path.dirname(os.path.abspath(__file__)))
import vlib

PID = "C05"
GUARDS = ["G_Verify", "G_OverContent", "G_Threshold", "G_MatchSigners", "G_SignerFromKey"]


def design(work, name, off=None):
    c = {g: ("FALSE" if g == off else "TRUE") for g in GUARDS}
    return vlib.tlc(os.path.join(work, name), "Auth", vlib.cfg_text(constants=c, invariants=["Sound", "PayerIsSigner", "Complete"]), workers=8, timeout=900)


def main(tier):
    t0 = time.time()
    sd = vlib.seed()
    v = vlib.Verdict(PID)
    work = vlib.scratch("c05")
    try:
        nx, _ = vlib.build_harness("nodex")
        rd = design(work, "d")
        if rd.violated or not rd.finished:
            raise vlib.Infra("Auth.tla fails: %s %s" % (rd.violated, rd.error))
        for g in GUARDS:
            if not design(work, "d-" + g, off=g).violated:
                raise vlib.Infra("Auth.tla without %s shows no violation" % g)
        d = os.path.join(work, "tv")
        os.makedirs(d)
        tr = os.path.join(d, "trace.ndjson")
        rounds = 1 if tier == "quick" else 6
        with open(tr, "w") as out:
            for k in range(rounds):
                f = os.path.join(work, "auth%d.ndjson" % k)
                p = vlib.sh([nx, "auth", str(sd + k), f], timeout=3000, check=False)
                if p.returncode != 0:
                    raise vlib.Infra("nodex auth failed: " + p.stdout[-800:])
                out.write(open(f).read())
        recs = [json.loads(x) for x in open(tr)]
        r = vlib.tlc(d, "AuthTrace", vlib.cfg_text(invariants=["Report"], postcondition="TraceAccepted"), workers=1, timeout=3000)
        consumed = max(r.distinct - 1, 0)
        if r.error or not r.finished or consumed < len(recs):
            raise vlib.Infra("AuthTrace stopped at line %d of %d: %s\n%s" % (consumed + 1, len(recs), r.error, r.out[-1200:]))
        classes = {}
        for m in re.finditer(r'<<\s*"VIOL",\s*(\d+)\s*>>', r.out):
            e = recs[int(m.group(1)) - 1]
            role = e["role"].split(":")[0]
            key = "%s:%s:%s" % (e["msg"], role, "applied" if e["applied"] else "owner-assets-changed")
            classes.setdefault(key, []).append(e)
        for key, items in sorted(classes.items()):
            e = items[0]
            v.violation(key, "a %s transaction (claimed owner key: %s) in role '%s' signed by %s (%s key) presenting the key of %s, signature over this content: %s, multisig quorum: %s -> applied=%s, owner's assets changed=%s on path %s (%d candidates)"
                        % (e["msg"], e["ownerKey"], e["role"], e["signer"], e["keyType"], e["presented"], e["genuine"], e["quorum"], e["applied"], e["victimChanged"], e["path"], len(items)), {"line": e})
        legit_refused = {}
        for e in recs:
            legit = e["genuine"] and e["quorum"] and e["signer"] == e["presented"] and (e["signer"] in ("OP", "OUT") if e["msg"] in ("editStake", "unstake", "pause", "unpause", "stake") else e["signer"] == "O")
            if legit and not e["applied"]:
                legit_refused["%s/%s" % (e["msg"], e["role"])] = legit_refused.get("%s/%s" % (e["msg"], e["role"]), 0) + 1
        for k, n in sorted(legit_refused.items()):
            v.divergence("legitimately signed %s refused %d time(s) (not required by the property; e.g. only the output address may change the output address)" % (k, n))
        roles, applied = {}, 0
        for e in recs:
            roles[e["role"].split(":")[0]] = roles.get(e["role"].split(":")[0], 0) + 1
            applied += e["applied"]
        coverage = {"states": rd.distinct, "transitions": rd.generated, "exhaustive": True, "constants": {"Auth": "every candidate: 14 message types x 5 signers x 4 presented keys x genuine x quorum x wire signer"},
                    "guards_confirmed_necessary": GUARDS, "traces_validated_against_impl": rounds, "trace_lines": len(recs), "trace_lines_accepted": consumed,
                    "candidates_by_role": roles, "applied": applied, "messages": sorted({e["msg"] for e in recs}), "key_types": sorted({e["keyType"] for e in recs}),
                    "paths": sorted({e["path"] for e in recs}), "violation_classes": {k: len(x) for k, x in classes.items()}, "known_findings_reproduced": [k for k, _ in v.known],
                    "samples": recs[:2]}
        vlib.write_evidence(PID, tier, "model_checking", coverage, time.time() - t0, len(v.violations),
                            ["signature schemes assumed unforgeable: candidates are assembled from genuinely produced signatures only", "stake, unpause, changeParameter, daoTransfer and certificateResults messages are in the model but not among the generated candidates",
                             "one state (a funded owner per key type with a non-custodial validator and an open order)"])
        print("C05 %s: design %d candidates; %d real candidates (%d applied) judged by TLC; roles %s; classes %s" % (tier, rd.distinct, len(recs), applied, roles, {k: len(x) for k, x in classes.items()}))
        return v.exit_code()
    finally:
        shutil.rmtree(work, ignore_errors=True)
