"""C06 replay protection -- Replay.tla / ReplayTrace.tla"""
import json, os, re, shutil, sys, time
sys.path.insert(0, os.path.dirname(os.path.abspath(__file__)))
import vlib
import ledger_common as lc

PID = "C06"
CONSTS = {"Contents": "<- MCContents", "Encodings": '{"canon", "zero", "rev", "altkey"}', "ThisChain": "1", "ThisNet": "1", "Window": "3", "MaxHeight": "7"}
GUARDS = ["G_ReplayByContent", "G_ChainBound", "G_WindowBound"]


def design(work, off=None, name="design"):
    c = dict(CONSTS)
    for g in GUARDS:
        c[g] = "FALSE" if g == off else "TRUE"
    cfg = vlib.cfg_text(constants=c, view="view", invariants=["AtMostOnce", "OnlyThisChain", "OnlyInWindow"])
    return vlib.tlc(os.path.join(work, name), "MCReplay", cfg, workers=8, timeout=900)


def main(tier):
    t0 = time.time()
    sd = vlib.seed()
    v = vlib.Verdict(PID)
    work = vlib.scratch("c06")
    try:
        binp, _ = vlib.build_harness("nodex")
        r = design(work)
        if r.violated or not r.finished:
            raise vlib.Infra("Replay.tla design check failed: %s %s" % (r.violated, r.error))
        for g in GUARDS:  # anti-vacuity: each guard is needed
            rw = design(work, g, "weak-" + g)
            if not rw.violated:
                raise vlib.Infra("vacuous: Replay.tla without %s violates nothing" % g)
        tr = lc.nodex(binp, ["replay", sd, 2 if tier == "quick" else 25], os.path.join(work, "replay.ndjson"))
        d = os.path.join(work, "tv")
        os.makedirs(d)
        shutil.copyfile(tr, os.path.join(d, "trace.ndjson"))
        rt = vlib.tlc(d, "ReplayTrace", vlib.cfg_text(invariants=["Report"], postcondition="TraceAccepted"), workers=1, timeout=1200)
        recs = [json.loads(x) for x in open(tr)]
        consumed = max(rt.distinct - 1, 0)
        if rt.error or not rt.finished or consumed < len(recs):
            raise vlib.Infra("ReplayTrace stopped at line %d of %d: %s\n%s" % (consumed + 1, len(recs), rt.error, rt.out[-1000:]))
        classes = {}
        for m in re.finditer(r'<<\s*"VIOL",\s*(\d+),\s*\[([^\]]*)\]\s*>>', rt.out.replace("\n", " ")):
            rec = recs[int(m.group(1)) - 1]
            for fld, val in re.findall(r"(\w+) \|-> (TRUE|FALSE)", m.group(2)):
                if val == "FALSE":
                    if fld == "AtMostOnce" and not rec.get("executed"):
                        continue  # the count stays above one on later lines of the same content; report the executing offers only
                    if fld in ("LegitExecutes", "NoError"):
                        raise vlib.Infra("replay driver: %s false at line %s: %s" % (fld, m.group(1), json.dumps(rec)))
                    classes.setdefault(fld + ":" + rec["variant"], []).append(rec)
        what = {"AtMostOnce": "a byte string carrying already-included signed content executed again",
                "ForeignNeverExecutes": "a transaction for another chain / network / beyond the creation window executed"}
        for key, items in sorted(classes.items()):
            v.violation(key, "%s (variant %s, %d time(s); first: %s)" % (what[key.split(":")[0]], key.split(":")[1], len(items), json.dumps(items[0])), {"line": items[0]})
        offers = [x for x in recs if x["kind"] == "offer" and x["content"] >= 0]
        coverage = {"states": r.distinct, "transitions": r.generated, "exhaustive": True,
                    "constants": {"contents": 5, "encodings": 4, "window": 3, "heights": "2..7"},
                    "traces_validated_against_impl": 1, "trace_lines": len(recs), "trace_lines_accepted": consumed,
                    "offers": len(offers), "variants": sorted({x["variant"] for x in offers}),
                    "violation_classes": {k: len(x) for k, x in classes.items()}, "known_findings_reproduced": [k for k, _ in v.known],
                    "samples": offers[:3]}
        vlib.write_evidence(PID, tier, "model_checking", coverage, time.time() - t0, len(v.violations),
                            ["signature schemes are unforgeable; only BLS/ed25519 native transactions are re-encoded here (RLP / eth key representations are exercised by C05)",
                             "the lower end of the 4320-block creation window is not reached"])
        print("C06 %s: design %d states; %d offers to the real node validated by TLC; classes %s" % (tier, r.distinct, len(offers), {k: len(x) for k, x in classes.items()}))
        return v.exit_code()
    finally:
        shutil.rmtree(work, ignore_errors=True)
