"""C07 transaction and block atomicity -- Chain.tla / ChainTrace.tla"""
import os, sys
sys.path.insert(0, os.path.dirname(os.path.abspath(__file__)))
import chain_common as cc
import slash_stage, vlib
WHAT = {"Atomic": "failed transactions or a refused block / proposal left a trace: roots differ from the node that never saw them, or version / state changed",
        "NoPathError": "after refused / failed inputs a node could not execute a block that the other paths accepted (its working state was damaged)"}
def slash(v, work, tier, sd):
    """blocks whose only stake changes are slashes ordered by certificate-results transactions, with transactions between them
    that fail on delivery AFTER having written (an index entry, a tracker entry): the block's outcome must be what applying
    its successful transactions alone gives (Slash.tla as the oracle), and a later valid transaction must not be refused"""
    nodex, _ = vlib.build_harness("nodex")
    return slash_stage.run(v, work, tier, sd, nodex, pid="C07")
def main(tier):
    return cc.run("C07", tier, set(WHAT), WHAT, ["G_ResetBeforeExec"], extra_stage=slash)
