"""C07 transaction and block atomicity -- Chain.tla / ChainTrace.tla"""
import os, sys
sys.path.insert(0, os.path.dirname(os.path.abspath(__file__)))
import chain_common as cc
WHAT = {"Atomic": "failed transactions or a refused block / proposal left a trace: roots differ from the node that never saw them, or version / state changed",
        "NoPathError": "after refused / failed inputs a node could not execute a block that the other paths accepted (its working state was damaged)"}
def main(tier):
    return cc.run("C07", tier, set(WHAT), WHAT, ["G_ResetBeforeExec"])
