"""C07 transaction and block atomicity -- Chain.tla / ChainTrace.tla"""
import os, sys
sys.path.insert(0, os.path.dirname(os.path.abspath(__file__)))
import chain_common as cc
WHAT = {"Atomic": "failed transactions or a refused block / proposal left a trace: roots differ from the node that never saw them, or version / state changed"}
def main(tier):
    return cc.run("C07", tier, set(WHAT), WHAT, ["G_ResetBeforeExec"])
