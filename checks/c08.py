"""C08 state root is a pure, collision-free function of the state -- Smt.tla (DESIGN.md section 4, C08)."""
import json, os, shutil, sys, time
sys.path.insert(0, os.path.dirname(os.path.abspath(__file__)))
import vlib
import smt_common as sc

PID = "C08"
PRED = {"RealTreeIsCanon": "the stored tree differs from the canonical tree of the state",
        "hashOK": "a stored inner node's hash is not the hash of its children",
        "rootEq": "the committed root differs from the canonical commitment of the state (or two histories reaching the same state gave different roots)",
        "noerr": "a tree commit failed"}


def main(tier):
    t0 = time.time()
    sd = vlib.seed()
    v = vlib.Verdict(PID)
    work = vlib.scratch("c08")
    try:
        smtx, _ = vlib.build_harness("smtx")
        # 1. design: exhaustive K=3 (every state x every batch), the sequential algorithm against Canon
        r = sc.design(work, 3, ["TreeIsCanon"])
        if r.violated or not r.finished:
            raise vlib.Infra("Smt.tla design check failed: %s %s" % (r.violated, r.error))
        # parallel commit (synthetic borders) by random walk, K=5
        rp = sc.simulate_parallel(work, 5, sd, 30 if tier == "quick" else 600, 12)
        if rp.violated or rp.error:
            raise vlib.Infra("Smt.tla parallel-commit simulation failed: %s %s" % (rp.violated, rp.error))
        # 2. real trees, K-bit keys
        plans = [(3, 400, False), (4, 300, False), (8, 100, True)] if tier == "quick" else [(3, 5000, False), (4, 4000, False), (8, 1200, True), (10, 400, True)]
        lines_total, lines_ok, par_batches = 0, 0, 0
        samples = []
        findings = {}
        for K, n, borders in plans:
            tr = sc.smtx(smtx, ["tree", K, sd, n], os.path.join(work, "tree%d.ndjson" % K))
            found, consumed, total = sc.report(work, "tree%d" % K, tr, K, borders)
            lines_total += total
            lines_ok += consumed
            recs = [json.loads(x) for x in open(tr)]
            par_batches += sum(1 for x in recs if x.get("par"))
            if len(samples) < 3 and len(recs) > 1:
                samples.append({"K": K, "ops": recs[1]["ops"], "par": recs[1]["par"]})
            if "refCanon" in found:
                raise vlib.Infra("driver's reference tree is not Canon(st) at line %d (K=%d): reference bug" % (found["refCanon"][0], K))
            for pred, lns in found.items():
                if pred in PRED:
                    findings.setdefault(pred, []).append((K, lns[0], recs[lns[0] - 1]))
        # 3. real Store, 160-bit keys
        ts = sc.smtx(smtx, ["store", sd, 12 if tier == "quick" else 150], os.path.join(work, "store.ndjson"))
        found, consumed, total = sc.report(work, "store", ts, 3, False)
        lines_total += total
        lines_ok += consumed
        srecs = [json.loads(x) for x in open(ts)]
        for pred in ("rootEq", "noerr"):
            if pred in found:
                findings.setdefault(pred, []).append((160, found[pred][0], srecs[found[pred][0] - 1]))
        for pred, items in findings.items():
            K, ln, rec = items[0]
            v.violation("%s:K%d" % (pred, K), "%s (K=%d, trace line %d, %d occurrence(s))" % (PRED[pred], K, ln, len(items)), {"line": rec, "K": K})
        cov = r.coverage()
        coverage = {"states": r.distinct, "transitions": r.generated, "exhaustive": True,
                    "constants": {"K": 3, "user_keys": 5, "values": 2, "batches": "every subset of keys x every set/delete assignment"},
                    "parallel_commit_simulation": {"K": 5, "states": rp.generated},
                    "traces_validated_against_impl": len(plans) + 1, "trace_lines": lines_total, "trace_lines_accepted": lines_ok,
                    "parallel_batches_on_real_tree": par_batches, "store_histories_lines": len(srecs),
                    "coverage_by_action": {k: list(x) for k, x in cov.items()},
                    "known_findings_reproduced": [k for k, _ in v.known], "samples": samples or [{"note": "no batch"}]}
        vlib.write_evidence(PID, tier, "model_checking", coverage, time.time() - t0, len(v.violations),
                            ["SHA-256 collision resistance (hashes are injective terms in the spec)",
                             "the driver's reference root is bound to Canon(st) by the RefIsCanon predicate on every K-bit line and then used at 160 bits",
                             "goroutine schedules of the 8 subtree workers are sampled, not enumerated"])
        print("C08 %s: design %d states/%d transitions (K=3 exhaustive); %d trace lines validated (%d parallel batches); findings: %s"
              % (tier, r.distinct, r.generated, lines_ok, par_batches, sorted(findings)))
        return v.exit_code()
    finally:
        shutil.rmtree(work, ignore_errors=True)
