"""C09 crash-consistent, all-or-nothing block commit -- Crash.tla / CrashTrace.tla"""
import json, os, re, shutil, sys, time
sys.path.insert(0, os.path.dirname(os.path.abspath(__file__)))
import vlib
import ledger_common as lc

PID = "C09"


def design(work, guard, name):
    cfg = vlib.cfg_text(constants={"MaxHeight": "4", "G_SingleBatch": "TRUE" if guard else "FALSE"}, invariants=["Consistent"])
    return vlib.tlc(os.path.join(work, name), "Crash", cfg, workers=8, timeout=600)


def main(tier):
    t0 = time.time()
    sd = vlib.seed()
    v = vlib.Verdict(PID)
    work = vlib.scratch("c09")
    try:
        binp, _ = vlib.build_harness("nodex")
        r = design(work, True, "design")
        if r.violated or not r.finished:
            raise vlib.Infra("Crash.tla design check failed: %s %s" % (r.violated, r.error))
        if design(work, False, "weak").violated != "Consistent":
            raise vlib.Infra("vacuous: Crash.tla without G_SingleBatch does not violate Consistent")
        runs, blocks = (1, 6) if tier == "quick" else (25, 10)
        tr = lc.nodex(binp, ["crash", sd, runs, blocks, 1], os.path.join(work, "crash.ndjson"))
        d = os.path.join(work, "tv")
        os.makedirs(d)
        shutil.copyfile(tr, os.path.join(d, "trace.ndjson"))
        rt = vlib.tlc(d, "CrashTrace", vlib.cfg_text(invariants=["Report"], postcondition="TraceAccepted"), workers=1, timeout=2400)
        recs = [json.loads(x) for x in open(tr)]
        consumed = max(rt.distinct - 1, 0)
        if rt.error or not rt.finished or consumed < len(recs):
            raise vlib.Infra("CrashTrace stopped at line %d of %d: %s\n%s" % (consumed + 1, len(recs), rt.error, rt.out[-1000:]))
        classes = {}
        for m in re.finditer(r'<<\s*"VIOL",\s*(\d+),\s*\[([^\]]*)\]\s*>>', rt.out.replace("\n", " ")):
            rec = recs[int(m.group(1)) - 1]
            for fld, val in re.findall(r"(\w+) \|-> (TRUE|FALSE)", m.group(2)):
                if val == "FALSE":
                    classes.setdefault(fld, []).append(rec)
        what = {"Runs": "the node could not be created on an empty database or could not run its block history", "Opens": "a crash image could not be re-opened", "AtCommittedVersion": "a crash image re-opened at a version the node had not committed",
                "AllComponentsAgree": "after a crash, state root / full state / state-machine height do not all reflect the re-opened version",
                "HistoryIntact": "after a crash, a block, certificate or historical state of an earlier version is missing or different",
                "CanContinue": "after a crash the node cannot produce and commit the next block"}
        for key, items in sorted(classes.items()):
            v.violation(key, "%s (%d image(s); first: %s)" % (what[key], len(items), json.dumps(items[0])[:500]), {"line": items[0]})
        imgs = [x for x in recs if x["kind"] == "image"]
        if not imgs and not v.violations and not v.known:
            raise vlib.Infra("no crash images taken: dead driver")
        if not imgs:
            imgs = [{"version": 0, "totalOps": 0, "phase": "none"}]
        versions = sorted({x["version"] for x in imgs})
        coverage = {"states": r.distinct, "transitions": r.generated, "exhaustive": True, "constants": {"heights": 4, "crash": "any prefix of the log records"},
                    "traces_validated_against_impl": runs, "trace_lines": len(recs), "trace_lines_accepted": consumed,
                    "crash_images": len(imgs), "fs_operation_boundaries": max(x["totalOps"] for x in recs), "unsynced_survival_percent": [0, 50, 100],
                    "versions_reopened_at": versions, "violation_classes": {k: len(x) for k, x in classes.items()},
                    "known_findings_reproduced": [k for k, _ in v.known], "samples": imgs[:2]}
        vlib.write_evidence(PID, tier, "fault_enumeration" if False else "model_checking", coverage, time.time() - t0, len(v.violations),
                            ["pebble's CrashableMem / CrashClone is the crash model (synced data survives, each unsynced block or directory entry survives with the stated probability)",
                             "a crash image is taken before every mutating file-system operation (create, write, sync, rename, remove, link) of the whole history, for three survival ratios",
                             "file-system operations issued by pebble's background goroutines are counted where they happen; the image points are therefore not aligned with Commit() call boundaries"])
        print("C09 %s: design %d states; %d crash images over %d file-system operation boundaries re-opened and validated by TLC (versions %s); classes %s"
              % (tier, r.distinct, len(imgs), coverage["fs_operation_boundaries"], versions, {k: len(x) for k, x in classes.items()}))
        return v.exit_code()
    finally:
        shutil.rmtree(work, ignore_errors=True)
