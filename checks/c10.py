"""C10 store read semantics and immutability of committed history -- Store.tla / StoreTrace.tla"""
import json, os, re, shutil, sys, time
sys.path.insert(0, os.path.dirname(os.path.abspath(__file__)))
import vlib

PID = "C10"
BASE = {"Vals": '{"x"}', "NoVal": "NoVal", "Untouched": "Untouched", "PrefixOf": "<- MCPrefixOf", "EnableRollback": "TRUE"}


def design(work, name, keys, prefixes, maxv, depth, copy):
    c = dict(BASE, Keys=keys, Prefixes=prefixes, MaxVersion=str(maxv), MaxDepth=str(depth), EnableCopy="TRUE" if copy else "FALSE")
    cfg = vlib.cfg_text(constants=c, view="view", invariants=["ReadYourWrites", "DeletesHide", "IterSorted", "RollbackExact"], properties=["Immutable"])
    return vlib.tlc(os.path.join(work, name), "MCStore", cfg, workers=16, timeout=1500)


def main(tier):
    t0 = time.time()
    sd = vlib.seed()
    v = vlib.Verdict(PID)
    work = vlib.scratch("c10")
    try:
        binp, _ = vlib.build_harness("storex")
        ra = design(work, "da", "{1, 2, 7}", '{"a", "ab"}', 2, 2, False)
        rb = design(work, "db", "{1, 2, 7}", '{"a", "ab"}', 1, 1, True)
        for r in (ra, rb):
            if r.violated or not r.finished:
                raise vlib.Infra("Store.tla design check failed: %s %s" % (r.violated, r.error))
        plans = [("mem", 40, 150), ("disk", 6, 200)] if tier == "quick" else [("mem", 1200, 200), ("disk", 150, 300)]
        total = okl = 0
        bad = []
        samples = []
        for mode, n, ops in plans:
            tr = os.path.join(work, mode + ".ndjson")
            p = vlib.sh([binp, "run", str(sd), str(n), str(ops), mode, tr], timeout=3000, check=False)
            if p.returncode != 0:
                raise vlib.Infra("storex failed: " + p.stdout[-1000:])
            d = os.path.join(work, "tv-" + mode)
            os.makedirs(d)
            shutil.copyfile(tr, os.path.join(d, "trace.ndjson"))
            c = dict(BASE, Vals='{"x", "y", "z", "e"}', Keys="{1, 2, 3, 4, 5, 6, 7}", Prefixes='{"a", "b", "ab"}', MaxVersion="100", MaxDepth="3", EnableCopy="TRUE")
            rt = vlib.tlc(d, "StoreTrace", vlib.cfg_text(spec="TraceSpec", constants=c, invariants=["Report"], postcondition="TraceAccepted"), workers=1, timeout=3000)
            recs = [json.loads(x) for x in open(tr)]
            consumed = max(rt.distinct - 1, 0)
            if (rt.error or not rt.finished or consumed < len(recs)) and '"VIOL"' not in rt.out:
                raise vlib.Infra("StoreTrace stopped at line %d of %d (%s): %s\n%s" % (consumed + 1, len(recs), mode, rt.error, rt.out[-1200:]))
            total += len(recs)
            okl += consumed
            if not samples:
                samples = recs[1:6]
            flat = rt.out.replace("\n", " ")
            for seg in re.split(r'<<\s*"VIOL",', flat)[1:]:
                m = re.match(r'\s*(\d+),', seg)
                if not m:
                    continue
                ln = int(m.group(1))
                # what the versioned map answers (Store.tla), as printed by TLC: res |-> <<<<k, v>>, ...>>
                body = seg[:seg.index("]")] if "]" in seg else seg
                res = re.search(r'res \|-> (.*?)(?:,\s+\w+ \|->|$)', body)
                exp = [(int(x), y) for x, y in re.findall(r'<<(\d+), "?(\w+)"?>>', res.group(1) if res else "")]
                bad.append((mode, ln, recs[ln - 1], recs[max(0, ln - 12):ln], exp))
        classes = {}
        for mode, ln, rec, ctx, exp in bad:
            key = "read:" + rec["op"]
            if rec["op"] in ("iter", "iterAt", "cpiter"):
                # a difference that concerns nothing but key 2 (a/1/x, whose bytes extend key 1 = a/1) is its own class
                got = [(x["k"], x["v"]) for x in rec.get("items") or []]
                if exp and [x for x in got if x[0] != 2] == [x for x in exp if x[0] != 2]:
                    key += ":extending-key"
            classes.setdefault(key, []).append((mode, ln, rec, ctx))
        for key, items in sorted(classes.items()):
            mode, ln, rec, ctx = items[0]
            v.violation(key, "a read of the real store differs from the versioned-map answer (%d time(s); first: %s store, line %d: %s)"
                        % (len(items), mode, ln, json.dumps(rec)[:300]), {"line": rec, "preceding": ctx})
        coverage = {"states": ra.distinct + rb.distinct, "transitions": ra.generated + rb.generated, "exhaustive": True,
                    "constants": {"config_a": "3 keys / 2 prefixes, 1 value, 2 versions, nesting depth 2", "config_b": "same keys, store copy, 1 version"},
                    "traces_validated_against_impl": len(plans), "trace_lines": total, "trace_lines_accepted": okl,
                    "violation_classes": {k: len(x) for k, x in classes.items()}, "known_findings_reproduced": [k for k, _ in v.known], "samples": samples}
        vlib.write_evidence(PID, tier, "model_checking", coverage, time.time() - t0, len(v.violations),
                            ["seven keys over three length-prefixed prefixes (one key extends another), up to 12 versions per sequence", "rollback to any earlier version is part of the sequences; a store copy is not used across a rollback"])
        print("C10 %s: design %d+%d states; %d real store operations validated by TLC; classes %s" % (tier, ra.distinct, rb.distinct, okl, {k: len(x) for k, x in classes.items()}))
        return v.exit_code()
    finally:
        shutil.rmtree(work, ignore_errors=True)
