"""C11 block portability -- Chain.tla / ChainTrace.tla"""
import os, sys
sys.path.insert(0, os.path.dirname(os.path.abspath(__file__)))
import chain_common as cc
import mempool_stage
WHAT = {"Portable": "an honest proposal was refused by an honest replica with the same prefix, or a block served from the archive did not re-validate on a fresh node"}
def main(tier):
    return cc.run("C11", tier, set(WHAT), WHAT, ["G_ArchiveCanonical"], extra_stage=mempool_stage.run)
