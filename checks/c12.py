"""C12 staking bookkeeping stays consistent and the chain never wedges itself -- Ledger.tla / LedgerTrace.tla"""
import os, sys
sys.path.insert(0, os.path.dirname(os.path.abspath(__file__)))
import ledger_common as lc

WHAT = {"StakedTally": "Supply.Staked differs from the sum of validator stakes",
        "DelegatedTally": "Supply.DelegatedOnly differs from the sum of delegate stakes",
        "CommitteeTallies": "a per-committee tally differs from the sum over the validators listing the committee",
        "MarkersMatch": "an unstaking/paused marker does not correspond to a validator in exactly that status (or vice versa)",
        "NoWedge": "the chain cannot produce / apply its next block"}


def main(tier):
    return lc.run_family("C12", tier, set(WHAT), WHAT)
