"""C13 committee derivation and voting power -- CommitteeDef.tla / Committee.tla / LedgerTrace.tla"""
import json, os, shutil, sys, time
sys.path.insert(0, os.path.dirname(os.path.abspath(__file__)))
import vlib
import ledger_common as lc

PID = "C13"
WHAT = {"CommitteeMatches": "the committee / delegate set / power / threshold the node answers differs from the definition applied to the recorded validator records",
        "HistoryStable": "the committee answered for a past height changed after later blocks"}


def main(tier):
    t0 = time.time()
    sd = vlib.seed()
    v = vlib.Verdict(PID)
    work = vlib.scratch("c13")
    try:
        binp, _ = vlib.build_harness("nodex")
        n = 4  # 5 validators x 16 attribute combinations exceed TLC's limit for an enumerated set of initial states
        cfg = vlib.cfg_text(constants={"N": str(n), "Stakes": "{1, 2}" if tier == "quick" else "{1, 2, 3}", "Caps": "{0, 1, 2, 3}"}, invariants=["Sane"])
        r = vlib.tlc(os.path.join(work, "design"), "Committee", cfg, workers=16, timeout=2400)
        if r.violated or not r.finished:
            raise vlib.Infra("Committee.tla design check failed: %s %s" % (r.violated, r.error))
        scripts = lc.simulate(work, sd, 20 if tier == "quick" else 300, 7)
        sp = os.path.join(work, "scripts.ndjson")
        with open(sp, "w") as fh:
            for s in scripts:
                fh.write(json.dumps(s) + "\n")
        traces = [("replay", lc.nodex(binp, ["ledger-replay", sp], os.path.join(work, "replay.ndjson"))),
                  ("random", lc.nodex(binp, ["ledger", sd, 20 if tier == "quick" else 250, 25, "small"], os.path.join(work, "random.ndjson")))]
        total_lines = ok_lines = hist = 0
        classes, samples = {}, []
        for name, tr in traces:
            found, consumed, total = lc.report(work, name, tr)
            total_lines += total
            ok_lines += consumed
            recs = [json.loads(x) for x in open(tr)]
            hist += sum(x["scan"]["histChecked"] for x in recs)
            if len(samples) < 2 and len(recs) > 3:
                s = recs[3]["scan"]
                samples.append({"vals": [(x["name"], x["stake"], x["rank"], x["delegate"], x["unstaking"], x["paused"], x["committees"]) for x in s["vals"]],
                                "comm": [(c["chain"], c["members"], c["maj23"]) for c in s["comm"]]})
            for pred, lns in found.items():
                if pred in WHAT:
                    for ln in lns:
                        classes.setdefault(pred, []).append((name, ln, recs[ln - 1]))
        for pred, items in sorted(classes.items()):
            name, ln, rec = items[0]
            s = rec["scan"]
            v.violation(pred, "%s (%d recorded state(s); first: %s trace line %d, height %d, vals %s, answered %s)"
                        % (WHAT[pred], len(items), name, ln, s["height"], [(x["name"], x["stake"], x["rank"], x["unstaking"], x["paused"], x["committees"]) for x in s["vals"]],
                           [(c["chain"], c["members"], c["maj23"], c["delegates"]) for c in s["comm"]]), {"line": rec})
        coverage = {"states": r.distinct, "transitions": r.generated, "exhaustive": True,
                    "constants": {"N": n, "stakes": [1, 2], "status": ["active", "paused", "unstaking", "delegate"], "caps": [0, 1, 2, 3]},
                    "traces_validated_against_impl": len(traces), "trace_lines": total_lines, "trace_lines_accepted": ok_lines,
                    "historical_requeries": hist, "violation_classes": {k: len(x) for k, x in classes.items()},
                    "known_findings_reproduced": [k for k, _ in v.known], "samples": samples}
        vlib.write_evidence(PID, tier, "model_checking", coverage, time.time() - t0, len(v.violations),
                            ["address order enters only through the rank computed by the driver from the raw address bytes",
                             "committee cap 3, delegate cap 2, three chains, ties at the cap boundary arise from the genesis stakes"])
        print("C13 %s: design %d populations; %d real states validated by TLC; %d historical re-queries; classes %s"
              % (tier, r.distinct, ok_lines, hist, {k: len(x) for k, x in classes.items()}))
        return v.exit_code()
    finally:
        shutil.rmtree(work, ignore_errors=True)
