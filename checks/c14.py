"""C14 slashing accountability -- EvidenceDef.tla / Evidence.tla / EvidenceTrace.tla (+ at-most-once on the ledger via LedgerTrace)"""
import json, os, re, shutil, sys, time
sys.path.insert(0, os.path.dirname(os.path.abspath(__file__)))
import vlib
import ledger_common as lc
import slash_stage

PID = "C14"
GUARDS = ["G_SameView", "G_BothVerified", "G_PayloadsDiffer", "G_PhaseAfterPropose"]


def design(work, honest, views, off=None, name="design", timeout=900):
    c = {g: ("FALSE" if g == off else "TRUE") for g in GUARDS}
    c.update({"Honest": honest, "Byz": '{"b"}', "Views": "<- " + views})
    return vlib.tlc(os.path.join(work, name), "Evidence", vlib.cfg_text(constants=c, invariants=["OnlyEquivocators"]), workers=16, timeout=timeout)


def main(tier):
    t0 = time.time()
    sd = vlib.seed()
    v = vlib.Verdict(PID)
    work = vlib.scratch("c14")
    try:
        bftsim, _ = vlib.build_harness("bftsim")
        nodex, _ = vlib.build_harness("nodex")
        r1 = design(work, '{"h1"}', "ViewsFull", name="d1")
        r2 = r1 if tier == "quick" else design(work, '{"h1", "h2"}', "ViewsTwo", name="d2", timeout=3000)
        for r in (r1, r2):
            if r.violated or not r.finished:
                raise vlib.Infra("Evidence.tla design check failed: %s %s" % (r.violated, r.error))
        for g in ("G_SameView", "G_BothVerified"):  # the phase guard is not needed for soundness (one election vote per view)
            rw = design(work, '{"h1"}', "ViewsFull", g, "weak-" + g, 300)
            if rw.violated != "OnlyEquivocators":
                raise vlib.Infra("vacuous: Evidence.tla without %s does not violate OnlyEquivocators" % g)
        # real evidence processing
        tr = os.path.join(work, "ev.ndjson")
        p = vlib.sh([bftsim, "evidence", str(sd), str(40 if tier == "quick" else 1500), tr], timeout=3000, check=False)
        if p.returncode != 0:
            raise vlib.Infra("bftsim evidence failed: " + p.stdout[-1000:])
        d = os.path.join(work, "tv")
        os.makedirs(d)
        shutil.copyfile(tr, os.path.join(d, "trace.ndjson"))
        c = {g: "TRUE" for g in GUARDS}
        rt = vlib.tlc(d, "EvidenceTrace", vlib.cfg_text(constants=c, invariants=["Report"], postcondition="TraceAccepted"), workers=1, timeout=2400)
        recs = [json.loads(x) for x in open(tr)]
        consumed = max(rt.distinct - 1, 0)
        if rt.error or not rt.finished or consumed < len(recs):
            raise vlib.Infra("EvidenceTrace stopped at line %d of %d: %s\n%s" % (consumed + 1, len(recs), rt.error, rt.out[-1000:]))
        classes, nonconf = {}, []
        for m in re.finditer(r'<<\s*"VIOL",\s*(\d+),\s*\[([^\]]*)\]\s*>>', rt.out.replace("\n", " ")):
            rec = recs[int(m.group(1)) - 1]
            flags = dict(re.findall(r"(\w+) \|-> (TRUE|FALSE)", m.group(2)))
            if flags.get("OnlyEquivocatorsReal") == "FALSE":
                classes.setdefault("honest-implicated", []).append(rec)
            if flags.get("NoExtraNames") == "FALSE":
                classes.setdefault("extra-name-accepted", []).append(rec)
            if flags.get("Conforms") == "FALSE":
                nonconf.append(rec)
        # ledger side: the same (validator, evidence height) is slashed at most once; double-sign reports repeat across blocks
        lt = lc.nodex(nodex, ["ledger", sd, 10 if tier == "quick" else 120, 25, "small"], os.path.join(work, "ledger.ndjson"))
        lrecs = [json.loads(x) for x in open(lt)]
        found, lconsumed, ltotal = lc.report(work, "ledger", lt)
        for ln in found.get("SlashOnce", []):
            classes.setdefault("slashed-twice", []).append(lrecs[ln - 1])
        what = {"honest-implicated": "a validator that signed at most one payload per view was named a double signer",
                "extra-name-accepted": "a proposer-claimed slash list with a name that the attached evidence does not implicate was accepted",
                "slashed-twice": "the same (validator, evidence height) was slashed more than once"}
        for key, items in sorted(classes.items()):
            rec = items[0]
            brief = {k: rec[k] for k in ("a", "b", "implicated", "votes", "err") if k in rec} or lc.brief(rec)
            v.violation(key, "%s (%d case(s); first: %s)" % (what[key], len(items), json.dumps(brief)[:600]), {"line": rec})
        for rec in nonconf[:3]:
            v.divergence("ProcessDSE answer differs from EvidenceDef!Implicated without implicating an honest validator: implicated=%s err=%s a=%s b=%s"
                         % (rec["implicated"], rec["err"][:60].replace("\n", " "), rec["a"], rec["b"]))
        sl = slash_stage.run(v, work, tier, sd, nodex)
        impl = sum(1 for x in recs if x["implicated"])
        if impl == 0:
            raise vlib.Infra("vacuous: the real code never implicated the Byzantine validator")
        dbl = sum(len(x.get("dblsign") or []) for x in lrecs)
        coverage = {"states": r1.distinct + (0 if r2 is r1 else r2.distinct), "transitions": r1.generated + (0 if r2 is r1 else r2.generated), "exhaustive": True,
                    "constants": {"config1": "1 honest + 1 Byzantine, views {PV r0, PV r1, EV r0}", "config2": "2 honest + 1 Byzantine",
                                  "certificates": "any subset of the genuine signatures, bitmap padded by at most one validator"},
                    "traces_validated_against_impl": 2, "trace_lines": len(recs) + ltotal, "trace_lines_accepted": consumed + lconsumed,
                    "evidence_objects": len(recs), "evidence_implicating": impl, "ledger_double_sign_reports": dbl,
                    "model_divergences": v.divergences, "violation_classes": {k: len(x) for k, x in classes.items()},
                    "known_findings_reproduced": [k for k, _ in v.known], "samples": [{k: recs[0][k] for k in ("a", "b", "implicated", "err")}]}
        coverage.update(sl)
        coverage["traces_validated_against_impl"] = 3
        vlib.write_evidence(PID, tier, "model_checking", coverage, time.time() - t0, len(v.violations),
                            ["BLS signatures unforgeable: evidence is assembled only from signatures that the recorded vote log contains",
                             "the per-committee cap is judged on blocks whose only stake changes are slashes (own-chain certificate at block begin, nested-chain certificate-results transactions with failing transfers between them)",
                             "expired evidence is not exercised"])
        print("C14 %s: design %d+%d states; %d evidence objects (%d implicating), %d ledger double-sign reports validated by TLC; slash budget: %d design states, %d real block states (%d reach the cap); classes %s; non-conforming %d"
              % (tier, r1.distinct, r2.distinct, len(recs), impl, dbl, sl["slash_states"], sl["slash_block_states_validated"], sl["slash_blocks_reaching_cap"],
                 dict({k: len(x) for k, x in classes.items()}, **{k: n for k, n in sl["slash_violation_classes"].items() if n}), len(nonconf)))
        return v.exit_code()
    finally:
        shutil.rmtree(work, ignore_errors=True)
