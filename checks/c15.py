"""C15 BFT liveness under eventual synchrony -- Liveness.tla / LiveTrace.tla"""
import json, os, re, shutil, sys, time
sys.path.insert(0, os.path.dirname(os.path.abspath(__file__)))
import vlib
import election_stage

PID = "C15"
GUARDS = ["G_UsableHighQC", "G_HighestWins", "G_SafeNodeLive"]


def design(work, name, off=None, maxrnd=1):
    c = {"Honest": '{"n1", "n2", "n3"}', "Vals": '{"p", "q"}', "MaxRnd": str(maxrnd)}
    for g in GUARDS:
        c[g] = "FALSE" if g == off else "TRUE"
    return vlib.tlc(os.path.join(work, name), "Liveness", vlib.cfg_text(constants=c, invariants=["HonestRoundCommits"]), workers=16, timeout=3000)


def timing(work, name, inv, count_delay=True, maxoff=6):
    c = {"Nodes": '{"n1", "n2", "n3"}', "Phases": "7", "WaitOf": "<- MCWaitOf", "MaxOffset": str(maxoff), "Delta": "2", "G_CountDelay": "TRUE" if count_delay else "FALSE"}
    return vlib.tlc(os.path.join(work, name), "MCTiming", vlib.cfg_text(constants=c, invariants=[inv]), workers=4, timeout=600)


def main(tier):
    t0 = time.time()
    sd = vlib.seed()
    v = vlib.Verdict(PID)
    work = vlib.scratch("c15")
    try:
        binp, _ = vlib.build_harness("bftsim")
        rd = design(work, "d", maxrnd=1 if tier == "quick" else 2)
        if rd.violated or not rd.finished:
            raise vlib.Infra("Liveness.tla fails: %s %s" % (rd.violated, rd.error))
        for g in GUARDS:
            if not design(work, "d-" + g, off=g).violated:
                raise vlib.Infra("Liveness.tla without %s shows no violation" % g)
        # the clock side: the alignment hypothesis used by LiveTrace.tla suffices for timely delivery (and needs the delay term)
        rt = timing(work, "timing", "AlignedIsEnough", maxoff=6 if tier == "quick" else 8)
        if rt.violated or not rt.finished:
            raise vlib.Infra("Timing.tla fails: %s %s" % (rt.violated, rt.error))
        if not timing(work, "timing-nodelay", "AlignedIsEnough", count_delay=False).violated:
            raise vlib.Infra("Timing.tla: alignment without the delay term is still enough (vacuous)")
        if not timing(work, "timing-notbefore", "AlignedNotBefore").violated:
            raise vlib.Infra("Timing.tla: NotBefore unexpectedly follows from alignment")
        d = os.path.join(work, "tv")
        os.makedirs(d)
        tr = os.path.join(d, "trace.ndjson")
        runs = 84 if tier == "quick" else 1260
        p = vlib.sh([binp, "live", str(sd), str(runs), tr], timeout=6000, check=False)
        if p.returncode != 0:
            raise vlib.Infra("bftsim live failed: " + p.stdout[-800:])
        recs = [json.loads(x) for x in open(tr)]
        r = vlib.tlc(d, "LiveTrace", vlib.cfg_text(invariants=["Report"], postcondition="TraceAccepted"), workers=1, timeout=3000)
        consumed = max(r.distinct - 1, 0)
        if r.error or not r.finished or consumed < len(recs):
            raise vlib.Infra("LiveTrace stopped at line %d of %d: %s\n%s" % (consumed + 1, len(recs), r.error, r.out[-1200:]))
        classes = {}
        for m in re.finditer(r'<<\s*"VIOL",\s*(\d+)\s*>>', r.out):
            e = recs[int(m.group(1)) - 1]
            why = "no-agreement" if not e["agreement"] else "synchronous-honest-round-without-commit"
            classes.setdefault("%s:%s:%s" % (e["prefix"], e["byz"], why), []).append(e)
        for key, items in sorted(classes.items()):
            e = items[0]
            stuck = [x for x in e["rounds"] if x["leaderHonest"] and len(x["inRound"]) == 3 and x["aligned"] and not x["committed"]]
            v.violation(key, "prefix '%s', Byzantine validator '%s', delay %d ms: %d synchronous round(s) led by an honest validator with all honest replicas taking part did not commit (e.g. round %s led by %s); committed=%s after %d rounds (%d runs)"
                        % (e["prefix"], e["byz"], e["delta"], len(stuck), stuck[0]["r"] if stuck else "?", stuck[0]["leader"] if stuck else "?", e["committed"], e["roundsToCommit"], len(items)), {"run": e})
        el = election_stage.run(v, work, tier, sd)
        hist, sync_rounds, byzled = {}, 0, 0
        for e in recs:
            hist[e["roundsToCommit"]] = hist.get(e["roundsToCommit"], 0) + 1
            for x in e["rounds"]:
                sync_rounds += x["leaderHonest"] and len(x["inRound"]) == 3 and x["aligned"]
                byzled += (x["leader"] == "b1")
        coverage = {"states": rd.distinct, "transitions": rd.generated, "exhaustive": True,
                    "constants": {"Liveness": "3 honest + 1 Byzantine of equal power, 2 values, every lock / certificate configuration over %d earlier rounds, every Byzantine contribution" % (2 if tier == "quick" else 3)},
                    "guards_confirmed_necessary": GUARDS + ["G_CountDelay"], "timing_states": rt.distinct, "traces_validated_against_impl": 1, "trace_lines": len(recs), "trace_lines_accepted": consumed,
                    "runs_by_prefix": {k: sum(1 for e in recs if e["prefix"] == k) for k in sorted({e["prefix"] for e in recs})},
                    "runs_by_byzantine_plan": {k: sum(1 for e in recs if e["byz"] == k) for k in sorted({e["byz"] for e in recs})},
                    "rounds_to_commit_histogram": {str(k): hist[k] for k in sorted(hist)}, "synchronous_honest_rounds_checked": sync_rounds, "rounds_led_by_byzantine": byzled,
                    "runs_without_commit": sum(1 for e in recs if not e["committed"]), "violation_classes": {k: len(x) for k, x in classes.items()},
                    "known_findings_reproduced": [k for k, _ in v.known], "samples": [{k: e[k] for k in e if k != "notes"} for e in recs[:2]]}
        coverage.update(el)
        vlib.write_evidence(PID, tier, "model_checking", coverage, time.time() - t0, len(v.violations),
                            ["bounded liveness as a per-round obligation (a synchronous honest-led round commits); the number of rounds until such a round exists depends on sortition and on the timeout growth and is reported, not bounded",
                             "4 validators of equal power, default timeouts, delays up to 420 ms, start skew up to one round; the controller (proposal production / validation) is scripted",
                             "leader election: the choice among received candidates and the stake-weighted fallback are recomputed by TLC for the real code's answers; the sortition threshold itself (who may become a candidate) is numeric and out of the model",
                             "TLC checks the round as one macro step from every prefix outcome; it does not model the clock"])
        print("C15 %s: design %d states; %d real runs on a virtual clock, %d synchronous honest-led rounds checked, rounds-to-commit %s; classes %s"
              % (tier, rd.distinct, len(recs), sync_rounds, {k: hist[k] for k in sorted(hist)}, {k: len(x) for k, x in classes.items()}))
        return v.exit_code()
    finally:
        shutil.rmtree(work, ignore_errors=True)
