"""C16 Merkle proofs: complete for true statements, unforgeable for false ones -- Smt.tla (DESIGN.md section 4, C16)."""
import json, os, shutil, sys, time
sys.path.insert(0, os.path.dirname(os.path.abspath(__file__)))
import vlib
import smt_common as sc

PID = "C16"


def main(tier):
    t0 = time.time()
    sd = vlib.seed()
    v = vlib.Verdict(PID)
    work = vlib.scratch("c16")
    try:
        smtx, _ = vlib.build_harness("smtx")
        # 1. design: the sound verifier of the spec is complete and sound on every K=3 state and the whole adversarial family
        r = sc.design(work, 3, ["Complete", "Sound"])
        if r.violated or not r.finished:
            raise vlib.Infra("Smt.tla design check failed: %s %s" % (r.violated, r.error))
        # anti-vacuity: without the guard the spec's verifier must be unsound (that is the attack the real code is tested with)
        rw = sc.design(work, 3, ["Sound"], guard=False, name="weak")
        if rw.violated != "Sound":
            raise vlib.Infra("vacuous: Smt.tla without G_ProofEndsAtProven does not violate Sound")
        # 2. the real verifier: all 243 K=3 states in the thorough tier, a seeded sample in the quick tier; K=4 sample
        plans = [(3, 40), (4, 6)] if tier == "quick" else [(3, 243), (4, 60)]  # K=5 needs tens of GB for the adversarial family of one state
        total_lines, ok_lines = 0, 0
        classes = {}
        samples = []
        for K, n in plans:
            tr = sc.smtx(smtx, ["proof", K, sd, n], os.path.join(work, "proof%d.ndjson" % K))
            found, consumed, total = sc.report(work, "proof%d" % K, tr, K, False)
            total_lines += total
            ok_lines += consumed
            recs = [json.loads(x) for x in open(tr)]
            if len(samples) < 2:
                samples.append({k: recs[0][k] for k in ("K", "state", "key", "val", "member", "origin", "accepted")})
            for pred in ("sound", "complete", "nopanic"):
                for ln in found.get(pred, []):
                    rec = recs[ln - 1]
                    origin = rec["origin"].split("-")[0]
                    key = {"sound": "unsound", "complete": "incomplete", "nopanic": "panic"}[pred] + ":" + origin
                    classes.setdefault(key, []).append(rec)
        # 3. Store level: NewReadOnly(v).GetProof + VerifyProof against the committed root
        ts = sc.smtx(smtx, ["store", sd, 10 if tier == "quick" else 100], os.path.join(work, "store.ndjson"))
        found, consumed, total = sc.report(work, "store", ts, 3, False)
        total_lines += total
        ok_lines += consumed
        srecs = [json.loads(x) for x in open(ts)]
        tried = sum(x["proofsTried"] for x in srecs)
        for ln in found.get("complete", []):
            classes.setdefault("incomplete:readonly-store", []).append(srecs[ln - 1])
        for ln in found.get("sound", []):
            classes.setdefault("unsound:readonly-store", []).append(srecs[ln - 1])
        what = {"unsound": "VerifyProof accepted a false statement", "incomplete": "an honest proof of a true statement was rejected",
                "panic": "VerifyProof panicked"}
        for key, recs in sorted(classes.items()):
            rec = recs[0]
            v.violation(key, "%s (%s; %d occurrence(s)); first: %s" % (what[key.split(":")[0]], key, len(recs), json.dumps(rec)[:400]), {"line": rec})
        coverage = {"states": r.distinct, "transitions": r.generated, "exhaustive": True,
                    "constants": {"K": 3, "user_keys": 5, "values": 2, "adversarial_family": "honest proofs for every key offered for every key/claim, truncations, side flips, value substitutions"},
                    "weakened_spec_unsound": True,
                    "traces_validated_against_impl": len(plans) + 1, "trace_lines": total_lines, "trace_lines_accepted": ok_lines,
                    "real_verifications": total_lines - len(srecs), "store_readonly_proofs": tried,
                    "violation_classes": {k: len(x) for k, x in classes.items()},
                    "known_findings_reproduced": [k for k, _ in v.known], "samples": samples}
        vlib.write_evidence(PID, tier, "model_checking", coverage, time.time() - t0, len(v.violations),
                            ["SHA-256 collision resistance", "adversarial proofs are drawn from the stated mutation family, not all byte strings"])
        print("C16 %s: design %d states; %d real verifications validated by TLC; store read-only proofs tried %d; classes: %s"
              % (tier, r.distinct, total_lines - len(srecs), tried, {k: len(x) for k, x in classes.items()}))
        return v.exit_code()
    finally:
        shutil.rmtree(work, ignore_errors=True)
