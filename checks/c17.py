"""C17 encrypted transport: integrity, authentication, no man in the middle -- Transport.tla / Handshake.tla / TransportTrace.tla"""
import json, os, re, shutil, sys, time
sys.path.insert(0, os.path.dirname(os.path.abspath(__file__)))
import vlib

PID = "C17"
TGUARDS = ["G_NonceCounter", "G_Tag", "G_DeadAfterError"]
HGUARDS = ["G_VerifySig", "G_OwnChallenge", "G_RejectLowOrder", "G_CheckMeta", "G_RejectSelf"]


def transport(work, name, off=None, big=False):
    c = {"F": "2", "MaxBytes": "6" if big else "5", "MaxFaults": "2", "BufSizes": "{1, 2, 3}"}
    for g in TGUARDS:
        c[g] = "FALSE" if g == off else "TRUE"
    cfg = vlib.cfg_text(constants=c, view="view", invariants=["PrefixOfSent", "NothingAfterError"])
    return vlib.tlc(os.path.join(work, name), "Transport", cfg, workers=8, timeout=900)


def handshake(work, name, off=None, inv=("NoImpersonation", "NoReflection", "SameConfiguration")):
    c = {g: ("FALSE" if g == off else "TRUE") for g in HGUARDS}
    return vlib.tlc(os.path.join(work, name), "Handshake", vlib.cfg_text(constants=c, invariants=list(inv)), workers=8, timeout=900)


def main(tier):
    t0 = time.time()
    sd = vlib.seed()
    v = vlib.Verdict(PID)
    work = vlib.scratch("c17")
    try:
        binp, _ = vlib.build_harness("p2px")
        # 1. design: record layer and handshake, exhaustively, plus one run per guard switched off (anti-vacuity)
        rt = transport(work, "t", big=(tier != "quick"))
        rh = handshake(work, "h")
        for r in (rt, rh):
            if r.violated or not r.finished:
                raise vlib.Infra("design model fails: %s %s" % (r.violated, r.error))
        reach = handshake(work, "hreach", inv=("HonestCompletes",))
        if not reach.violated:
            raise vlib.Infra("Handshake.tla: an honest pair never completes (vacuous model)")
        attacks = {}
        for g in TGUARDS:
            r = transport(work, "t-" + g, off=g)
            if not r.violated:
                raise vlib.Infra("Transport.tla without %s shows no violation: the invariants do not depend on it" % g)
            attacks[g] = r.violated
        for g in HGUARDS:
            r = handshake(work, "h-" + g, off=g)
            if not r.violated:
                raise vlib.Infra("Handshake.tla without %s shows no violation" % g)
            attacks[g] = r.violated
        # 2. conformance: real endpoints, adversarial wire, every read result predicted by the model
        cases, rounds = (120, 3) if tier == "quick" else (1500, 12)
        d = os.path.join(work, "tv")
        os.makedirs(d)
        tr = os.path.join(d, "trace.ndjson")
        rec = os.path.join(work, "rec.ndjson")
        p = vlib.sh([binp, "record", str(sd), str(cases), rec], timeout=3000, check=False)
        if p.returncode != 0:
            raise vlib.Infra("p2px record failed: " + p.stdout[-1000:])
        with open(tr, "w") as out:
            out.write(open(rec).read())
            for k in range(rounds):
                hs = os.path.join(work, "hs%d.ndjson" % k)
                p = vlib.sh([binp, "handshake", str(sd * 3 + k), hs], timeout=600, check=False)
                if p.returncode != 0:
                    raise vlib.Infra("p2px handshake failed: " + p.stdout[-1000:])
                out.write(open(hs).read())
        recs = [json.loads(x) for x in open(tr)]
        c = {"F": "1024", "MaxBytes": "100000000", "MaxFaults": "1", "BufSizes": "{1}", "G_NonceCounter": "TRUE", "G_Tag": "TRUE", "G_DeadAfterError": "TRUE"}
        r = vlib.tlc(d, "TransportTrace", vlib.cfg_text(spec="TraceSpec", constants=c, invariants=["Report"], postcondition="TraceAccepted"), workers=1, timeout=3000)
        consumed = max(r.distinct - 1, 0)
        if r.error or not r.finished or consumed < len(recs):
            raise vlib.Infra("TransportTrace stopped at line %d of %d: %s\n%s" % (consumed + 1, len(recs), r.error, r.out[-1200:]))
        classes = {}
        for m in re.finditer(r'<<\s*"VIOL",\s*(\d+),', r.out):
            ln = int(m.group(1))
            e = recs[ln - 1]
            if e["e"] == "hs":
                key = "handshake:" + re.sub(r"-\d+$", "", e["hs"]["scenario"])
                ctx = [e]
            else:
                s = ln - 1
                while s > 0 and recs[s]["e"] != "case":
                    s -= 1
                ctx = recs[s:ln + 1]
                fault = next((x["name"] for x in ctx if x["e"] == "fault"), "none")
                key = "record:%s:%s" % (fault, e["e"])
            classes.setdefault(key, []).append((ln, e, ctx))
        for key, items in sorted(classes.items()):
            ln, e, ctx = items[0]
            if key.startswith("handshake:"):
                h = e["hs"]
                what = ("handshake scenario %s: endpoint A accepted identity %r and B accepted %r although presented=%s signer=%s ownChallenge=%s attackerInside=%s sameConfig=%s"
                        % (h["scenario"], h["aAccepts"], h["bAccepts"], h["presented"], h["signer"], h["ownChallenge"], h["attackerInside"], h["sameConfig"]))
            else:
                what = "the real connection answered a read differently from Transport.tla (%d time(s); first at line %d: %s)" % (len(items), ln, json.dumps(e)[:200])
            v.violation(key, what, {"line": e, "case": ctx})
        nhs = sum(1 for x in recs if x["e"] == "hs")
        ncase = sum(1 for x in recs if x["e"] == "case")
        faults = {}
        for x in recs:
            if x["e"] == "fault":
                faults[x["name"]] = faults.get(x["name"], 0) + 1
        coverage = {"states": rt.distinct + rh.distinct, "transitions": rt.generated + rh.generated, "exhaustive": True,
                    "constants": {"Transport": "frames of 2 bytes, %s bytes written, 2 wire faults, read buffers 1..3" % ("6" if tier != "quick" else "5"),
                                  "Handshake": "2 honest endpoints, attacker with own and low-order ephemeral keys"},
                    "guards_confirmed_necessary": sorted(attacks), "traces_validated_against_impl": 1, "trace_lines": len(recs), "trace_lines_accepted": consumed,
                    "record_cases": ncase, "faults_injected": faults, "handshake_scenarios": nhs,
                    "violation_classes": {k: len(x) for k, x in classes.items()}, "known_findings_reproduced": [k for k, _ in v.known],
                    "samples": [x for x in recs if x["e"] == "hs"][:3]}
        vlib.write_evidence(PID, tier, "model_checking", coverage, time.time() - t0, len(v.violations),
                            ["one wire fault per connection in the real runs (two in the model)", "bit flips at one position per frame, not every bit",
                             "attacker transcripts are the scripted families of Handshake.tla, not arbitrary byte strings"])
        print("C17 %s: design %d+%d states; %d record cases / %d handshake scenarios of the real transport validated (%d lines); classes %s"
              % (tier, rt.distinct, rh.distinct, ncase, nhs, consumed, {k: len(x) for k, x in classes.items()}))
        return v.exit_code()
    finally:
        shutil.rmtree(work, ignore_errors=True)
