"""C18 multiplexed peer messaging: whole messages on the right topic -- Mux.tla / MuxTrace.tla"""
import json, os, re, shutil, sys, time
sys.path.insert(0, os.path.dirname(os.path.abspath(__file__)))
import vlib

PID = "C18"
GUARDS = ["G_StreamMutex", "G_PerTopicAssembly", "G_EofOnLast", "G_ResetOnDrop", "G_CapBeforeAppend"]
INV = ["Whole", "AtMostOnce", "TopicOrder", "NoOversize"]


def design(work, name, off=None, msgs=3, limit=2):
    c = {"Topics": '{"t1", "t2"}', "Senders": '{"s1", "s2"}', "MaxMsgs": str(msgs), "MaxChunks": "3", "QueueCap": "2", "InboxCap": "1",
         "Limit": "3" if off == "G_EofOnLast" else str(limit)}
    for g in GUARDS:
        c[g] = "FALSE" if g == off else "TRUE"
    return vlib.tlc(os.path.join(work, name), "Mux", vlib.cfg_text(constants=c, view="view", invariants=INV), workers=16, timeout=2400)


def race_blocks(text):
    """data race reports of the Go race detector that involve the code under test"""
    out = {}
    for blk in re.findall(r"WARNING: DATA RACE\n(.*?)\n==================", text, re.S):
        if "canopy-network/canopy/" not in blk:
            continue
        tops = re.findall(r"^(?:Write|Read|Previous write|Previous read) at .*?\n\s+(\S+)\(", blk, re.M)
        tops = sorted(t.split("canopy/")[-1] for t in tops)
        key = "race:" + "+".join(tops)
        out.setdefault(key, blk)
    return out


def main(tier):
    t0 = time.time()
    sd = vlib.seed()
    v = vlib.Verdict(PID)
    work = vlib.scratch("c18")
    try:
        binp, _ = vlib.build_harness("muxx")
        rd = design(work, "d", msgs=3 if tier == "quick" else 4)
        if rd.violated or not rd.finished:
            raise vlib.Infra("Mux.tla fails: %s %s" % (rd.violated, rd.error))
        for g in GUARDS:
            r = design(work, "d-" + g, off=g)
            if not r.violated:
                raise vlib.Infra("Mux.tla without %s shows no violation" % g)
        # conformance
        cases = 8 if tier == "quick" else 60
        d = os.path.join(work, "tv")
        os.makedirs(d)
        tr = os.path.join(d, "trace.ndjson")
        args = [binp, "run", str(sd), str(cases), tr] + (["big"] if tier != "quick" else [])
        p = vlib.sh(args, timeout=5000, check=False)
        if p.returncode != 0:
            raise vlib.Infra("muxx failed: " + p.stdout[-1000:])
        recs = [json.loads(x) for x in open(tr)]
        c = {"Topics": "{0, 1, 2, 3, 4, 5}", "Senders": '{"s"}', "MaxMsgs": "1", "MaxChunks": "1", "QueueCap": "1", "InboxCap": "1", "Limit": "257"}
        c.update({g: "TRUE" for g in GUARDS})
        r = vlib.tlc(d, "MuxTrace", vlib.cfg_text(spec="TraceSpec", constants=c, invariants=["Report"], postcondition="TraceAccepted"), workers=1, timeout=5000)
        consumed = max(r.distinct - 1, 0)
        if r.error or not r.finished or consumed < len(recs):
            raise vlib.Infra("MuxTrace stopped at line %d of %d: %s\n%s" % (consumed + 1, len(recs), r.error, r.out[-1200:]))
        classes = {}
        for m in re.finditer(r'<<\s*"VIOL",\s*(\d+),', r.out):
            ln = int(m.group(1))
            e = recs[ln - 1]
            s = ln - 1
            while s > 0 and recs[s]["e"] != "case":
                s -= 1
            kind = recs[s]["kind"]
            if e["e"] == "deliver":
                why = "duplicate-or-misattributed" if e["ok"] else "not-a-whole-sent-message"
            elif e["e"] == "attack":
                why = "not-closed" if (e["ok"] and not e["closed"]) else "partial-or-foreign-data-delivered"
            else:
                why = "delivered-set-is-not-a-set-of-whole-sent-messages"
            key = "%s:%s" % (kind, why)
            bad = [x for x in recs[s:ln] if x["e"] == "deliver" and not x["ok"]][:5]
            classes.setdefault(key, []).append((ln, e, bad))
        for key, items in sorted(classes.items()):
            ln, e, bad = items[0]
            v.violation(key, "real MultiConn pair, case %s: %s (line %d: %s)%s" % (key.split(":")[0], key.split(":", 1)[1], ln, json.dumps(e)[:200],
                        "; e.g. delivered " + json.dumps(bad[0])[:200] if bad else ""), {"line": e, "bad_deliveries": bad})
        lost = []
        for e in recs:
            if e["e"] == "end" and e["kind"] == "concurrent" and e["count"] != e["n"]:
                lost.append(e)
        for e in lost[:3]:
            v.divergence("a healthy connection with reading applications delivered %d of %d messages (allowed by the property: 'or not at all')" % (e["count"], e["n"]))
        # the race clause: the same driver under the Go race detector
        races = {}
        rbin, _ = vlib.build_harness("muxx", race=True)
        pr = vlib.sh([rbin, "run", str(sd + 1), str(4 if tier == "quick" else 24), os.path.join(work, "race.ndjson")], timeout=5000, check=False, env=dict(vlib.GOENV, GORACE="halt_on_error=0"))
        if pr.returncode not in (0, 66):
            raise vlib.Infra("muxx under the race detector failed (%d): %s" % (pr.returncode, pr.stdout[-800:]))
        races = race_blocks(pr.stdout)
        for key, blk in sorted(races.items()):
            v.violation(key, "data race reported by the Go race detector in the code under test: " + key, {"report": blk})
        nd = sum(1 for x in recs if x["e"] == "deliver")
        coverage = {"states": rd.distinct, "transitions": rd.generated, "exhaustive": True,
                    "constants": {"Mux": "2 topics, 2 senders, %d messages of 1..3 packets, queue 2, inbox 1, limit 2" % (3 if tier == "quick" else 4)},
                    "guards_confirmed_necessary": GUARDS, "traces_validated_against_impl": 1, "trace_lines": len(recs), "trace_lines_accepted": consumed,
                    "cases": sum(1 for x in recs if x["e"] == "case"), "messages_delivered": nd, "attacks": [x["kind"] for x in recs if x["e"] == "attack"],
                    "race_detector_runs": 1, "race_reports": sorted(races), "violation_classes": {k: len(x) for k, x in classes.items()},
                    "known_findings_reproduced": [k for k, _ in v.known], "samples": [x for x in recs if x["e"] in ("attack", "end")][:4]}
        vlib.write_evidence(PID, tier, "model_checking", coverage, time.time() - t0, len(v.violations),
                            ["goroutine schedules are sampled by the Go scheduler, not enumerated", "message sizes up to 3 packets (and one 257-packet message in the thorough tier); the 256 MB limit is reached only there",
                             "the race clause is decided by the Go race detector on the sampled schedules, not by the TLA+ model"])
        print("C18 %s: design %d states; %d cases, %d deliveries of real MultiConn pairs validated (%d lines); race reports %s; classes %s"
              % (tier, rd.distinct, coverage["cases"], nd, consumed, sorted(races), {k: len(x) for k, x in classes.items()}))
        return v.exit_code()
    finally:
        shutil.rmtree(work, ignore_errors=True)
