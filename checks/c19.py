"""C19 unambiguous signed digests and store keys; untrusted bytes never crash a node -- Keys.tla / Digest.tla / KeysTrace.tla"""
import json, os, re, shutil, sys, time
sys.path.insert(0, os.path.dirname(os.path.abspath(__file__)))
import vlib

PID = "C19"


def keys_design(work, name, off=None, segs=2):
    c = {"Bytes": "{0, 1, 2}", "MaxSegLen": "2", "MaxSegs": str(segs), "Wrap": "3",
         "G_LenPrefix": "FALSE" if off == "G_LenPrefix" else "TRUE", "G_OneByteFits": "FALSE" if off == "G_OneByteFits" else "TRUE"}
    return vlib.tlc(os.path.join(work, name), "Keys", vlib.cfg_text(constants=c, invariants=["Injective", "PrefixFree", "RoundTrip"]), workers=16, timeout=2400)


def digest_design(work, name, off=None):
    c = {"Stripped": '{"sig"}'}
    for g in ("G_Tags", "G_Lengths", "G_AllSigned"):
        c[g] = "FALSE" if g == off else "TRUE"
    return vlib.tlc(os.path.join(work, name), "Digest", vlib.cfg_text(constants=c, invariants=["Unambiguous"]), workers=16, timeout=2400)


def main(tier):
    t0 = time.time()
    sd = vlib.seed()
    v = vlib.Verdict(PID)
    work = vlib.scratch("c19")
    try:
        sx, _ = vlib.build_harness("signx")
        nx, _ = vlib.build_harness("nodex")
        rk = keys_design(work, "k")
        rd = digest_design(work, "d")
        for r in (rk, rd):
            if r.violated or not r.finished:
                raise vlib.Infra("design model fails: %s %s" % (r.violated, r.error))
        guards = []
        for g in ("G_LenPrefix", "G_OneByteFits"):
            if not keys_design(work, "k-" + g, off=g).violated:
                raise vlib.Infra("Keys.tla without %s shows no violation" % g)
            guards.append(g)
        for g in ("G_Tags", "G_Lengths", "G_AllSigned"):
            if not digest_design(work, "d-" + g, off=g).violated:
                raise vlib.Infra("Digest.tla without %s shows no violation" % g)
            guards.append(g)
        # facts from the real code
        d = os.path.join(work, "tv")
        os.makedirs(d)
        parts = []
        nkeys, ndec = (500, 400) if tier == "quick" else (2500, 6000)
        for args in (["fields", str(sd)], ["keys", str(sd), str(nkeys)], ["decode", str(sd), str(ndec)]):
            f = os.path.join(work, args[0] + ".ndjson")
            p = vlib.sh([sx] + args + [f], timeout=3000, check=False)
            if p.returncode != 0:
                raise vlib.Infra("signx %s failed: %s" % (args[0], p.stdout[-800:]))
            parts.append(f)
        f = os.path.join(work, "wire.ndjson")
        p = vlib.sh([nx, "wire", str(sd), f], timeout=3000, check=False)
        if p.returncode != 0:
            raise vlib.Infra("nodex wire failed: " + p.stdout[-800:])
        parts.append(f)
        # peer messages into the real listeners of a running node (a child process per crash)
        f = os.path.join(work, "handlers.ndjson")
        p = vlib.sh([nx, "handlers", str(sd), f], timeout=3000, check=False)
        if p.returncode != 0:
            raise vlib.Infra("nodex handlers failed: " + p.stdout[-800:])
        hl = [json.loads(x) for x in open(f)]
        if not hl or hl[-1].get("variant") != "summary" or hl[-1]["index"] < 300:
            raise vlib.Infra("nodex handlers: no summary line / too few cases: %s" % (hl[-1:] or ""))
        with open(f, "w") as out:
            for x in hl:
                x["kind"], x["slow"] = x.get("topic", ""), x.get("hang", False)
                out.write(json.dumps(x) + "\n")
        parts.append(f)
        keep = ("e", "kind", "path", "variant", "equal", "keyEq", "keyPrefix", "segEq", "segPrefix", "inRange", "belongs", "accepted", "panic", "slow", "critical", "unknown", "position", "readBack", "nextBlock")
        recs, full = [], []
        with open(os.path.join(d, "trace.ndjson"), "w") as out:
            for f in parts:
                for line in open(f):
                    r = json.loads(line)
                    full.append(r)
                    u = {k: r.get(k, [] if k == "path" else (0 if k == "position" else ("" if k in ("e", "kind", "variant") else False))) for k in keep}
                    out.write(json.dumps(u) + "\n")
                    recs.append(u)
        r = vlib.tlc(d, "KeysTrace", vlib.cfg_text(invariants=["Report"], postcondition="TraceAccepted"), workers=1, timeout=3000)
        consumed = max(r.distinct - 1, 0)
        if r.error or not r.finished or consumed < len(recs):
            raise vlib.Infra("KeysTrace stopped at line %d of %d: %s\n%s" % (consumed + 1, len(recs), r.error, r.out[-1200:]))
        classes = {}
        for m in re.finditer(r'<<\s*"VIOL",\s*(\d+)\s*>>', r.out):
            ln = int(m.group(1))
            e = full[ln - 1]
            if e["e"] == "field":
                key = "unsigned:%s:%s" % (e["kind"], ".".join(x for x in e["path"] if not x.isdigit()))
                what = "changing field %s of a %s message leaves the digest input unchanged" % (".".join(e["path"]), e["kind"])
            elif e["e"] == "pair":
                key = "keys:collision:%s" % e["kind"]
                what = "two composite keys built from different components are equal or one lies in the other's prefix range: %s" % json.dumps(e)[:200]
            elif e["e"] == "range":
                key = "keys:range:%s" % e["kind"]
                what = "a key lies in a prefix range it was not built for (or misses its own): %s" % json.dumps(e)[:200]
            elif e["e"] == "decode":
                why = "panic" if e["panic"] else "hang" if e["slow"] else "unknown-field-accepted" if (e.get("unknown") and e["accepted"]) else "sample-refused"
                key = "decode:%s:%s" % (e["kind"], why)
                what = "decoder %s: %s (%s) %s" % (e["kind"], why, e["variant"], e.get("msg", "")[:200])
            elif e["e"] == "handler":
                site = next((x for x in e.get("msg", "").split(" <- ") if "." in x and not x.startswith(("panic", "[signal"))), "?")
                key = "handler:%s:%s" % ("hang" if e.get("hang") else "panic", site)
                what = ("a %s message derived from a genuine '%s' (%s) %s the node's real %s listener: %s; bytes %s"
                        % (e["topic"], e["base"], e["variant"], "hangs" if e.get("hang") else "kills", e["topic"], e.get("msg", "")[:300], e.get("hex", "")[:200]))
            else:
                key = "wire:unknown-field-in:%s" % e.get("where", "?")
                what = ("a block message with an unknown field in %s is accepted and committed, but what the node stored cannot be read back (readBack=%s nextBlock=%s): %s"
                        % (e.get("where"), e["readBack"], e["nextBlock"], e.get("err", "").replace("\n", " ")[:200]))
            classes.setdefault(key, []).append((ln, e, what))
        for key, items in sorted(classes.items()):
            ln, e, what = items[0]
            v.violation(key, what + (" (%d lines)" % len(items) if len(items) > 1 else ""), {"line": e})
        count = {}
        for e in recs:
            count[e["e"]] = count.get(e["e"], 0) + 1
        kinds = sorted({e["kind"] for e in recs if e["e"] == "field"})
        coverage = {"states": rk.distinct + rd.distinct, "transitions": rk.generated + rd.generated, "exhaustive": True,
                    "constants": {"Keys": "every pair of tuples of up to 2 segments of up to 2 bytes over {0,1,2}", "Digest": "every pair of 5-field messages over 3 values per field"},
                    "guards_confirmed_necessary": guards, "traces_validated_against_impl": 1, "trace_lines": len(recs), "trace_lines_accepted": consumed,
                    "lines_by_kind": count, "digest_kinds": kinds, "violation_classes": {k: len(x) for k, x in classes.items()},
                    "known_findings_reproduced": [k for k, _ in v.known], "samples": [x for x in full if x["e"] == "wire"][:3],
                    "handler_cases_injected": hl[-1]["index"], "handler_cases_fatal": len(hl) - 1}
        vlib.write_evidence(PID, tier, "model_checking", coverage, time.time() - t0, len(v.violations),
                            ["digest injectivity is checked field by field (every field of every kind, found by reflection), not for arbitrary pairs of messages and not across kinds",
                             "key components up to 255 bytes as the property states; a component of 256 bytes or more wraps the length byte (Keys.tla G_OneByteFits)",
                             "the decoder / handler clause (no panic / hang) is outside what a TLA+ model can decide: it is exercised by seeded mutation of the decoders' input and by structurally incomplete and adversarially framed peer messages injected into the real inbox listeners of a running node"])
        print("C19 %s: design %d+%d pairs; %s lines of facts from the real code validated; classes %s" % (tier, rk.distinct, rd.distinct, count, {k: len(x) for k, x in classes.items()}))
        return v.exit_code()
    finally:
        shutil.rmtree(work, ignore_errors=True)
