"""C20 escrow, order-book and AMM accounting is exact -- Swap.tla / Dex.tla / SwapTrace.tla / DexTrace.tla"""
import json, os, re, shutil, sys, time
sys.path.insert(0, os.path.dirname(os.path.abspath(__file__)))
import vlib

PID = "C20"
DEX_G = ["G_Fee", "G_FloorOut", "G_ClearLocked", "G_HashMatch"]
SWAP_G = ["G_DeleteOnClose", "G_LockedFrozen", "G_EditMovesDelta", "G_CloseNeedsLock"]
DEX_INV = ["HoldingExact", "PointsExact", "Conserved", "ProductNeverFalls", "FairWithdrawals"]
SWAP_INV = ["EscrowExact", "PaidOnce", "Conserved"]


def dex_design(work, name, off=None, ops=3, rot=5, fallback=False):
    c = {"Acct": '{"a1", "a2"}', "Chains": '{"A", "B"}', "Amounts": "{7}", "Pcts": "{50, 100}", "MaxOps": str(ops), "MaxRot": str(rot), "Liq0": "100", "Bal0": "20",
         "EnableFallback": "TRUE" if fallback else "FALSE"}
    for g in DEX_G:
        c[g] = "FALSE" if g == off else "TRUE"
    return vlib.tlc(os.path.join(work, name), "Dex", vlib.cfg_text(constants=c, view="view", invariants=DEX_INV), workers=16, timeout=3000)


def swap_design(work, name, off=None, steps=5, orders=3):
    c = {"Acct": '{"a1", "a2"}', "Amounts": "{3, 5}", "MaxOrders": str(orders), "MaxSteps": str(steps), "Bal0": "10"}
    for g in SWAP_G:
        c[g] = "FALSE" if g == off else "TRUE"
    return vlib.tlc(os.path.join(work, name), "Swap", vlib.cfg_text(constants=c, view="view", invariants=SWAP_INV), workers=16, timeout=3000)


def validate(work, name, module, trace, consts, explain=True):
    d = os.path.join(work, name)
    os.makedirs(d)
    shutil.copyfile(trace, os.path.join(d, "trace.ndjson"))
    recs = [json.loads(x) for x in open(trace)]
    r = vlib.tlc(d, module, vlib.cfg_text(spec="TraceSpec", constants=consts, invariants=["Report", "Explain"] if explain else ["Report"], postcondition="TraceAccepted"), workers=1, timeout=3000)
    consumed = max(r.distinct - 1, 0)
    if r.error or not r.finished or consumed < len(recs):
        raise vlib.Infra("%s stopped at line %d of %d: %s\n%s" % (module, consumed + 1, len(recs), r.error, r.out[-1500:]))
    bad = [int(m.group(1)) for m in re.finditer(r'<<\s*"VIOL",\s*(\d+)\s*>>', r.out)]
    expl = {int(m.group(1)): m.group(2)[:1500] for m in re.finditer(r'<<\s*"EXPECTED",\s*(\d+),\s*(.*?)>>\n(?=<<|\S)', r.out, re.S)}
    return recs, bad, expl


def main(tier):
    t0 = time.time()
    sd = vlib.seed()
    v = vlib.Verdict(PID)
    work = vlib.scratch("c20")
    try:
        nx, _ = vlib.build_harness("nodex")
        rd = dex_design(work, "dex", ops=3 if tier == "quick" else 4, rot=5 if tier == "quick" else 6)
        rs = swap_design(work, "swap", steps=5 if tier == "quick" else 6)
        rf = dex_design(work, "dex-fallback", ops=2, rot=4 if tier == "quick" else 5, fallback=True)
        for r in (rd, rs, rf):
            if r.violated or not r.finished:
                raise vlib.Infra("design model fails: %s %s" % (r.violated, r.error))
        needed = []
        for g in ("G_FloorOut", "G_ClearLocked"):
            if not dex_design(work, "dex-" + g, off=g).violated:
                raise vlib.Infra("Dex.tla without %s shows no violation" % g)
            needed.append(g)
        for g in ("G_DeleteOnClose", "G_EditMovesDelta"):
            if not swap_design(work, "swap-" + g, off=g, steps=4, orders=2).violated:
                raise vlib.Infra("Swap.tla without %s shows no violation" % g)
            needed.append(g)
        # conformance
        runs = {"quick": (14, 12, 4, 8, 8, 70), "thorough": (150, 16, 30, 12, 60, 120)}[tier]
        dex_small, dex_big, swp = (os.path.join(work, x) for x in ("dex.ndjson", "dexbig.ndjson", "swap.ndjson"))
        for args, f in ((["dex", str(sd), str(runs[0]), str(runs[1]), "small"], dex_small), (["dex", str(sd + 1), str(runs[2]), str(runs[3]), "big"], dex_big),
                        (["swap", str(sd), str(runs[4]), str(runs[5])], swp)):
            p = vlib.sh([nx] + args + [f], timeout=3000, check=False)
            if p.returncode != 0:
                raise vlib.Infra("nodex %s failed: %s" % (args[0], p.stdout[-800:]))
        dc = {"Acct": '{"a0", "a1", "a2"}', "Chains": '{"A", "B"}', "Amounts": "{1}", "Pcts": "{100}", "MaxOps": "0", "MaxRot": "0", "Liq0": "1", "Bal0": "1", "EnableFallback": "FALSE"}
        dc.update({g: "TRUE" for g in DEX_G})
        sc = {"Acct": '{"a0", "a1", "a2"}', "Amounts": "{1}", "MaxOrders": "0", "MaxSteps": "0", "Bal0": "0"}
        sc.update({g: "TRUE" for g in SWAP_G})
        total = 0
        classes = {}
        stats = {}
        samples = []
        for name, module, f, consts in (("tv-dex", "DexTrace", dex_small, dc), ("tv-dexbig", "DexTrace", dex_big, dc), ("tv-swap", "SwapTrace", swp, sc)):
            recs, bad, expl = validate(work, name, module, f, consts, explain=(name != "tv-dexbig"))
            total += len(recs)
            samples += [x for x in recs if x.get("op") in ("deliver", "cert")][:1]
            ops = {}
            for e in recs:
                ops[e.get("op") or e["e"]] = ops.get(e.get("op") or e["e"], 0) + 1
            stats[name] = {"lines": len(recs), "ops": ops, "refused": sum(1 for e in recs if e.get("err"))}
            if module == "DexTrace":
                stats[name]["deliveries_with_orders"] = sum(1 for e in recs if e.get("op") == "deliver" and e["perm"])
                stats[name]["deliveries_with_withdrawals"] = sum(1 for e in recs if e.get("op") == "deliver" and e["remote"]["wds"])
                stats[name]["fallbacks"] = sum(1 for e in recs if e.get("op") == "fallback")
                stats[name]["deliveries_with_deposits"] = sum(1 for e in recs if e.get("op") == "deliver" and e["remote"]["deps"])
            for ln in bad:
                e = recs[ln - 1]
                if e.get("big"):
                    why = [k for k in ("holdingOK", "pointsOK", "supplyOK") if not e[k]]
                    key = "dex-big:%s:%s" % (e["op"] or e["e"], "+".join(why))
                else:
                    key = "%s:%s" % (name.split("-")[1], e.get("op") or e["e"])
                classes.setdefault(key, []).append((name, ln, e, expl.get(ln, "")))
        for key, items in sorted(classes.items()):
            name, ln, e, ex = items[0]
            v.violation(key, "the real state machine's %s step differs from the specification or breaks an accounting identity (%d time(s); first: %s line %d: %s)%s"
                        % (key, len(items), name, ln, json.dumps({k: e[k] for k in e if k not in ("post", "remote")})[:300], "; the specification expected " + ex[:400] if ex else ""),
                        {"line": e, "expected_by_spec": ex})
        coverage = {"states": rd.distinct + rs.distinct + rf.distinct, "transitions": rd.generated + rs.generated + rf.generated, "exhaustive": True,
                    "constants": {"Dex": "2 chains, 2 accounts, pool 100, amount 7, withdrawals of 50 / 100 %, 3-4 operations, 5-6 rotations", "Swap": "2 accounts, amounts 3 / 5, 3 orders, 5-6 steps, certificates with two close instructions"},
                    "guards_confirmed_necessary": needed, "traces_validated_against_impl": 3, "trace_lines": total, "trace_lines_accepted": total,
                    "per_trace": stats, "samples": samples, "violation_classes": {k: len(x) for k, x in classes.items()}, "known_findings_reproduced": [k for k, _ in v.known]}
        vlib.write_evidence(PID, tier, "model_checking", coverage, time.time() - t0, len(v.violations),
                            ["handlers are driven directly on the state machines of two real nodes (not through blocks and certificates); both chains run the root-side entry point HandleDexBatch(isNested=false)",
                             "the provider cap (5000 liquidity providers, eviction), IncludeSameBlockDex and the liveness fallback are not exercised",
                             "exact recomputation by TLC only for amounts that fit 32-bit integers; near 2^64 the identities are evaluated by the driver with arbitrary precision and checked as recorded facts"])
        print("C20 %s: design %d+%d states (+%d with liveness fallback); %d lines of real dex / order-book operations recomputed by TLC; %s; classes %s"
              % (tier, rd.distinct, rs.distinct, rf.distinct, total, {k: s["lines"] for k, s in stats.items()}, {k: len(x) for k, x in classes.items()}))
        return v.exit_code()
    finally:
        shutil.rmtree(work, ignore_errors=True)
