"""Shared body of the Chain.tla-based checks: C03 determinism, C07 atomicity, C11 portability."""
import json, os, re, shutil, sys, time
sys.path.insert(0, os.path.dirname(os.path.abspath(__file__)))
import vlib
import ledger_common as lc

GUARDS = ["G_ResetBeforeExec", "G_CacheNotConsulted", "G_ArchiveCanonical"]


def design(work, off=None, name="design", invariants=("HeaderAgreement", "Portable")):
    c = {"Nodes": '{"A", "B", "C"}', "Blocks": '{"x", "y"}', "MaxHeight": "3", "None": "None"}
    for g in GUARDS:
        c[g] = "FALSE" if g == off else "TRUE"
    cfg = vlib.cfg_text(constants=c, view="view", invariants=list(invariants))
    return vlib.tlc(os.path.join(work, name), "Chain", cfg, workers=16, timeout=1200, extra=["-coverage", "1"] if off is None else [])


def run(pid, tier, own, what, guards_needed, extra_stage=None):
    t0 = time.time()
    sd = vlib.seed()
    v = vlib.Verdict(pid)
    work = vlib.scratch(pid.lower())
    try:
        binp, _ = vlib.build_harness("nodex")
        r = design(work)
        if r.violated or not r.finished:
            raise vlib.Infra("Chain.tla design check failed: %s %s" % (r.violated, r.error))
        for g in guards_needed:
            rw = design(work, g, "weak-" + g)
            if not rw.violated:
                raise vlib.Infra("vacuous: Chain.tla without %s violates nothing" % g)
        runs, blocks = (4, 10) if tier == "quick" else (40, 14)
        tr = lc.nodex(binp, ["multi", sd, runs, blocks], os.path.join(work, "multi.ndjson"))
        d = os.path.join(work, "tv")
        os.makedirs(d)
        shutil.copyfile(tr, os.path.join(d, "trace.ndjson"))
        rt = vlib.tlc(d, "ChainTrace", vlib.cfg_text(invariants=["Report"], postcondition="TraceAccepted"), workers=1, timeout=2400)
        recs = [json.loads(x) for x in open(tr)]
        consumed = max(rt.distinct - 1, 0)
        if rt.error or not rt.finished or consumed < len(recs):
            raise vlib.Infra("ChainTrace stopped at line %d of %d: %s\n%s" % (consumed + 1, len(recs), rt.error, rt.out[-1000:]))
        classes = {}
        for m in re.finditer(r'<<\s*"VIOL",\s*(\d+),\s*\[([^\]]*)\]\s*>>', rt.out.replace("\n", " ")):
            rec = recs[int(m.group(1)) - 1]
            for fld, val in re.findall(r"(\w+) \|-> (TRUE|FALSE)", m.group(2)):
                if val == "FALSE" and fld in own:
                    key = fld + ":" + (rec["mutation"] if rec["kind"] == "reject" else rec["kind"])
                    classes.setdefault(key, []).append(rec)
        def brief(rec):
            return {"kind": rec["kind"], "run": rec["run"], "height": rec["height"], "mutation": rec["mutation"], "rejected": rec["rejected"],
                    "versionSame": rec["versionSame"], "digestSame": rec["digestSame"],
                    "hdrs": [(h["node"], h["path"], h["hash"][:8], h["stateRoot"][:8], h["txRoot"][:8], h["digest"][:8], h["err"][:120]) for h in rec["hdrs"]]}
        for key, items in sorted(classes.items()):
            v.violation(key, "%s (%d recorded line(s); first: %s)" % (what[key.split(":")[0]], len(items), json.dumps(brief(items[0]))[:700]), {"line": items[0]})
        heights = [x for x in recs if x["kind"] == "height"]
        if (not heights or not any(x["kind"] == "sync" for x in recs)) and not v.violations and not v.known:
            raise vlib.Infra("multi-node driver produced no heights / no sync: dead driver")
        extra = extra_stage(v, work, tier, sd) if extra_stage else {}
        cov = r.coverage()
        coverage = {"states": r.distinct, "transitions": r.generated, "depth": r.depth, "exhaustive": True,
                    "constants": {"nodes": 3, "blocks": 2, "heights": 3, "paths": 6},
                    "traces_validated_against_impl": runs, "trace_lines": len(recs), "trace_lines_accepted": consumed,
                    "heights_executed": len(heights), "paths_per_height": 8, "sync_heights": sum(1 for x in recs if x["kind"] == "sync"),
                    "rejections": sum(1 for x in recs if x["kind"] == "reject"),
                    "transactions_submitted": sum(x["txs"] for x in heights), "transactions_included": sum(x["included"] for x in heights),
                    "coverage_by_action": {k: list(x) for k, x in cov.items()},
                    "violation_classes": {k: len(x) for k, x in classes.items()}, "known_findings_reproduced": [k for k, _ in v.known],
                    "samples": [brief(heights[0])]}
        coverage.update(extra)
        vlib.write_evidence(pid, tier, "model_checking", coverage, time.time() - t0, len(v.violations),
                            ["all nodes run in one OS process; the process-wide block cache is purged (verif hook) where a real deployment has separate processes",
                             "goroutine schedules of the parallel tree commit and the indexer are sampled (one run per seed), not enumerated",
                             "Chain.tla is a design-level model; the execution schedule over paths is fixed in the driver (every path at every height), not generated from the spec"])
        print("%s %s: design %d states; %d heights x 8 paths, %d synced heights, %d rejections validated by TLC; classes %s%s"
              % (pid, tier, r.distinct, len(heights), coverage["sync_heights"], coverage["rejections"], {k: len(x) for k, x in classes.items()},
                 ("; mempool: %d real operations recomputed by TLC, classes %s" % (extra["mempool_operations_validated"], extra["mempool_violation_classes"])) if "mempool_operations_validated" in extra
                 else ("; slash blocks: %d real block states recomputed by TLC, classes %s" % (extra["slash_block_states_validated"], extra["slash_violation_classes"])) if "slash_block_states_validated" in extra else ""))
        return v.exit_code()
    finally:
        shutil.rmtree(work, ignore_errors=True)
