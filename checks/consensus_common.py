"""Shared pieces of the Consensus.tla-based checks (C01, C15): cfg generation, script conversion, replay."""
import json, shutil, os, sys
sys.path.insert(0, os.path.join(os.path.dirname(os.path.abspath(__file__)), "..", "lib"))
import vlib

GUARDS = ["G_SafeNodeLex", "G_SafeNodeStrict", "G_SafeNodeJustify", "G_SafeNodeNeedsHQ", "G_LockOnPrecommit", "G_Quorum",
          "G_QCViewBound", "G_KeepLocks", "G_HighQCPhase", "G_CommitPhase", "G_ProposerBound", "G_VoteRootHeight", "G_AdoptLex"]

NAMES = ["n1", "n2", "n3", "b1"]


def constants(max_round=1, max_rh=1, leader="FixedLeader", off=(), track_pm=False, nodes_as_strings=False):
    c = {}
    if nodes_as_strings:
        c.update({"Honest": '{"n1", "n2", "n3"}', "Byz": '{"b1"}', "None": "None"})
    else:
        for n in NAMES:
            c[n] = n
        c.update({"Honest": "{n1, n2, n3}", "Byz": "{b1}", "None": "None"})
    c.update({"Values": '{"X", "Y"}', "MaxRound": str(max_round), "MaxRH": str(max_rh), "PowerOf": "<- MCPowerOf",
              "LeaderChoices": "<- " + leader, "Quorum0": "3", "PMNeed": "2", "TrackPM": "TRUE" if track_pm else "FALSE"})
    for g in GUARDS:
        c[g] = "FALSE" if g in off else "TRUE"
    return c


def conv_qc(q):
    if q is None or q == "None":
        return {"some": False}
    return {"some": True, "rh": q["rh"], "rnd": q["rnd"], "ph": q["ph"], "val": "" if q["val"] == "None" else q["val"], "ldr": q["ldr"]}


def conv_msg(m):
    if m is None or m == "None":
        return {"some": False}
    return {"some": True, "from": m["from"], "rnd": m["rnd"], "ph": m["ph"], "q": conv_qc(m["q"]), "val": m["val"], "hq": conv_qc(m["hq"])}


def conv_action(last):
    a = {"a": last["a"]}
    for k in ("n", "l", "fresh", "r"):
        if k in last:
            a[k] = last[k]
    if "S" in last:
        a["S"] = sorted(last["S"])
    if "m" in last:
        a["m"] = conv_msg(last["m"])
    if "q" in last:
        a["q"] = conv_qc(last["q"])
    return a


def script_from_lasts(sid, lasts):
    acts = [conv_action(l) for l in lasts if l.get("a") != "Init"]
    return {"id": sid, "names": NAMES, "byz": ["b1"], "values": ["X", "Y"], "actions": acts}


def replay(bftsim, scripts, workdir, name, env=None):
    """run scripts through the real code (in parallel shards; every script is independent); returns list of per-script line lists"""
    from concurrent.futures import ThreadPoolExecutor
    out = os.path.join(workdir, name + ".trace.ndjson")
    shards = max(1, min(8, len(scripts) // 20))
    parts = []
    for k in range(shards):
        inp = os.path.join(workdir, "%s.scripts.%d.ndjson" % (name, k))
        with open(inp, "w") as fh:
            for s in scripts[k::shards]:
                fh.write(json.dumps(s) + "\n")
        parts.append((inp, os.path.join(workdir, "%s.trace.%d.ndjson" % (name, k))))
    def one(io):
        return vlib.sh([bftsim, "replay", io[0], io[1]], timeout=6000, check=False, env=dict(vlib.GOENV, **env) if env else None)
    with ThreadPoolExecutor(max_workers=shards) as ex:
        for p in ex.map(one, parts):
            if p.returncode != 0:
                raise vlib.Infra("bftsim failed: " + p.stdout[-2000:])
    with open(out, "w") as fh:
        for _, o in parts:
            with open(o) as src:
                shutil.copyfileobj(src, fh)
    runs, cur = [], []
    with open(out) as fh:
        for line in fh:
            rec = json.loads(line)
            cur.append(rec)
            if rec.get("end"):
                runs.append(cur)
                cur = []
    return runs, out
