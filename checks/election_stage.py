"""Election.tla / ElectionTrace.tla stage (part of C15: every honest replica must name the same leader for a round)."""
import json, os, re, sys
sys.path.insert(0, os.path.dirname(os.path.abspath(__file__)))
import vlib

GUARDS = ["G_MinOfAll", "G_CommitteeOrder"]
BASE = {"Ids": "{1, 2, 3}", "Ranks": "{1, 2, 3}", "Powers": "{1, 2}"}


def design(work, name, off=None):
    c = dict(BASE)
    for g in GUARDS:
        c[g] = "FALSE" if g == off else "TRUE"
    return vlib.tlc(os.path.join(work, name), "Election", vlib.cfg_text(constants=c, invariants=["SameLeader", "LeaderIsKnown", "Proportional"]), workers=8, timeout=900)


def run(v, work, tier, sd):
    binp, _ = vlib.build_harness("bftsim")
    rd = design(work, "el")
    if rd.violated or not rd.finished:
        raise vlib.Infra("Election.tla fails: %s %s" % (rd.violated, rd.error))
    for g in GUARDS:
        if not design(work, "el-" + g, off=g).violated:
            raise vlib.Infra("Election.tla without %s shows no violation" % g)
    d = os.path.join(work, "tv-election")
    os.makedirs(d)
    tr = os.path.join(d, "trace.ndjson")
    cases = 400 if tier == "quick" else 6000
    p = vlib.sh([binp, "election", str(sd), str(cases), tr], timeout=1800, check=False)
    if p.returncode != 0:
        raise vlib.Infra("bftsim election failed: " + p.stdout[-800:])
    recs = [json.loads(x) for x in open(tr)]
    c = {"Ids": "{1}", "Ranks": "{1}", "Powers": "{1}", "G_MinOfAll": "TRUE", "G_CommitteeOrder": "TRUE"}
    r = vlib.tlc(d, "ElectionTrace", vlib.cfg_text(spec="TraceSpec", constants=c, invariants=["Report"], postcondition="TraceAccepted"), workers=1, timeout=2400)
    consumed = max(r.distinct - 1, 0)
    if r.error or not r.finished or consumed < len(recs):
        raise vlib.Infra("ElectionTrace stopped at line %d of %d: %s\n%s" % (consumed + 1, len(recs), r.error, r.out[-1000:]))
    classes = {}
    deviations = []
    for m in re.finditer(r'<<\s*"VIOL",\s*(\d+),\s*"([a-z-]+)"\s*>>', r.out):
        e = recs[int(m.group(1)) - 1]
        if m.group(2) == "deviation":  # self-consistent, but not the rule of Election.tla: reported, not a violation of C15
            deviations.append(e)
        else:
            classes.setdefault("election:" + m.group(2), []).append(e)
    if deviations:
        print("C15 note: %d leader selection(s) agree with themselves but not with Election.tla's rule, e.g. %s" % (len(deviations), json.dumps(deviations[0])[:300]))
    for key, items in sorted(classes.items()):
        e = items[0]
        v.violation(key, "the real leader selection differs from Election.tla (%d case(s)); committee %s, candidates in the orders %s, seed index %d of %d: the code named %s"
                    % (len(items), json.dumps(e["committee"]), json.dumps(e["orders"]), e["seedIndex"], e["total"], e["leaders"]), {"case": e})
    return {"election_states": rd.distinct, "election_guards_confirmed_necessary": GUARDS, "election_cases_validated": consumed,
            "election_cases_without_candidate": sum(1 for e in recs if not e["orders"][0]), "election_cases_with_several_candidates": sum(1 for e in recs if len(e["orders"][0]) > 1),
            "election_deviations_from_rule": len(deviations), "election_violation_classes": {k: len(x) for k, x in classes.items()}}
