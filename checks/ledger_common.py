"""Shared pieces of the Ledger.tla-based checks (C04 supply conservation, C12 staking consistency / no wedge)."""
import json, os, re, shutil, sys
sys.path.insert(0, os.path.join(os.path.dirname(os.path.abspath(__file__)), "..", "lib"))
import vlib

CONSTS = {"Vals": '{"v1", "v2", "v3"}', "MaxStake": "2", "MaxHeight": "7", "UnstakingBlocks": "3", "MaxPauseBlocks": "4", "SlashPct": "50"}
INVS = ["Conservation", "StakedTally", "MarkersMatchStatus", "NoWedge"]


def design(work, guard=True, max_height=7, invariants=INVS, name="design", dump=None, timeout=1500):
    c = dict(CONSTS, MaxHeight=str(max_height), G_DeleteClearsMarkers="TRUE" if guard else "FALSE")
    cfg = vlib.cfg_text(constants=c, view="view", invariants=invariants)
    extra = ["-coverage", "1"] if guard else []
    d = os.path.join(work, name)
    if dump:
        extra += ["-dumpTrace", "json", os.path.join(d, dump)]
    return vlib.tlc(d, "MCLedger", cfg, workers=16, timeout=timeout, extra=extra), d


def block_of(last, nxt):
    """model block (tx, slash) -> real BlockSpec; the slash of the NEXT model block rides in this block's certificate"""
    vi = {"v1": 1, "v2": 2, "v3": 3}
    b = {"ops": [], "nonsign": [], "dblsign": [], "payto": [], "proposer": 0}
    if last is not None:
        tx = last["tx"]
        if tx["op"] != "none":
            b["ops"].append({"op": tx["op"], "who": vi[tx["v"]], "amt": tx["a"], "comm": [1]})
    if nxt is not None and nxt["slash"] in vi:
        b["dblsign"].append(vi[nxt["slash"]])
    return b


def script_from_lasts(sid, lasts):
    """Ledger.tla behaviour -> nodex script: a leading empty block carries the first slash"""
    steps = [l for l in lasts if l.get("a") == "Block"]
    blocks = [block_of(None, steps[0] if steps else None)]
    for i, st in enumerate(steps):
        blocks.append(block_of(st, steps[i + 1] if i + 1 < len(steps) else None))
    return {"id": sid, "blocks": blocks}


def simulate(work, sd, num, depth):
    c = dict(CONSTS, MaxHeight=str(depth + 2), G_DeleteClearsMarkers="TRUE")
    cfg = vlib.cfg_text(constants=c)
    r, behs = vlib.simulate(os.path.join(work, "sim"), "MCLedger", cfg, num, depth, sd)
    if r.error or r.violated:
        raise vlib.Infra("Ledger.tla simulation failed: %s %s" % (r.error, r.violated))
    return [script_from_lasts("sim-%d-%d" % (sd, k), b) for k, b in enumerate(behs)]


def nodex(binp, args, out):
    p = vlib.sh([binp] + [str(a) for a in args] + [out], timeout=3000, check=False)
    if p.returncode != 0:
        raise vlib.Infra("nodex %s failed: %s" % (args[:2], p.stdout[-1500:]))
    return out


PREDS = ["SumEq", "NoWrap", "MintBound", "StakedTally", "DelegatedTally", "CommitteeTallies", "MarkersMatch", "NoWedge"]


def report(work, name, trace, timeout=3000):
    """one TLC pass of LedgerTrace over a recorded real history: ({predicate: [line numbers]}, lines accepted, total)"""
    d = os.path.join(work, "tv-" + name)
    os.makedirs(d, exist_ok=True)
    shutil.copyfile(trace, os.path.join(d, "trace.ndjson"))
    cfg = vlib.cfg_text(invariants=["Report"], postcondition="TraceAccepted")
    r = vlib.tlc(d, "LedgerTrace", cfg, workers=1, timeout=timeout)
    total = sum(1 for _ in open(trace))
    consumed = max(r.distinct - 1, 0)
    if r.error or not r.finished or consumed < total:
        raise vlib.Infra("LedgerTrace stopped at line %d of %d: %s\n%s" % (consumed + 1, total, r.error, r.out[-1500:]))
    found = {}
    for m in re.finditer(r'<<\s*"VIOL",\s*(\d+),\s*\[([^\]]*)\]\s*>>', r.out.replace("\n", " ")):
        for fld, val in re.findall(r"(\w+) \|-> (TRUE|FALSE)", m.group(2)):
            if val == "FALSE":
                found.setdefault(fld, []).append(int(m.group(1)))
    return found, consumed, total


def brief(rec):
    s = rec["scan"]
    return {"kind": rec["kind"], "run": rec["run"], "height": s["height"], "err": rec["err"][:200], "note": rec["note"],
            "vals": [(v["name"], v["stake"], v["unstaking"], v["paused"]) for v in s["vals"]],
            "unstakingIdx": [(m["h"], m["name"]) for m in s["unstakingIdx"]], "pausedIdx": [(m["h"], m["name"]) for m in s["pausedIdx"]],
            "total": s["total"], "sumResidual": s["sumResidual"]}


def run_family(pid, tier, own_preds, what):
    """common body of C04 / C12: design check, attack + simulated behaviours replayed, random real histories, TLC validation"""
    import time
    t0 = time.time()
    sd = vlib.seed()
    v = vlib.Verdict(pid)
    work = vlib.scratch(pid.lower())
    try:
        binp, _ = vlib.build_harness("nodex")
        r, _ = design(work, True, 7 if tier == "quick" else 8)
        if r.violated or not r.finished:
            raise vlib.Infra("Ledger.tla design check failed: %s %s" % (r.violated, r.error))
        # attack scripts: shortest behaviours of the spec without the marker clean-up that break each invariant
        scripts = []
        for inv in ("MarkersMatchStatus", "NoWedge"):
            rw, d = design(work, False, 7, [inv], "weak-" + inv, "trace.json", 600)
            if rw.violated != inv:
                raise vlib.Infra("vacuous: Ledger.tla without G_DeleteClearsMarkers does not violate %s" % inv)
            scripts.append(script_from_lasts("attack-" + inv, vlib.counterexample_lasts(os.path.join(d, "trace.json"))))
        scripts += simulate(work, sd, 25 if tier == "quick" else 400, 7)
        sp = os.path.join(work, "scripts.ndjson")
        with open(sp, "w") as fh:
            for s in scripts:
                fh.write(json.dumps(s) + "\n")
        traces = [("replay", nodex(binp, ["ledger-replay", sp], os.path.join(work, "replay.ndjson"))),
                  ("random", nodex(binp, ["ledger", sd, 12 if tier == "quick" else 150, 25, "small"], os.path.join(work, "random.ndjson"))),
                  ("big", nodex(binp, ["ledger", sd, 3 if tier == "quick" else 30, 12, "big"], os.path.join(work, "big.ndjson"))),
                  # genesis total within a few block mints of 2^64: the mint path must not wrap the supply
                  ("mint-near-2^64", nodex(binp, ["ledger", sd, 1 if tier == "quick" else 5, 8, "wrap"], os.path.join(work, "wrap.ndjson")))]
        total_lines = ok_lines = 0
        classes = {}
        samples = []
        for name, tr in traces:
            found, consumed, total = report(work, name, tr)
            total_lines += total
            ok_lines += consumed
            recs = [json.loads(x) for x in open(tr)]
            if len(samples) < 3 and len(recs) > 2:
                samples.append(brief(recs[2]))
            for pred, lns in found.items():
                if pred in own_preds:
                    key = pred if name != "mint-near-2^64" else pred + ":mint-near-2^64"
                    for ln in lns:
                        classes.setdefault(key, []).append((name, ln, recs[ln - 1]))
        for pred, items in sorted(classes.items()):
            name, ln, rec = items[0]
            v.violation(pred, "%s (%d recorded state(s); first: %s trace line %d, %s)" % (what[pred.split(":")[0]], len(items), name, ln, json.dumps(brief(rec))[:500]),
                        {"line": rec, "trace": name})
        cov = r.coverage()
        coverage = {"states": r.distinct, "transitions": r.generated, "depth": r.depth, "exhaustive": True,
                    "constants": dict(CONSTS, note="3 validators, stakes 1..2, one transaction and at most one 50% slash per block"),
                    "traces_validated_against_impl": len(traces), "trace_lines": total_lines, "trace_lines_accepted": ok_lines,
                    "behaviours_replayed": len(scripts), "attack_scripts_replayed": 2,
                    "violation_classes": {k: len(x) for k, x in classes.items()},
                    "coverage_by_action": {k: list(x) for k, x in cov.items()},
                    "known_findings_reproduced": [k for k, _ in v.known], "samples": samples}
        vlib.write_evidence(pid, tier, "model_checking", coverage, time.time() - t0, len(v.violations),
                            ["the chain is its own root chain; validator 0 holds > 2/3 of the power and always signs",
                             "the recorded state is a raw prefix scan of the committed store, not the cached getters",
                             "amounts near 2^64: only the big-integer residual of the sum equation is checked (TLC integers are 32 bit)"])
        print("%s %s: design %d states; %d behaviours replayed; %d real block states validated by TLC; classes %s"
              % (pid, tier, r.distinct, len(scripts), ok_lines, {k: len(x) for k, x in classes.items()}))
        return v.exit_code()
    finally:
        shutil.rmtree(work, ignore_errors=True)
