"""Mempool.tla / MempoolTrace.tla stage (part of C11: the pool an honest proposer builds its block from)."""
import json, os, re, shutil, sys
sys.path.insert(0, os.path.dirname(os.path.abspath(__file__)))
import vlib

GUARDS = ["G_StableOrder", "G_DedupBatch", "G_DropLowest"]
BASE = {"MaxCount": "3", "MaxBytes": "4", "DropPct": "35", "MaxTxSize": "2", "TxIds": "{1, 2, 3, 4, 6}", "Fees": "<- MCFees", "Sizes": "<- MCSizes", "MaxSteps": "4"}


def design(work, name, off=None, steps=4):
    c = dict(BASE, MaxSteps=str(steps))
    for g in GUARDS:
        c[g] = "FALSE" if g == off else "TRUE"
    cfg = vlib.cfg_text(constants=c, invariants=["Sorted", "NoDuplicates", "WithinLimits", "ProposalIsBestPrefix", "Fifo"], properties=["DropsAreLowest"])
    return vlib.tlc(os.path.join(work, name), "MCMempool", cfg, workers=8, timeout=1200)


def run(v, work, tier, sd):
    """returns a coverage dict; adds violations to the verdict v"""
    binp, _ = vlib.build_harness("poolx")
    rd = design(work, "mp", steps=4 if tier == "quick" else 5)
    if rd.violated or not rd.finished:
        raise vlib.Infra("Mempool.tla fails: %s %s" % (rd.violated, rd.error))
    for g in GUARDS:
        if not design(work, "mp-" + g, off=g).violated:
            raise vlib.Infra("Mempool.tla without %s shows no violation" % g)
    d = os.path.join(work, "tv-mempool")
    os.makedirs(d)
    tr = os.path.join(d, "trace.ndjson")
    seqs, ops = (10, 80) if tier == "quick" else (150, 120)
    p = vlib.sh([binp, "run", str(sd), str(seqs), str(ops), tr], timeout=1200, check=False)
    if p.returncode != 0:
        raise vlib.Infra("poolx failed: " + p.stdout[-800:])
    recs = [json.loads(x) for x in open(tr)]
    c = dict(BASE, Fees="0", Sizes="0", TxIds="{}", MaxSteps="0")
    c.update({g: "TRUE" for g in GUARDS})
    r = vlib.tlc(d, "MempoolTrace", vlib.cfg_text(spec="TraceSpec", constants=c, invariants=["Report"], postcondition="TraceAccepted"), workers=1, timeout=2400)
    consumed = max(r.distinct - 1, 0)
    if r.error or not r.finished or consumed < len(recs):
        raise vlib.Infra("MempoolTrace stopped at line %d of %d: %s\n%s" % (consumed + 1, len(recs), r.error, r.out[-1000:]))
    classes = {}
    for m in re.finditer(r'<<\s*"VIOL",\s*(\d+)\s*>>', r.out):
        ln = int(m.group(1))
        classes.setdefault("mempool:" + recs[ln - 1]["e"], []).append((ln, recs[ln - 1], recs[ln - 2] if ln > 1 else None))
    for key, items in sorted(classes.items()):
        ln, e, prev = items[0]
        v.violation(key, "the real mempool's %s differs from Mempool.tla or breaks its order / limit invariants (%d time(s); first at line %d: %s)" % (e["e"], len(items), ln, json.dumps(e)[:400]),
                    {"line": e, "pool_before": prev["pool"] if prev else []})
    ops_count = {}
    for e in recs:
        ops_count[e["e"]] = ops_count.get(e["e"], 0) + 1
    return {"mempool_states": rd.distinct, "mempool_guards_confirmed_necessary": GUARDS, "mempool_operations_validated": consumed, "mempool_operations": ops_count,
            "mempool_refused_batches": sum(1 for e in recs if e.get("err")), "mempool_violation_classes": {k: len(x) for k, x in classes.items()}}
