"""Slash.tla / SlashTrace.tla stage (C14: within one block a committee never slashes a validator by more than the per-committee cap)."""
import json, os, re, sys
sys.path.insert(0, os.path.dirname(os.path.abspath(__file__)))
import vlib

GUARDS = ["G_RollbackPerTx", "G_ResetClears", "G_FreshPerBlock", "G_EjectAtCap", "G_CheckBudget"]
INVS = ["CapPerBlock", "TrackerExact", "EjectedAtCap", "LossBound"]


def design(work, name, off=None, steps=8, blocks=1, invs=INVS):
    c = {"Vals": '{"a"}', "Chains": "{1, 2}", "MaxSlash": "15", "Pcts": "{10, 5}", "Stake0": "1000", "MaxSteps": str(steps), "MaxBlocks": str(blocks)}
    for g in GUARDS:
        c[g] = "FALSE" if g == off else "TRUE"
    return vlib.tlc(os.path.join(work, name), "Slash", vlib.cfg_text(constants=c, invariants=invs, view="view"), workers=8, timeout=1500)


def run(v, work, tier, sd, nodex, pid="C14"):
    rd = design(work, "sl", steps=8 if tier == "quick" else 9, blocks=1 if tier == "quick" else 2)
    if rd.violated or not rd.finished:
        raise vlib.Infra("Slash.tla fails: %s %s" % (rd.violated, rd.error))
    for g in GUARDS:
        if not design(work, "sl-" + g, off=g, steps=6, blocks=2).violated:
            raise vlib.Infra("Slash.tla without %s shows no violation" % g)
    # the cap itself (not only the exactness of the tracker) needs the per-transaction rollback and the budget check
    for g in ("G_RollbackPerTx", "G_CheckBudget"):
        if design(work, "slcap-" + g, off=g, steps=7, invs=["CapPerBlock"]).violated != "CapPerBlock":
            raise vlib.Infra("Slash.tla without %s does not violate CapPerBlock" % g)
    d = os.path.join(work, "tv-slash")
    os.makedirs(d)
    tr = os.path.join(d, "trace.ndjson")
    runs, blocks = (12, 14) if tier == "quick" else (240, 16)
    p = vlib.sh([nodex, "slash", str(sd), str(runs), str(blocks), tr], timeout=3000, check=False)
    if p.returncode != 0:
        raise vlib.Infra("nodex slash failed: " + p.stdout[-800:])
    recs = [json.loads(x) for x in open(tr)]
    c = {"Vals": '{"a"}', "Chains": "{1, 2}", "MaxSlash": "15", "Pcts": "{10}", "Stake0": "1000", "MaxSteps": "1", "MaxBlocks": "1"}
    c.update({g: "TRUE" for g in GUARDS})
    r = vlib.tlc(d, "SlashTrace", vlib.cfg_text(spec="TraceSpec", constants=c, invariants=["Report"], postcondition="TraceAccepted"), workers=1, timeout=2400)
    consumed = max(r.distinct - 1, 0)
    if r.error or not r.finished or consumed < len(recs):
        raise vlib.Infra("SlashTrace stopped at line %d of %d: %s\n%s" % (consumed + 1, len(recs), r.error, r.out[-1000:]))
    kinds = {"over-cap": [], "more-than-ordered": [], "valid-refused": [], "deviation": [], "wedge": []}
    for m in re.finditer(r'<<\s*"VIOL",\s*(\d+),\s*"([a-z-]+)"\s*>>', r.out):
        kinds[m.group(2)].append(recs[int(m.group(1)) - 1])
    over, dev, wedge = kinds["over-cap"], kinds["deviation"], kinds["wedge"]
    brief = lambda e: json.dumps({k: e[k] for k in ("kind", "run", "height", "max", "before", "slashes", "after", "failing", "included", "validSubmitted", "validIncluded", "err")})[:900]
    where = lambda e: "the state a proposer's header commits to" if e["kind"] == "proposal" else "the committed state"
    text = {"over-cap": "within one block a committee slashed a validator beyond the per-committee cap",
            "more-than-ordered": "a validator lost more stake than the block's new evidence orders (a validator / height pair slashed again, or a slash nobody ordered)",
            "valid-refused": "a certificate-results transaction that reports only new evidence was not executed: an earlier transaction that FAILED left something behind",
            "deviation": "the stake / committees after the block are not what applying the block's successful transactions gives"}
    # C14 owns the cap and at-most-once; C07 (atomicity) owns what failed transactions leave behind
    mine = {"C14": ["over-cap", "more-than-ordered"], "C07": ["more-than-ordered", "valid-refused", "deviation"]}[pid]
    # the proposer's own block does not commit because replaying it gives another header: what an earlier discarded / failed
    # execution left behind went into the proposal (C07); for C14 this is not a verdict
    mism = [e for e in wedge if "unequal block hash" in e.get("err", "")]
    if pid == "C07" and mism:
        v.violation("slash:own-block-does-not-replay", "a block the node built from its own mempool does not commit on the same node: replaying it gives another header (%d block(s); first: %s)"
                    % (len(mism), brief(mism[0])), {"line": mism[0]})
    for k in mine:
        if kinds[k]:
            e = kinds[k][0]
            v.violation("slash:%s:%s" % (k, e["kind"]), "%s (%d block state(s), %s; first: %s)" % (text[k], len(kinds[k]), where(e), brief(e)), {"line": e})
    for k in ("over-cap", "more-than-ordered", "valid-refused", "deviation"):
        if k not in mine:
            for e in kinds[k][:2]:
                v.divergence("slash driver (%s, judged by another property's check): %s" % (k, brief(e)))
    for e in wedge[:2]:
        v.divergence("slash driver: a block could not be produced / committed (not a %s verdict): %s" % (pid, brief(e)))
    fatal = sum(len(kinds[k]) for k in mine)
    capped = sum(1 for e in recs if e["capOn"] and e["kind"] == "block" and any(len(b["committees"]) > len(a["committees"]) for b in e["before"] for a in e["after"] if a["name"] == b["name"]))
    if not fatal and not v.violations and not v.known and (capped == 0 or len(wedge) * 2 > runs):
        raise vlib.Infra("slash driver: the cap was reached in %d blocks, %d runs wedged: nothing to judge" % (capped, len(wedge)))
    return {"slash_states": rd.distinct, "slash_guards_confirmed_necessary": GUARDS, "slash_block_states_validated": consumed,
            "slash_orders": sum(len(e["slashes"]) for e in recs if e["kind"] == "block"), "slash_blocks_reaching_cap": capped,
            "slash_blocks_with_failing_tx_between": sum(1 for e in recs if e["kind"] == "block" and e["failing"] and len(e["slashes"]) > 1),
            "slash_runs_protocol_v1": len({e["run"] for e in recs if not e["capOn"]}), "slash_deviations": len(dev), "slash_wedges": len(wedge),
            "slash_replayed_pairs_offered": sum(e["replayed"] for e in recs if e["kind"] == "block"),
            "slash_valid_transactions": sum(e["validSubmitted"] for e in recs if e["kind"] == "block"),
            "slash_violation_classes": {k: len(kinds[k]) for k in mine}}
