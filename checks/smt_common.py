"""Shared pieces of the Smt.tla-based checks (C08 state root, C16 Merkle proofs)."""
import json, os, shutil, sys
sys.path.insert(0, os.path.join(os.path.dirname(os.path.abspath(__file__)), "..", "lib"))
import vlib


def consts(K, borders=False, guard=True):
    return {"K": str(K), "Vals": '{"a", "b"}', "Absent": "Absent", "UseBorders": "TRUE" if borders else "FALSE",
            "G_ProofEndsAtProven": "TRUE" if guard else "FALSE"}


def design(work, K, invariants, guard=True, timeout=900, name="design"):
    cfg = vlib.cfg_text(constants=consts(K, guard=guard), view="view", invariants=invariants)
    return vlib.tlc(os.path.join(work, name), "MCSmt", cfg, workers=16, timeout=timeout, extra=["-coverage", "1"])


def simulate_parallel(work, K, sd, num, depth, timeout=600):
    """random walk of the spec with the synthetic-border (parallel) commit enabled"""
    cfg = vlib.cfg_text(spec="SimSpec", constants=consts(K, borders=True), invariants=["TreeIsCanon"])
    d = os.path.join(work, "simpar")
    return vlib.tlc(d, "MCSmt", cfg, workers=8, timeout=timeout, extra=["-simulate", "num=%d" % num, "-depth", str(depth), "-seed", str(sd)])


def smtx(binp, args, out):
    p = vlib.sh([binp] + [str(a) for a in args] + [out], timeout=3000, check=False)
    if p.returncode != 0:
        raise vlib.Infra("smtx %s failed: %s" % (args, p.stdout[-1500:]))
    return out


INVS = ["RealTreeIsCanon", "RefIsCanon", "HashesOK", "RootMatchesReference", "NoCommitError", "ProofSound", "ProofComplete", "NoPanic"]


def validate(work, name, trace, K, borders, invariants, timeout=1800):
    """TLC trace validation; returns (violated invariant or None, lines consumed, total, result)"""
    d = os.path.join(work, "tv-" + name)
    os.makedirs(d, exist_ok=True)
    shutil.copyfile(trace, os.path.join(d, "trace.ndjson"))
    cfg = vlib.cfg_text(spec="TraceSpec", constants=consts(K, borders=borders), invariants=invariants, postcondition="TraceAccepted")
    r = vlib.tlc(d, "SmtTrace", cfg, workers=1, timeout=timeout)
    total = sum(1 for _ in open(trace))
    consumed = max(r.distinct - 1, 0)
    return r.violated, consumed, total, r


import re


def report(work, name, trace, K, borders, timeout=3000):
    """one TLC pass over the trace with the reporting invariant: returns ({predicate: [line numbers]}, lines accepted, total)"""
    d = os.path.join(work, "tv-" + name)
    os.makedirs(d, exist_ok=True)
    shutil.copyfile(trace, os.path.join(d, "trace.ndjson"))
    cfg = vlib.cfg_text(spec="TraceSpec", constants=consts(K, borders=borders), invariants=["Report"], postcondition="TraceAccepted")
    r = vlib.tlc(d, "SmtTrace", cfg, workers=1, timeout=timeout)
    total = sum(1 for _ in open(trace))
    consumed = max(r.distinct - 1, 0)
    if r.error or not r.finished or consumed < total or "TraceAccepted" in r.out and "is false" in r.out:
        raise vlib.Infra("trace validation stopped at line %d of %d: %s\n%s" % (consumed + 1, total, r.error, r.out[-1500:]))
    found = {}
    for m in re.finditer(r'<<\s*"VIOL",\s*(\d+),\s*(TRUE|FALSE),\s*\[([^\]]*)\]\s*>>', r.out.replace("\n", " ")):
        line, tree_ok, rec = int(m.group(1)), m.group(2) == "TRUE", m.group(3)
        if not tree_ok:
            found.setdefault("RealTreeIsCanon", []).append(line)
        for fld, val in re.findall(r"(\w+) \|-> (TRUE|FALSE)", rec):
            if val == "FALSE":
                found.setdefault(fld, []).append(line)
    return found, consumed, total
