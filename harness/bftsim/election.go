package main

import (
	"bufio"
	"encoding/binary"
	"encoding/json"
	"math/rand"
	"os"

	"github.com/canopy-network/canopy/bft"
	"github.com/canopy-network/canopy/lib"
	"github.com/canopy-network/canopy/lib/crypto"
)

// election mode (specs/Election.tla): the real leader selection on random committees, seeds and candidate sets. The
// candidates are genuine VRF outputs of the validators' keys; every case is evaluated for several arrival orders of the same
// candidate messages. Recorded: the committee (id, power in canonical order), the candidates with the leading 24 bits of the
// hash the real code compares, the seed index the fallback uses, and the leader the real code named for each order.

type ElCand struct {
	Id   int `json:"id"`
	Rank int `json:"rank"`
}
type ElVal struct {
	Id    int    `json:"id"`
	Power uint64 `json:"power"`
}
type ElLine struct {
	E         string     `json:"e"` // "election"
	Committee []ElVal    `json:"committee"`
	Orders    [][]ElCand `json:"orders"`  // the same candidates in different arrival orders
	Leaders   []int      `json:"leaders"` // what the real code answered for each order
	SeedIndex uint64     `json:"seedIndex"`
	Total     uint64     `json:"total"`
}

func electionMode(seed int64, cases int, outPath string) error {
	f, err := os.Create(outPath)
	if err != nil {
		return err
	}
	defer f.Close()
	bw := bufio.NewWriterSize(f, 1<<20)
	defer bw.Flush()
	enc := json.NewEncoder(bw)
	rng := rand.New(rand.NewSource(seed))
	var keys []crypto.PrivateKeyI
	for _, h := range keyHex {
		k, e := crypto.StringToBLS12381PrivateKey(h)
		if e != nil {
			return e
		}
		keys = append(keys, k)
	}
	idOf := func(pk []byte) int {
		for i, k := range keys {
			if string(k.PublicKey().Bytes()) == string(pk) {
				return i + 1
			}
		}
		return 0
	}
	for c := 0; c < cases; c++ {
		n := 2 + rng.Intn(len(keys)-1)
		cv := &lib.ConsensusValidators{}
		line := ElLine{E: "election", Committee: []ElVal{}, Orders: [][]ElCand{}, Leaders: []int{}}
		var total uint64
		for i := 0; i < n; i++ {
			p := uint64(1 + rng.Intn(6))
			if rng.Intn(5) == 0 {
				p = uint64(20 + rng.Intn(30))
			}
			total += p
			cv.ValidatorSet = append(cv.ValidatorSet, &lib.ConsensusValidator{PublicKey: keys[i].PublicKey().Bytes(), VotingPower: p})
			line.Committee = append(line.Committee, ElVal{Id: i + 1, Power: p})
		}
		rh, h, rnd := uint64(1+rng.Intn(5)), uint64(2+rng.Intn(50)), uint64(rng.Intn(6))
		last := [][]byte{{byte(rng.Intn(256))}, {byte(rng.Intn(256))}, {3}, {4}, {5}}
		data := &lib.SortitionData{LastProposerAddresses: last, RootHeight: rh, Height: h, Round: rnd, TotalValidators: uint64(n), TotalPower: total}
		line.Total = total
		line.SeedIndex = binary.BigEndian.Uint64(lib.FormatInputIntoSeed(last, rh, h, rnd)[:16]) % total
		// candidates: a random subset of the validators with their genuine VRF outputs (whether or not the sortition
		// threshold would have let them through: the selection among received candidates does not look at it)
		var cands []bft.VRFCandidate
		var recs []ElCand
		for i := 0; i < n; i++ {
			if rng.Intn(3) != 0 {
				continue
			}
			vrf := bft.VRF(last, rh, h, rnd, keys[i])
			out := crypto.Hash(vrf.Signature)
			cands = append(cands, bft.VRFCandidate{PublicKey: keys[i].PublicKey(), Out: out})
			hh := crypto.Hash(out)
			recs = append(recs, ElCand{Id: i + 1, Rank: int(hh[0])<<16 | int(hh[1])<<8 | int(hh[2])})
		}
		for k := 0; k < 4; k++ {
			perm := rng.Perm(len(cands))
			cs := make([]bft.VRFCandidate, len(cands))
			rs := make([]ElCand, len(cands))
			for i, j := range perm {
				cs[i], rs[i] = cands[j], recs[j]
			}
			if k == 3 && len(cs) > 0 { // one candidate's message delivered twice
				cs, rs = append(cs, cs[0]), append(rs, rs[0])
			}
			line.Orders = append(line.Orders, rs)
			line.Leaders = append(line.Leaders, idOf(bft.SelectProposerFromCandidates(cs, data, cv)))
		}
		if err := enc.Encode(line); err != nil {
			return err
		}
	}
	return nil
}
