package main

import (
	"bytes"
	"encoding/hex"
	"fmt"
	"sort"
	"time"

	"github.com/canopy-network/canopy/bft"
	"github.com/canopy-network/canopy/lib"
	"github.com/canopy-network/canopy/lib/crypto"
)

// ---- spec-side records (JSON) ------------------------------------------------------------------

// QCRec is the spec's certificate record; Some=false encodes None
type QCRec struct {
	Some bool   `json:"some"`
	RH   uint64 `json:"rh"`
	Rnd  uint64 `json:"rnd"`
	Ph   string `json:"ph"`  // EV PV PCV
	Val  string `json:"val"` // value tag or "" for None
	Ldr  string `json:"ldr"`
}

// MsgRec is the spec's leader message record
type MsgRec struct {
	Some bool   `json:"some"`
	From string `json:"from"`
	Rnd  uint64 `json:"rnd"`
	Ph   string `json:"ph"` // P PC C
	Q    QCRec  `json:"q"`
	Val  string `json:"val"`
	HQ   QCRec  `json:"hq"`
}

// Action is one step of a script (the `last` variable of the spec)
type Action struct {
	A     string   `json:"a"`
	N     string   `json:"n,omitempty"`
	L     string   `json:"l,omitempty"`
	S     []string `json:"S,omitempty"`
	Fresh string   `json:"fresh,omitempty"`
	M     *MsgRec  `json:"m,omitempty"`
	Q     *QCRec   `json:"q,omitempty"`
	R     uint64   `json:"r,omitempty"`
}

// NodeState is the projection of one honest replica onto the spec variables
type NodeState struct {
	RH        uint64 `json:"rh"`
	Rnd       uint64 `json:"rnd"`
	Ph        string `json:"ph"`
	Blk       string `json:"blk"` // "" = None
	Ldr       string `json:"ldr"` // "" = None
	Lock      QCRec  `json:"lock"`
	Committed string `json:"committed"` // "" = None
}

var phaseOfQC = map[string]lib.Phase{"EV": lib.Phase_ELECTION_VOTE, "PV": lib.Phase_PROPOSE_VOTE, "PCV": lib.Phase_PRECOMMIT_VOTE}
var qcOfPhase = map[lib.Phase]string{lib.Phase_ELECTION_VOTE: "EV", lib.Phase_PROPOSE_VOTE: "PV", lib.Phase_PRECOMMIT_VOTE: "PCV"}
var phaseOfMsg = map[string]lib.Phase{"P": lib.Phase_PROPOSE, "PC": lib.Phase_PRECOMMIT, "C": lib.Phase_COMMIT}

func (w *world) project(i int) NodeState {
	c := w.nodes[i]
	b := c.b
	st := NodeState{RH: b.RootHeight, Rnd: b.Round}
	switch b.Phase {
	case bft.Election, bft.ElectionVote:
		st.Ph = "EV"
	case bft.Propose:
		st.Ph = "P"
	case bft.ProposeVote:
		st.Ph = "PV"
	case bft.Precommit:
		st.Ph = "PC"
	case bft.PrecommitVote:
		st.Ph = "PCV"
	case bft.Commit:
		st.Ph = "C"
	case bft.CommitProcess:
		st.Ph = "CP"
		if c.cpDone {
			st.Ph = "DONE"
		}
	case bft.RoundInterrupt, bft.Pacemaker:
		st.Ph = "PM"
	}
	if b.Block != nil {
		st.Blk = w.tagOf[hex.EncodeToString(blockHash(b.Block))+hex.EncodeToString(b.Results.Hash())]
		if st.Blk == "" {
			st.Blk = "?"
		}
	}
	if b.ProposerKey != nil {
		st.Ldr = w.nameOfKey(b.ProposerKey)
	}
	if q := b.HighQC; q != nil {
		st.Lock = QCRec{Some: true, RH: q.Header.RootHeight, Rnd: q.Header.Round, Ph: qcOfPhase[q.Header.Phase],
			Val: w.tagOf[hex.EncodeToString(q.BlockHash)+hex.EncodeToString(q.ResultsHash)], Ldr: w.nameOfKey(q.ProposerKey)}
	}
	w.mu.Lock()
	if tag, ok := w.commits[i]; ok {
		st.Committed = tag
		st.Ph = "DONE"
	}
	w.mu.Unlock()
	return st
}

// ---- building real messages ----------------------------------------------------------------------

func view(rh, rnd uint64, p lib.Phase) *lib.View {
	return &lib.View{NetworkId: netID, ChainId: chainID, Height: height, RootHeight: rh, Round: rnd, Phase: p}
}

// bareQC is the certificate without signature for the spec record q
func (w *world) bareQC(q QCRec) (*lib.QuorumCertificate, error) {
	li := w.idx(q.Ldr)
	if li < 0 {
		return nil, fmt.Errorf("unknown leader %q", q.Ldr)
	}
	qc := &lib.QuorumCertificate{Header: view(q.RH, q.Rnd, phaseOfQC[q.Ph]), ProposerKey: w.keys[li].PublicKey().Bytes()}
	if q.Ph != "EV" {
		blk, ok := w.values[q.Val]
		if !ok {
			return nil, fmt.Errorf("unknown value %q", q.Val)
		}
		qc.BlockHash, qc.ResultsHash = blockHash(blk), w.resOf[q.Val].Hash()
	}
	return qc, nil
}

// buildQC aggregates every honest signature that was really produced for q's payload plus the
// signatures of all Byzantine validators (whether or not that reaches +2/3).
func (w *world) buildQC(q QCRec, withBlock bool) (*lib.QuorumCertificate, error) {
	qc, err := w.bareQC(q)
	if err != nil {
		return nil, err
	}
	sb := qc.SignBytes()
	mk := w.vs.MultiKey.Copy()
	pow := uint64(0)
	seen := map[int]bool{}
	w.mu.Lock()
	for _, s := range w.out {
		if s.msg.Header != nil || s.msg.Qc == nil || s.msg.Signature == nil || seen[s.from] {
			continue
		}
		if !s.msg.IsReplicaMessage() || !bytes.Equal(s.msg.SignBytes(), sb) {
			continue
		}
		if e := mk.AddSigner(s.msg.Signature.Signature, s.from); e != nil {
			w.mu.Unlock()
			return nil, e
		}
		seen[s.from] = true
		pow += w.power[s.from]
	}
	w.mu.Unlock()
	for i := range w.keys {
		if w.byz[i] {
			if e := mk.AddSigner(w.keys[i].Sign(sb), i); e != nil {
				return nil, e
			}
			pow += w.power[i]
		}
	}
	_ = pow // a Byzantine validator may also send a certificate below the threshold: the receiver must refuse it
	sig, e := mk.AggregateSignatures()
	if e != nil {
		return nil, e
	}
	qc.Signature = &lib.AggregateSignature{Signature: sig, Bitmap: mk.Bitmap()}
	if withBlock && q.Ph != "EV" {
		qc.Block, qc.Results = w.values[q.Val], w.resOf[q.Val]
	}
	return qc, nil
}

// findSent returns the message an honest node really sent that corresponds to the spec record m
func (w *world) findSent(m *MsgRec) *bft.Message {
	from := w.idx(m.From)
	w.mu.Lock()
	defer w.mu.Unlock()
	for i := len(w.out) - 1; i >= 0; i-- {
		s := w.out[i]
		if s.from != from || s.msg.Header == nil || s.msg.Header.Phase != phaseOfMsg[m.Ph] || s.msg.Header.Round != m.Rnd {
			continue
		}
		if s.msg.Qc == nil || s.msg.Qc.Header == nil || s.msg.Qc.Header.RootHeight != m.Q.RH || s.msg.Qc.Header.Round != m.Q.Rnd {
			continue
		}
		return s.msg
	}
	return nil
}

// byzMsg lets a Byzantine validator assemble the leader message m from real signatures
func (w *world) byzMsg(m *MsgRec) (*bft.Message, error) {
	from := w.idx(m.From)
	if !w.byz[from] {
		return nil, fmt.Errorf("%s is not Byzantine and never sent %+v", m.From, *m)
	}
	qc, err := w.buildQC(m.Q, false)
	if err != nil {
		return nil, err
	}
	// header root height: that of the certificate (it is not checked by the receiver)
	msg := &bft.Message{Header: view(m.Q.RH, m.Rnd, phaseOfMsg[m.Ph]), Qc: qc, RcBuildHeight: m.Q.RH}
	blk, ok := w.values[m.Val]
	if !ok {
		return nil, fmt.Errorf("unknown value %q", m.Val)
	}
	if m.Ph == "P" {
		qc.Block, qc.Results = blk, w.resOf[m.Val]
		qc.BlockHash, qc.ResultsHash = blockHash(blk), w.resOf[m.Val].Hash()
		if m.HQ.Some {
			hq, e := w.buildQC(m.HQ, true)
			if e != nil {
				return nil, e
			}
			msg.HighQc = hq
		}
	}
	_ = msg.Sign(w.keys[from])
	return msg, nil
}

func (w *world) realMsg(m *MsgRec) (*bft.Message, error) {
	if m == nil || !m.Some {
		return nil, nil
	}
	if w.byz[w.idx(m.From)] {
		return w.byzMsg(m)
	}
	if msg := w.findSent(m); msg != nil {
		return msg, nil
	}
	return nil, fmt.Errorf("honest %s never sent %+v", m.From, *m)
}

// electionMsg is the candidate (VRF) message validator l would send in view (rh, rnd)
func (w *world) electionMsg(l int, rh, rnd uint64) *bft.Message {
	vrf := bft.VRF(w.seedFor(rh), rh, height, rnd, w.keys[l])
	msg := &bft.Message{Header: view(rh, rnd, lib.Phase_ELECTION), Vrf: vrf}
	_ = msg.Sign(w.keys[l])
	return msg
}

func (w *world) sortitionData(rh, rnd uint64, power uint64) *lib.SortitionData {
	return &lib.SortitionData{LastProposerAddresses: w.seedFor(rh), RootHeight: rh, Height: height, Round: rnd,
		TotalValidators: w.vs.NumValidators, TotalPower: w.vs.TotalPower, VotingPower: power}
}

func (w *world) isCandidate(i int, rh, rnd uint64) bool {
	_, _, ok := bft.Sortition(&bft.SortitionParams{SortitionData: w.sortitionData(rh, rnd, w.power[i]), PrivateKey: w.keys[i]})
	return ok
}

func (w *world) fallback(rh, rnd uint64) int {
	pk := bft.SelectProposerFromCandidates(nil, w.sortitionData(rh, rnd, 0), w.vs.ValidatorSet)
	return w.idx(w.nameOfKey(pk))
}

// chooseSeeds finds, per root height, LastProposers such that every leader the script elects in a view
// is electable there by the real sortition (a VRF candidate, or the stake-weighted fallback)
func (w *world) chooseSeeds(script []Action) error {
	type vw struct{ rh, rnd uint64 }
	want := map[vw]map[int]bool{}
	// replay the view bookkeeping of the script to learn in which view each ElectionVote happens
	rh, rnd := map[string]uint64{}, map[string]uint64{}
	root := uint64(1)
	for _, n := range w.names {
		rh[n], rnd[n] = 1, 0
	}
	for _, a := range script {
		switch a.A {
		case "RootBump":
			root++
		case "Reset":
			rh[a.N], rnd[a.N] = root, 0
		case "Pacemaker":
			rnd[a.N] = a.R
		case "ElectionVote":
			v := vw{rh[a.N], rnd[a.N]}
			if want[v] == nil {
				want[v] = map[int]bool{}
			}
			want[v][w.idx(a.L)] = true
		}
	}
	byRH := map[uint64][]vw{}
	for v := range want {
		byRH[v.rh] = append(byRH[v.rh], v)
	}
	for r, views := range byRH {
		found := false
		for try := 0; try < 200000 && !found; try++ {
			w.seeds[r] = [][]byte{{byte(r)}, {byte(try)}, {byte(try >> 8)}, {byte(try >> 16)}, {5}}
			ok := true
			for _, v := range views {
				fb := w.fallback(v.rh, v.rnd)
				for l := range want[v] {
					if l != fb && !w.isCandidate(l, v.rh, v.rnd) {
						ok = false
					}
				}
				if !ok {
					break
				}
			}
			found = ok
		}
		if !found {
			return fmt.Errorf("no sortition seed for root height %d", r)
		}
	}
	return nil
}

// ---- executing spec actions --------------------------------------------------------------------

func (c *ctrl) fire() {
	c.Lock()
	c.curPhase = c.b.Phase
	c.b.HandlePhase()
	c.Unlock()
}

// wait for the goroutine StartCommitProcessPhase spawns (it hands the certificate to the controller: a commit or a gate
// refusal is recorded); only when the replica took the commit path, and for as long as it takes on a loaded machine
func settle() { time.Sleep(15 * time.Millisecond) }

func (w *world) settleCommit(id int, gateLogBefore int) {
	if w.nodes[id].b.Phase != bft.CommitProcess {
		return // round interrupt: nothing was handed over
	}
	for i := 0; i < 2500; i++ {
		w.mu.Lock()
		_, done := w.commits[id]
		grew := len(w.gateLog) > gateLogBefore
		w.mu.Unlock()
		if done || grew {
			return
		}
		time.Sleep(2 * time.Millisecond)
	}
}

type stepResult struct {
	Note string
}

func (w *world) deliver(to int, msg *bft.Message) string {
	if msg == nil {
		return ""
	}
	if err := w.nodes[to].b.HandleMessage(msg); err != nil {
		return err.Error()
	}
	return ""
}

// sentVotes returns the real vote messages of honest validator `from` for leader `ldr` in phase ph, view (rh, rnd)
func (w *world) sentVote(from, ldr int, ph lib.Phase, rh, rnd uint64) *bft.Message {
	w.mu.Lock()
	defer w.mu.Unlock()
	for i := len(w.out) - 1; i >= 0; i-- {
		s := w.out[i]
		if s.from != from || s.msg.Header != nil || s.msg.Qc == nil || s.msg.Qc.Header == nil {
			continue
		}
		h := s.msg.Qc.Header
		if h.Phase != ph || h.Round != rnd || h.RootHeight != rh {
			continue
		}
		if !bytes.Equal(s.msg.Qc.ProposerKey, w.keys[ldr].PublicKey().Bytes()) {
			continue
		}
		return s.msg
	}
	return nil
}

// byzVote is the vote a Byzantine validator casts to help leader n in its current view
func (w *world) byzVote(from, n int, ph lib.Phase) *bft.Message {
	b := w.nodes[n].b
	qc := &lib.QuorumCertificate{Header: view(b.RootHeight, b.Round, ph), ProposerKey: w.keys[n].PublicKey().Bytes()}
	if ph != lib.Phase_ELECTION_VOTE {
		qc.BlockHash, qc.ResultsHash = b.GetBlockHash(), b.Results.Hash()
	}
	msg := &bft.Message{Qc: qc}
	_ = msg.Sign(w.keys[from])
	return msg
}

func (w *world) deliverVotes(n int, S []string, ph lib.Phase) (notes []string, err error) {
	b := w.nodes[n].b
	for _, name := range S {
		v := w.idx(name)
		var msg *bft.Message
		if w.byz[v] {
			msg = w.byzVote(v, n, ph)
		} else {
			msg = w.sentVote(v, n, ph, b.RootHeight, b.Round)
			if msg == nil && ph != lib.Phase_ELECTION_VOTE {
				// G_VoteRootHeight weakened scripts deliver votes of another root height
				for r := uint64(1); r <= w.rootH && msg == nil; r++ {
					msg = w.sentVote(v, n, ph, r, b.Round)
				}
			}
			if msg == nil {
				return notes, fmt.Errorf("no %v vote of %s for %s in view (%d,%d)", ph, name, w.names[n], b.RootHeight, b.Round)
			}
		}
		if e := w.deliver(n, msg); e != "" {
			notes = append(notes, name+": "+e)
		}
	}
	return
}

func (w *world) exec(a Action) (note string, err error) {
	n := -1
	if a.N != "" {
		n = w.idx(a.N)
		if n < 0 || w.byz[n] {
			return "", fmt.Errorf("action on unknown/Byzantine node %q", a.N)
		}
	}
	var c *ctrl
	var b *bft.BFT
	if n >= 0 {
		c = w.nodes[n]
		b = c.b
	}
	var notes []string
	addNote := func(s string) {
		if s != "" {
			notes = append(notes, s)
		}
	}
	// bring a replica to the code phase whose handler the spec action stands for (no-op leader handlers)
	advanceTo := func(target lib.Phase) error {
		for b.Phase != target {
			if b.Phase > target || b.Phase == bft.CommitProcess {
				return fmt.Errorf("%s is in code phase %v, cannot reach %v", a.N, b.Phase, target)
			}
			c.fire()
		}
		return nil
	}
	switch a.A {
	case "RootBump":
		w.rootH++
	case "Reset":
		c.rootH = w.rootH
		c.Lock()
		b.NewHeight(true)
		c.cpDone = false
		c.Unlock()
	case "ElectionVote":
		if b.Phase == bft.Election {
			c.fire()
		}
		if b.Phase != bft.ElectionVote {
			return "", fmt.Errorf("%s not at ELECTION_VOTE but %v", a.N, b.Phase)
		}
		l := w.idx(a.L)
		if w.isCandidate(l, b.RootHeight, b.Round) {
			addNote(w.deliver(n, w.electionMsg(l, b.RootHeight, b.Round)))
		} else if w.fallback(b.RootHeight, b.Round) != l {
			return "", fmt.Errorf("%s is not electable in view (%d,%d)", a.L, b.RootHeight, b.Round)
		}
		c.fire()
	case "Propose":
		if err = advanceTo(bft.Propose); err != nil {
			return
		}
		ns, e := w.deliverVotes(n, a.S, lib.Phase_ELECTION_VOTE)
		if e != nil {
			return "", e
		}
		notes = append(notes, ns...)
		c.next = a.Fresh
		c.fire()
	case "ProposeVote":
		if err = advanceTo(bft.ProposeVote); err != nil {
			return
		}
		msg, e := w.realMsg(a.M)
		if e != nil {
			return "", e
		}
		addNote(w.deliver(n, msg))
		c.fire()
	case "Precommit", "Commit":
		target, vph := bft.Precommit, lib.Phase_PROPOSE_VOTE
		if a.A == "Commit" {
			target, vph = bft.Commit, lib.Phase_PRECOMMIT_VOTE
		}
		if err = advanceTo(target); err != nil {
			return
		}
		ns, e := w.deliverVotes(n, a.S, vph)
		if e != nil {
			return "", e
		}
		notes = append(notes, ns...)
		c.fire()
	case "PrecommitVote", "CommitProcess":
		target := bft.PrecommitVote
		if a.A == "CommitProcess" {
			target = bft.CommitProcess
		}
		if err = advanceTo(target); err != nil {
			return
		}
		msg, e := w.realMsg(a.M)
		if e != nil {
			return "", e
		}
		addNote(w.deliver(n, msg))
		w.mu.Lock()
		glb := len(w.gateLog)
		w.mu.Unlock()
		c.fire()
		if a.A == "CommitProcess" {
			w.settleCommit(n, glb)
			c.cpDone = b.Phase == bft.CommitProcess
		}
	case "AdoptLock":
		// a Byzantine validator (or the network, for an honest vote addressed to n) hands n an ELECTION vote with HighQc
		hq, e := w.buildQC(*a.Q, true)
		if e != nil {
			return "", e
		}
		from := -1
		for i := range w.keys {
			if w.byz[i] {
				from = i
			}
		}
		if from < 0 {
			return "", fmt.Errorf("AdoptLock needs a Byzantine validator")
		}
		msg := &bft.Message{Qc: &lib.QuorumCertificate{Header: view(b.RootHeight, b.Round, lib.Phase_ELECTION_VOTE), ProposerKey: w.keys[n].PublicKey().Bytes()}, HighQc: hq, RcBuildHeight: a.Q.RH}
		_ = msg.Sign(w.keys[from])
		addNote(w.deliver(n, msg))
	case "GossipCommit":
		qc, e := w.buildQC(*a.Q, true)
		if e != nil {
			return "", e
		}
		c.SelfSendBlock(qc, 0)
	case "Pacemaker":
		if b.Phase == bft.RoundInterrupt {
			c.fire()
		}
		if b.Phase != bft.Pacemaker {
			return "", fmt.Errorf("%s not at PACEMAKER but %v", a.N, b.Phase)
		}
		// deliver pacemaker messages that support a jump to round a.R (none needed for round+1)
		if a.R > b.Round+1 {
			for i := range w.keys {
				var pm *bft.Message
				if w.byz[i] {
					pm = &bft.Message{Qc: &lib.QuorumCertificate{Header: view(b.RootHeight, a.R, lib.Phase_ROUND_INTERRUPT)}}
					_ = pm.Sign(w.keys[i])
				} else {
					pm = w.sentPM(i, b.RootHeight, a.R)
				}
				if pm != nil {
					addNote(w.deliver(n, pm))
				}
			}
		}
		c.fire()
	default:
		return "", fmt.Errorf("unknown action %q", a.A)
	}
	sort.Strings(notes)
	for _, s := range notes {
		note += s + "; "
	}
	return note, nil
}

// sentPM: the pacemaker message honest i sent at root height rh with round >= r (highest)
func (w *world) sentPM(i int, rh, r uint64) *bft.Message {
	w.mu.Lock()
	defer w.mu.Unlock()
	var best *bft.Message
	for _, s := range w.out {
		if s.from != i || !s.msg.IsPacemakerMessage() {
			continue
		}
		h := s.msg.Qc.Header
		if h.RootHeight == rh && h.Round >= r && (best == nil || h.Round > best.Qc.Header.Round) {
			best = s.msg
		}
	}
	return best
}

var _ = crypto.HashSize
