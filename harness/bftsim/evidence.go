package main

import (
	"bufio"
	"encoding/json"
	"math/rand"
	"os"
	"sort"

	"github.com/canopy-network/canopy/bft"
	"github.com/canopy-network/canopy/lib"
)

// evidence mode (specs/EvidenceDef.tla, property C14): vote logs in which honest validators sign at most one payload per
// view and Byzantine validators sign everything; every evidence object an adversary can assemble from those real BLS
// signatures (any signer subsets, padded bitmaps, re-paired across views / rounds / phases, same payload twice, partial
// certificates) is handed to the real bft.ProcessDSE and ValidateByzantineEvidence. Recorded: the abstract evidence,
// the vote log and whom the real code implicated.

type EvQC struct {
	View    string   `json:"view"` // "rootHeight/round/phase"
	Phase   string   `json:"phase"`
	Payload string   `json:"payload"`
	Bitmap  []string `json:"bitmap"`
	Sigs    []string `json:"sigs"`
}

type EvLine struct {
	Kind         string                         `json:"kind"`  // "evidence"
	Votes        map[string]map[string][]string `json:"votes"` // validator -> view key -> payloads signed
	A            EvQC                           `json:"a"`
	B            EvQC                           `json:"b"`
	Err          string                         `json:"err"`
	Implicated   []string                       `json:"implicated"`
	ListOK       bool                           `json:"listOK"`  // ValidateByzantineEvidence accepted a slash list naming exactly the implicated
	ExtraOK      bool                           `json:"extraOK"` // ... accepted a slash list naming an additional, not implicated validator
	Equivocators []string                       `json:"equivocators"`
}

type evView struct {
	rh, rnd uint64
	ph      string
}

func (v evView) key() string {
	return string(rune('0'+v.rh)) + "/" + string(rune('0'+v.rnd)) + "/" + v.ph
}

func evidenceMode(seed int64, logs int, outPath string) error {
	f, err := os.Create(outPath)
	if err != nil {
		return err
	}
	defer f.Close()
	bw := bufio.NewWriterSize(f, 1<<20)
	defer bw.Flush()
	enc := json.NewEncoder(bw)
	rng := rand.New(rand.NewSource(seed))
	names := []string{"n1", "n2", "n3", "b1"}
	w, err := newWorld(names, map[string]bool{"b1": true}, nil, []string{"p", "q"})
	if err != nil {
		return err
	}
	judge := w.nodes[0].b // an honest replica evaluates the evidence
	views := []evView{{1, 0, "PV"}, {1, 1, "PV"}, {1, 0, "PCV"}, {1, 0, "EV"}}
	payloads := []string{"p", "q"}
	for l := 0; l < logs; l++ {
		// vote log: honest validators pick at most one payload per view, the Byzantine one signs both
		votes := map[string]map[string][]string{}
		for i, n := range names {
			votes[n] = map[string][]string{}
			for _, v := range views {
				switch {
				case w.byz[i]:
					votes[n][v.key()] = []string{"p", "q"}
				default:
					votes[n][v.key()] = [][]string{{}, {"p"}, {"q"}}[rng.Intn(3)]
				}
			}
		}
		var equiv []string
		for i, n := range names {
			if w.byz[i] {
				equiv = append(equiv, n)
			}
		}
		signedBy := func(v evView, p string) (out []string) {
			for _, n := range names {
				for _, x := range votes[n][v.key()] {
					if x == p {
						out = append(out, n)
					}
				}
			}
			return
		}
		bare := func(v evView, p string) *lib.QuorumCertificate {
			q := QCRec{Some: true, RH: v.rh, Rnd: v.rnd, Ph: v.ph, Val: p, Ldr: "n1"}
			qc, _ := w.bareQC(q)
			if v.ph == "EV" { // an election vote names a proposer instead of a block: two "payloads" = two proposers
				if p == "q" {
					qc.ProposerKey = w.keys[1].PublicKey().Bytes()
				}
			}
			return qc
		}
		mkQC := func(v evView, p string) (*lib.QuorumCertificate, EvQC) {
			all := signedBy(v, p)
			// a random subset of the genuine signatures, possibly a bitmap padded with one more validator
			var sigs []string
			for _, n := range all {
				if rng.Intn(4) != 0 {
					sigs = append(sigs, n)
				}
			}
			bitmap := append([]string{}, sigs...)
			if rng.Intn(4) == 0 {
				extra := names[rng.Intn(len(names))]
				has := false
				for _, x := range bitmap {
					has = has || x == extra
				}
				if !has {
					bitmap = append(bitmap, extra)
				}
			}
			qc := bare(v, p)
			sb := qc.SignBytes()
			mk := w.vs.MultiKey.Copy()
			for _, n := range sigs {
				_ = mk.AddSigner(w.keys[w.idx(n)].Sign(sb), w.idx(n))
			}
			sig, e := mk.AggregateSignatures()
			if e != nil || len(sigs) == 0 {
				sig = make([]byte, 96)
			}
			bm := w.vs.MultiKey.Copy()
			for _, n := range bitmap {
				_ = bm.AddSigner(w.keys[w.idx(n)].Sign([]byte("x")), w.idx(n))
			}
			qc.Signature = &lib.AggregateSignature{Signature: sig, Bitmap: bm.Bitmap()}
			sort.Strings(sigs)
			sort.Strings(bitmap)
			if sigs == nil {
				sigs = []string{}
			}
			return qc, EvQC{View: v.key(), Phase: v.ph, Payload: p, Bitmap: bitmap, Sigs: sigs}
		}
		for k := 0; k < 24; k++ {
			va := views[rng.Intn(len(views))]
			vb := va
			if rng.Intn(3) == 0 {
				vb = views[rng.Intn(len(views))]
			}
			pa, pb := payloads[rng.Intn(2)], payloads[rng.Intn(2)]
			if rng.Intn(3) != 0 {
				pb = payloads[1-indexOf(payloads, pa)]
			}
			qa, da := mkQC(va, pa)
			qb, db := mkQC(vb, pb)
			ev := &bft.DoubleSignEvidence{VoteA: qa, VoteB: qb}
			line := EvLine{Kind: "evidence", Votes: votes, A: da, B: db, Implicated: []string{}, Equivocators: equiv}
			res, e := judge.ProcessDSE(ev)
			if e != nil {
				line.Err = e.Error()
			}
			var list []*lib.DoubleSigner
			for _, ds := range res {
				line.Implicated = append(line.Implicated, w.nameOfKey(ds.Id))
				list = append(list, &lib.DoubleSigner{Id: ds.Id, Heights: ds.Heights})
			}
			sort.Strings(line.Implicated)
			// proposer-claimed slash lists against the attached evidence
			be := &bft.ByzantineEvidence{DSE: bft.NewDSE([]*bft.DoubleSignEvidence{ev})}
			if len(list) > 0 {
				line.ListOK = judge.ValidateByzantineEvidence(&lib.SlashRecipients{DoubleSigners: list}, be) == nil
			} else {
				line.ListOK = true
			}
			// an extra honest name on the list must be refused
			extra := append(append([]*lib.DoubleSigner{}, list...), &lib.DoubleSigner{Id: w.keys[0].PublicKey().Bytes(), Heights: []uint64{va.rh}})
			already := false
			for _, n := range line.Implicated {
				already = already || n == "n1"
			}
			if !already {
				line.ExtraOK = judge.ValidateByzantineEvidence(&lib.SlashRecipients{DoubleSigners: extra}, be) == nil
			}
			if err := enc.Encode(line); err != nil {
				return err
			}
		}
	}
	return nil
}

func indexOf(s []string, x string) int {
	for i, y := range s {
		if y == x {
			return i
		}
	}
	return 0
}
