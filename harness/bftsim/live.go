package main

import (
	"bufio"
	"bytes"
	"encoding/json"
	"fmt"
	"math/rand"
	"os"
	"sort"
	"strings"
	"time"

	"github.com/canopy-network/canopy/bft"
	"github.com/canopy-network/canopy/lib"
)

// live mode (specs/Liveness.tla, property C15): the real bft.BFT replicas run on a virtual clock. The driver owns the
// phase timers (it fires HandlePhase when the wait the real code computed has elapsed in virtual time) and the network
// (every message an honest replica hands to its controller is delivered, delayed or dropped by the scenario). A run has an
// adversarial prefix (start skews, message loss, a Byzantine leader that forms a certificate and hides it or locks only one
// replica) and, from a chosen time on, synchronous delivery with a Byzantine validator that is silent or keeps misbehaving.
// Recorded: per round after that time who led, which replicas were in the round, whether a block was committed.

type RoundRec struct {
	R            uint64   `json:"r"`
	Leader       string   `json:"leader"` // as chosen by the honest replicas ("" = they disagreed or chose nobody)
	LeaderHonest bool     `json:"leaderHonest"`
	InRound      []string `json:"inRound"` // honest replicas that ran their ELECTION_VOTE phase in this round after the network healed
	Committed    bool     `json:"committed"`
	Spread       int64    `json:"spread"`  // between the first and the last honest replica entering the round's ELECTION_VOTE phase
	MinWait      int64    `json:"minWait"` // the shortest phase wait of the round
	Aligned      bool     `json:"aligned"` // spread + 2 * delta < minWait: every message of a phase arrives before the next phase fires
}

type LiveLine struct {
	E                  string     `json:"e"` // "live"
	Prefix             string     `json:"prefix"`
	Byz                string     `json:"byz"`
	Delta              int64      `json:"delta"`
	Skew               []int64    `json:"skew"`
	HealAt             int64      `json:"healAt"`
	RoundsAtHeal       []uint64   `json:"roundsAtHeal"`
	LockedAtHeal       []string   `json:"lockedAtHeal"`
	Rounds             []RoundRec `json:"rounds"`
	Committed          bool       `json:"committed"`
	CommitValue        string     `json:"commitValue"`
	RoundsToCommit     int        `json:"roundsToCommit"`     // rounds started after the heal until the commit (counting from the highest round at heal)
	HonestLeaderRounds int        `json:"honestLeaderRounds"` // of those, rounds led by an honest validator in which all honest replicas took part
	Agreement          bool       `json:"agreement"`
	Notes              []string   `json:"notes"`
}

type delivery struct {
	at  int64
	to  int
	msg *bft.Message
	seq int
}

type liveSim struct {
	w              *world
	rng            *rand.Rand
	now            int64
	fireAt         map[int]int64
	queue          []delivery
	cursor         int
	seq            int
	healAt         int64
	delta          int64
	prefix         string
	byzPlan        string
	byzIdx         int
	hidden         *lib.QuorumCertificate // a PROPOSE_VOTE certificate only the Byzantine validator holds
	hiddenRnd      uint64
	leaderOf       map[uint64]map[int]int // round -> honest node -> leader index it voted for
	inRound        map[uint64]map[int]bool
	evAt           map[uint64]map[int]int64
	atHeal         func()
	notes          []string
	byzSent        map[string]bool
	lockedBy       int64
	newCommitteeAt int64 // locked-new-committee: when the root chain announces a re-ordered committee (0 = never)
}

func (s *liveSim) note(f string, a ...any) {
	if len(s.notes) < 60 {
		s.notes = append(s.notes, fmt.Sprintf("t=%d ", s.now)+fmt.Sprintf(f, a...))
	}
}

// the wait the real code armed after HandlePhase (SetTimerForNextPhase): that of the phase it just left
func waitAfter(b *bft.BFT) int64 {
	var prev lib.Phase
	switch b.Phase {
	case bft.Election:
		return 0 // after PACEMAKER
	case bft.Pacemaker:
		prev = bft.RoundInterrupt
	default:
		prev = b.Phase - 1
	}
	return b.WaitTime(prev, b.Round).Milliseconds()
}

func (s *liveSim) schedule(from int, m *sent) {
	targets := []int{}
	if m.toAll {
		for i := range s.w.keys {
			targets = append(targets, i)
		}
	} else if m.to >= 0 {
		targets = append(targets, m.to)
	}
	for _, to := range targets {
		lat := int64(1 + s.rng.Intn(int(s.delta)))
		if s.now < s.healAt && !s.w.byz[to] && to != from {
			// before the heal the adversary owns the network
			switch s.prefix {
			case "loss":
				if s.rng.Intn(2) == 0 {
					continue
				}
			case "partition": // n1 cut off
				if to == 0 || from == 0 {
					continue
				}
			case "blackout":
				continue
			case "all-locked", "locked-new-committee": // an honest leader's round runs until every replica is locked, then nothing gets through
				if s.now > s.lockedBy {
					continue
				}
			}
		}
		s.seq++
		s.queue = append(s.queue, delivery{at: s.now + lat, to: to, msg: m.msg, seq: s.seq})
	}
}

func (s *liveSim) drainOut() {
	s.w.mu.Lock()
	fresh := append([]*sent{}, s.w.out[s.cursor:]...)
	s.cursor = len(s.w.out)
	s.w.mu.Unlock()
	for _, m := range fresh {
		s.schedule(m.from, m)
	}
}

func (s *liveSim) fire(i int) {
	c := s.w.nodes[i]
	b := c.b
	ph, rnd := b.Phase, b.Round
	if ph == bft.ElectionVote {
		if s.now >= s.healAt {
			if s.inRound[rnd] == nil {
				s.inRound[rnd] = map[int]bool{}
			}
			s.inRound[rnd][i] = true
			if s.evAt[rnd] == nil {
				s.evAt[rnd] = map[int]int64{}
			}
			s.evAt[rnd][i] = s.now
		}
	}
	s.w.mu.Lock()
	glb := len(s.w.gateLog)
	s.w.mu.Unlock()
	c.fire()
	if ph == bft.CommitProcess {
		s.w.settleCommit(i, glb)
	}
	if ph == bft.ElectionVote {
		// whom did it vote for? the last message it handed to the transport
		s.w.mu.Lock()
		for k := len(s.w.out) - 1; k >= 0; k-- {
			m := s.w.out[k]
			if m.from == i && m.msg.Qc != nil && m.msg.Qc.Header != nil && m.msg.Qc.Header.Phase == lib.Phase_ELECTION_VOTE && m.msg.Qc.Header.Round == rnd {
				if s.leaderOf[rnd] == nil {
					s.leaderOf[rnd] = map[int]int{}
				}
				s.leaderOf[rnd][i] = s.w.idx(s.w.nameOfKey(m.msg.Qc.ProposerKey))
				break
			}
		}
		s.w.mu.Unlock()
	}
	s.drainOut()
	if _, done := s.w.commits[i]; done {
		delete(s.fireAt, i)
		return
	}
	if ph == bft.CommitProcess && b.Phase == bft.CommitProcess { // no timer is armed: the replica waits for the block to be committed
		delete(s.fireAt, i)
		return
	}
	s.fireAt[i] = s.now + waitAfter(b)
}

// ---- the Byzantine validator ---------------------------------------------------------------------------------------

func (s *liveSim) byzReceive(m *bft.Message) {
	w, me := s.w, s.byzIdx
	if m.Qc == nil || m.Qc.Header == nil || m.Header != nil {
		return
	}
	h := m.Qc.Header
	// as the leader of a round in the prefix: propose on election votes, certify on propose votes, then go quiet
	if s.now < s.healAt && (s.prefix == "hidden-qc" || s.prefix == "one-locked") && bytes.Equal(m.Qc.ProposerKey, w.keys[me].PublicKey().Bytes()) && h.Phase == lib.Phase_ELECTION_VOTE {
		key := fmt.Sprintf("propose-%d", h.Round)
		votes := 0
		w.mu.Lock()
		for _, x := range w.out {
			if x.msg.Header == nil && x.msg.Qc != nil && x.msg.Qc.Header.Phase == lib.Phase_ELECTION_VOTE && x.msg.Qc.Header.Round == h.Round && bytes.Equal(x.msg.Qc.ProposerKey, w.keys[me].PublicKey().Bytes()) {
				votes++
			}
		}
		w.mu.Unlock()
		if votes >= 2 && !s.byzSent[key] { // two honest votes + our own = +2/3 of four equal validators
			s.byzSent[key] = true
			msg, err := w.byzMsg(&MsgRec{Some: true, From: w.names[me], Rnd: h.Round, Ph: "P", Val: "q", Q: QCRec{Some: true, RH: h.RootHeight, Rnd: h.Round, Ph: "EV", Ldr: w.names[me]}})
			if err != nil {
				s.note("byz propose failed: %v", err)
				return
			}
			s.note("byz leader proposes q in round %d", h.Round)
			for i := range w.keys {
				if !w.byz[i] {
					s.seq++
					s.queue = append(s.queue, delivery{at: s.now + 1, to: i, msg: msg, seq: s.seq})
				}
			}
		}
	}
	if s.now < s.healAt && (s.prefix == "hidden-qc" || s.prefix == "one-locked") && h.Phase == lib.Phase_PROPOSE_VOTE && s.hidden == nil {
		q := QCRec{Some: true, RH: h.RootHeight, Rnd: h.Round, Ph: "PV", Val: "q", Ldr: w.names[me]}
		votes := 0
		bare, _ := w.bareQC(q)
		sb := bare.SignBytes()
		w.mu.Lock()
		for _, x := range w.out {
			if x.msg.Header == nil && x.msg.IsReplicaMessage() && bytes.Equal(x.msg.SignBytes(), sb) {
				votes++
			}
		}
		w.mu.Unlock()
		if votes >= 2 {
			qc, err := w.buildQC(q, true)
			if err != nil {
				s.note("byz certificate failed: %v", err)
				return
			}
			s.hidden, s.hiddenRnd = qc, h.Round
			s.note("byz holds a PROPOSE_VOTE certificate for q of round %d (%d honest votes)", h.Round, votes)
			if s.prefix == "one-locked" { // the PRECOMMIT message goes to n1 only: n1 locks, the others never hear of it
				msg, e := w.byzMsg(&MsgRec{Some: true, From: w.names[me], Rnd: h.Round, Ph: "PC", Val: "q", Q: q})
				if e == nil {
					s.seq++
					s.queue = append(s.queue, delivery{at: s.now + 1, to: 0, msg: msg, seq: s.seq})
				}
			}
		}
	}
}

// after the heal: per round, the Byzantine validator may hand the leader a vote carrying its certificate
func (s *liveSim) byzAct(rnd uint64, rootH uint64) {
	if s.hidden == nil || s.byzSent[fmt.Sprintf("ev-%d", rnd)] {
		return
	}
	if s.byzPlan != "highqc-without-block" && s.byzPlan != "highqc-with-block" {
		return
	}
	s.byzSent[fmt.Sprintf("ev-%d", rnd)] = true
	w, me := s.w, s.byzIdx
	hq := &lib.QuorumCertificate{Header: s.hidden.Header, BlockHash: s.hidden.BlockHash, ResultsHash: s.hidden.ResultsHash, ProposerKey: s.hidden.ProposerKey, Signature: s.hidden.Signature}
	if s.byzPlan == "highqc-with-block" {
		hq.Block, hq.Results = s.hidden.Block, s.hidden.Results
	}
	for i := range w.keys {
		if w.byz[i] {
			continue
		}
		// a vote naming replica i as the proposer: only the replica that really leads the round counts it
		msg := &bft.Message{Qc: &lib.QuorumCertificate{Header: view(rootH, rnd, lib.Phase_ELECTION_VOTE), ProposerKey: w.keys[i].PublicKey().Bytes()}, HighQc: hq, RcBuildHeight: rootH}
		_ = msg.Sign(w.keys[me])
		s.seq++
		s.queue = append(s.queue, delivery{at: s.now + 1, to: i, msg: msg, seq: s.seq})
	}
}

// newCommittee: the root chain moves to the next height with the same validators in another order and with more power for
// the Byzantine one (honest power stays above 2/3); every replica resets for the new committee and keeps its lock
func (s *liveSim) newCommittee() {
	w := s.w
	w.rootH++
	cv := &lib.ConsensusValidators{}
	order := []int{3, 2, 0, 1}
	for _, i := range order {
		p := uint64(100)
		if w.byz[i] {
			p = 130
		}
		cv.ValidatorSet = append(cv.ValidatorSet, &lib.ConsensusValidator{PublicKey: w.keys[i].PublicKey().Bytes(), VotingPower: p})
	}
	vs, err := lib.NewValidatorSet(cv)
	if err != nil {
		s.note("new committee: %v", err)
		return
	}
	w.vsByRoot[w.rootH] = vs
	for i, c := range w.nodes {
		if w.byz[i] {
			continue
		}
		c.rootH = w.rootH
		c.Lock()
		c.b.NewHeight(true)
		c.Unlock()
		s.fireAt[i] = s.now + 50 + int64(s.rng.Intn(300))
	}
	s.note("root height %d: committee re-ordered, replicas reset keeping their locks", w.rootH)
}

func (s *liveSim) run(maxRoundsAfterHeal uint64) {
	w := s.w
	healRound := uint64(0)
	healed := false
	for steps := 0; steps < 200000; steps++ {
		// next event
		next, who := int64(-1), -1
		for i, t := range s.fireAt {
			if next < 0 || t < next || (t == next && i < who) {
				next, who = t, i
			}
		}
		sort.SliceStable(s.queue, func(a, b int) bool {
			if s.queue[a].at != s.queue[b].at {
				return s.queue[a].at < s.queue[b].at
			}
			return s.queue[a].seq < s.queue[b].seq
		})
		if len(s.queue) > 0 && (next < 0 || s.queue[0].at <= next) {
			d := s.queue[0]
			s.queue = s.queue[1:]
			s.now = d.at
			if w.byz[d.to] {
				s.byzReceive(d.msg)
			} else if _, done := w.commits[d.to]; !done {
				if e := w.deliver(d.to, d.msg); e != "" && d.msg.Signature != nil && bytes.Equal(d.msg.Signature.PublicKey, w.keys[s.byzIdx].PublicKey().Bytes()) {
					s.note("%s refused a message of the Byzantine validator: %s", w.names[d.to], strings.ReplaceAll(e, "\n", " "))
				}
			}
			continue
		}
		if next < 0 {
			return
		}
		s.now = next
		if s.newCommitteeAt > 0 && s.now >= s.newCommitteeAt {
			s.newCommittee()
			s.newCommitteeAt = 0
			continue
		}
		if !healed && s.now >= s.healAt {
			healed = true
			if s.atHeal != nil {
				s.atHeal()
			}
			for i, c := range w.nodes {
				if !w.byz[i] && c.b.Round > healRound {
					healRound = c.b.Round
				}
			}
		}
		b := w.nodes[who].b
		if healed && (b.Phase == bft.Election || b.Phase == bft.ElectionVote) {
			s.byzAct(b.Round, b.RootHeight)
		}
		s.fire(who)
		done := true
		for i := range w.keys {
			if _, ok := w.commits[i]; !w.byz[i] && !ok {
				done = false
			}
		}
		if done {
			return
		}
		if healed {
			for i, c := range w.nodes {
				if !w.byz[i] && c.b.Round > healRound+maxRoundsAfterHeal {
					return
				}
			}
		}
	}
}

func liveMode(seed int64, runs int, outPath string) error {
	f, err := os.Create(outPath)
	if err != nil {
		return err
	}
	defer f.Close()
	bw := bufio.NewWriterSize(f, 1<<20)
	defer bw.Flush()
	enc := json.NewEncoder(bw)
	rng := rand.New(rand.NewSource(seed))
	commitTimeoutMS = lib.DefaultConfig().CommitTimeoutMS
	strictBuildHeight = true
	prefixes := []string{"none", "skew", "loss", "partition", "blackout", "hidden-qc", "one-locked", "all-locked", "locked-new-committee"}
	plans := []string{"silent", "highqc-with-block", "highqc-without-block"}
	names := []string{"n1", "n2", "n3", "b1"}
	const maxRounds = 10
	for r := 0; r < runs; r++ {
		prefix := prefixes[r%len(prefixes)]
		plan := plans[(r/len(prefixes))%len(plans)]
		if prefix != "hidden-qc" && prefix != "one-locked" {
			plan = "silent"
		}
		w, err := newWorld(names, map[string]bool{"b1": true}, nil, []string{"p", "q"})
		if err != nil {
			return err
		}
		for i, c := range w.nodes {
			if !w.byz[i] {
				c.next = "p"
			}
		}
		s := &liveSim{w: w, rng: rng, fireAt: map[int]int64{}, delta: int64(20 + rng.Intn(400)), prefix: prefix, byzPlan: plan, byzIdx: 3,
			leaderOf: map[uint64]map[int]int{}, inRound: map[uint64]map[int]bool{}, evAt: map[uint64]map[int]int64{}, byzSent: map[string]bool{}}
		// sortition seed: for the Byzantine-leader prefixes round 0 must fall to b1 uncontested
		for try := 0; try < 200000; try++ {
			w.seeds[1] = [][]byte{{1}, {byte(try)}, {byte(try >> 8)}, {byte(r)}, {byte(seed)}}
			if prefix != "hidden-qc" && prefix != "one-locked" {
				break
			}
			if w.fallback(1, 0) == 3 && !w.isCandidate(0, 1, 0) && !w.isCandidate(1, 1, 0) && !w.isCandidate(2, 1, 0) {
				break
			}
		}
		line := LiveLine{E: "live", Prefix: prefix, Byz: plan, Delta: s.delta, Skew: []int64{}, RoundsAtHeal: []uint64{}, LockedAtHeal: []string{}, Rounds: []RoundRec{}, Notes: []string{}}
		round0 := int64(0)
		for _, p := range []lib.Phase{bft.Election, bft.ElectionVote, bft.Propose, bft.ProposeVote, bft.Precommit, bft.PrecommitVote, bft.Commit} {
			round0 += w.nodes[0].b.WaitTime(p, 0).Milliseconds()
		}
		for i := range w.keys {
			if w.byz[i] {
				continue
			}
			sk := int64(0)
			switch prefix {
			case "skew":
				sk = int64(rng.Intn(int(round0)))
			case "none":
			default:
				sk = int64(rng.Intn(800))
			}
			line.Skew = append(line.Skew, sk)
			s.fireAt[i] = sk
		}
		switch prefix {
		case "none":
			s.healAt = 0
		case "skew":
			s.healAt = 0
		case "hidden-qc", "one-locked": // right after the Byzantine leader's round
			s.healAt = round0 + 1000
		case "all-locked", "locked-new-committee":
			s.healAt = round0 + 1000
			for _, p := range []lib.Phase{bft.Election, bft.ElectionVote, bft.Propose, bft.ProposeVote} {
				s.lockedBy += w.nodes[0].b.WaitTime(p, 0).Milliseconds()
			}
			if prefix == "locked-new-committee" {
				s.newCommitteeAt = round0 + 500
			}
			s.lockedBy += 1500 // the leader's PRECOMMIT message has arrived everywhere (skew < 800 ms, delay < 420 ms): every replica locks; the votes are lost
		default:
			s.healAt = round0 + int64(rng.Intn(int(2*round0)))
		}
		s.atHeal = func() {
			for i, c := range w.nodes {
				if w.byz[i] {
					continue
				}
				line.RoundsAtHeal = append(line.RoundsAtHeal, c.b.Round)
				if c.b.HighQC != nil {
					line.LockedAtHeal = append(line.LockedAtHeal, names[i])
				}
			}
		}
		line.HealAt = s.healAt
		// run; the state at the heal is recorded when it passes
		s.run(maxRounds)
		// summary
		base := uint64(0)
		first := true
		var rounds []uint64
		for rnd := range s.inRound {
			rounds = append(rounds, rnd)
		}
		sort.Slice(rounds, func(i, j int) bool { return rounds[i] < rounds[j] })
		commitRound := int64(-1)
		vals := map[string]bool{}
		for i := range w.keys {
			if v, ok := w.commits[i]; ok {
				vals[v] = true
				line.CommitValue = v
				if q := w.commitQ[i]; q != nil && (commitRound < 0 || int64(q.Header.Round) < commitRound) {
					commitRound = int64(q.Header.Round)
				}
			}
		}
		line.Agreement = len(vals) <= 1
		line.Committed = len(w.commits) == 3
		for _, rnd := range rounds {
			if first {
				base, first = rnd, false
			}
			rec := RoundRec{R: rnd, InRound: []string{}}
			ldr := -2
			for i := range w.keys {
				if s.inRound[rnd][i] {
					rec.InRound = append(rec.InRound, names[i])
				}
				if l, ok := s.leaderOf[rnd][i]; ok {
					if ldr == -2 {
						ldr = l
					} else if ldr != l {
						ldr = -1
					}
				}
			}
			if ldr >= 0 {
				rec.Leader, rec.LeaderHonest = names[ldr], !w.byz[ldr]
			}
			lo, hi := int64(-1), int64(-1)
			for _, t := range s.evAt[rnd] {
				if lo < 0 || t < lo {
					lo = t
				}
				if t > hi {
					hi = t
				}
			}
			rec.Spread = hi - lo
			rec.MinWait = w.nodes[0].b.WaitTime(bft.Election, rnd).Milliseconds()
			rec.Aligned = rec.Spread+2*s.delta < rec.MinWait
			rec.Committed = commitRound >= 0 && int64(rnd) == commitRound
			line.Rounds = append(line.Rounds, rec)
			if commitRound < 0 || int64(rnd) <= commitRound {
				line.RoundsToCommit++
				if rec.LeaderHonest && len(rec.InRound) == 3 {
					line.HonestLeaderRounds++
				}
			}
		}
		_ = base
		line.Notes = append(line.Notes, s.notes...)
		line.Notes = append(line.Notes, w.gateLog...)
		if len(line.Notes) > 40 {
			line.Notes = line.Notes[:40]
		}
		if err := enc.Encode(line); err != nil {
			return err
		}
	}
	_ = time.Now
	return nil
}
