package main

import (
	"bufio"
	"encoding/json"
	"fmt"
	"os"
)

// Script is a behaviour of specs/Consensus.tla (sequence of `last` records) plus the committee
type Script struct {
	ID      string   `json:"id"`
	Names   []string `json:"names"`
	Byz     []string `json:"byz"`
	Values  []string `json:"values"`
	Power   []uint64 `json:"power,omitempty"`
	Actions []Action `json:"actions"`
}

// LogAction is an Action with every field present (the TLA+ trace reader wants uniform records)
type LogAction struct {
	A     string   `json:"a"`
	N     string   `json:"n"`
	L     string   `json:"l"`
	S     []string `json:"S"`
	Fresh string   `json:"fresh"`
	M     MsgRec   `json:"m"`
	Q     QCRec    `json:"q"`
	R     uint64   `json:"r"`
}

func logAction(a *Action, name string) LogAction {
	la := LogAction{A: name, S: []string{}}
	if a == nil {
		return la
	}
	la.A, la.N, la.L, la.Fresh, la.R = a.A, a.N, a.L, a.Fresh, a.R
	if a.S != nil {
		la.S = a.S
	}
	if a.M != nil {
		la.M = *a.M
	}
	if a.Q != nil {
		la.Q = *a.Q
	}
	return la
}

type Line struct {
	Script string               `json:"script"`
	I      int                  `json:"i"`
	A      LogAction            `json:"a"`
	Note   string               `json:"note"`
	RootH  uint64               `json:"rootH"`
	St     map[string]NodeState `json:"st"`
	End    bool                 `json:"end"`
	Err    string               `json:"err"`
	Agree  bool                 `json:"agreement"`
	Gate   []string             `json:"gate"`
}

func noGate() []string { return []string{} }

func (w *world) snapshot() map[string]NodeState {
	st := map[string]NodeState{}
	for i, n := range w.names {
		if !w.byz[i] {
			st[n] = w.project(i)
		}
	}
	return st
}

func runScript(sc *Script, out *bufio.Writer) (infeasible bool) {
	enc := json.NewEncoder(out)
	byz := map[string]bool{}
	for _, b := range sc.Byz {
		byz[b] = true
	}
	w, err := newWorld(sc.Names, byz, sc.Power, sc.Values)
	if err != nil {
		_ = enc.Encode(Line{Script: sc.ID, A: logAction(nil, "Abort"), End: true, Agree: true, Err: "setup: " + err.Error(), St: map[string]NodeState{}, Gate: noGate()})
		return true
	}
	if err = w.chooseSeeds(sc.Actions); err != nil {
		_ = enc.Encode(Line{Script: sc.ID, A: logAction(nil, "Abort"), End: true, Agree: true, Err: "setup: " + err.Error(), St: map[string]NodeState{}, Gate: noGate()})
		return true
	}
	_ = enc.Encode(Line{Script: sc.ID, I: 0, A: logAction(nil, "Start"), Agree: true, RootH: w.rootH, St: w.snapshot(), Gate: noGate()})
	for i := range sc.Actions {
		a := sc.Actions[i]
		note, e := w.exec(a)
		if e != nil {
			_ = enc.Encode(Line{Script: sc.ID, I: i + 1, A: logAction(&a, ""), End: true, Agree: w.agreement(), Err: e.Error(), RootH: w.rootH, St: w.snapshot(), Gate: noGate()})
			return true
		}
		_ = enc.Encode(Line{Script: sc.ID, I: i + 1, A: logAction(&a, ""), Note: note, Agree: w.agreement(), RootH: w.rootH, St: w.snapshot(), Gate: noGate()})
	}
	settle()
	w.mu.Lock()
	gl := append(noGate(), w.gateLog...)
	w.mu.Unlock()
	_ = enc.Encode(Line{Script: sc.ID, I: len(sc.Actions) + 1, A: logAction(nil, "End"), End: true, Agree: w.agreement(), RootH: w.rootH, St: w.snapshot(), Gate: gl})
	return false
}

// agreement: no two honest replicas committed different values (property C01 on the real state)
func (w *world) agreement() bool {
	w.mu.Lock()
	defer w.mu.Unlock()
	first := ""
	for i := range w.names {
		if tag, ok := w.commits[i]; ok && !w.byz[i] {
			if first == "" {
				first = tag
			} else if tag != first {
				return false
			}
		}
	}
	return true
}

// usage: bftsim replay <scripts.ndjson> <out.ndjson>    (one Script JSON per input line)
func main() {
	if len(os.Args) >= 5 && os.Args[1] == "election" {
		var seed, cases int64
		fmt.Sscan(os.Args[2], &seed)
		fmt.Sscan(os.Args[3], &cases)
		if err := electionMode(seed, int(cases), os.Args[4]); err != nil {
			fmt.Fprintln(os.Stderr, err)
			os.Exit(2)
		}
		return
	}
	if len(os.Args) >= 5 && os.Args[1] == "live" {
		var seed, runs int64
		fmt.Sscan(os.Args[2], &seed)
		fmt.Sscan(os.Args[3], &runs)
		if err := liveMode(seed, int(runs), os.Args[4]); err != nil {
			fmt.Fprintln(os.Stderr, err)
			os.Exit(2)
		}
		return
	}
	if len(os.Args) >= 5 && os.Args[1] == "evidence" {
		var seed, logs int64
		fmt.Sscan(os.Args[2], &seed)
		fmt.Sscan(os.Args[3], &logs)
		if err := evidenceMode(seed, int(logs), os.Args[4]); err != nil {
			fmt.Fprintln(os.Stderr, err)
			os.Exit(2)
		}
		return
	}
	if len(os.Args) < 4 || os.Args[1] != "replay" {
		fmt.Fprintln(os.Stderr, "usage: bftsim replay <scripts.ndjson> <out.ndjson>")
		os.Exit(2)
	}
	in, err := os.Open(os.Args[2])
	if err != nil {
		fmt.Fprintln(os.Stderr, err)
		os.Exit(2)
	}
	defer in.Close()
	of, err := os.Create(os.Args[3])
	if err != nil {
		fmt.Fprintln(os.Stderr, err)
		os.Exit(2)
	}
	defer of.Close()
	out := bufio.NewWriter(of)
	defer out.Flush()
	rd := bufio.NewScanner(in)
	rd.Buffer(make([]byte, 1<<20), 1<<26)
	infeasible := 0
	total := 0
	for rd.Scan() {
		if len(rd.Bytes()) == 0 {
			continue
		}
		sc := new(Script)
		if err := json.Unmarshal(rd.Bytes(), sc); err != nil {
			fmt.Fprintln(os.Stderr, "bad script:", err)
			os.Exit(2)
		}
		total++
		if runScript(sc, out) {
			infeasible++
		}
	}
	fmt.Printf("scripts=%d infeasible=%d\n", total, infeasible)
}
