// bftsim drives N real bft.BFT instances without clocks or sockets: every spec action of
// specs/Consensus.tla ("deliver these messages, then fire the phase timer") is executed against the
// real objects and the real state is projected onto the spec variables after each step.
package main

import (
	"bytes"
	"encoding/hex"
	"fmt"
	"os"
	"sync"
	"sync/atomic"

	"github.com/canopy-network/canopy/bft"
	"github.com/canopy-network/canopy/lib"
	"github.com/canopy-network/canopy/lib/crypto"
)

const (
	netID   = 1
	chainID = 1
	height  = 2
)

var keyHex = []string{
	"00453a101301cd7019b78ffa1186842dd93923e563b8ae22e2ab33ae889b23ee",
	"1b6b244fbdf614acb5f0d00a2b56ffcbe2aa23dabd66365dffcd3f06491ae50a",
	"2ee868f74134032eacba191ca529115c64aa849ac121b75ca79b37420a623036",
	"3e3ab94c10159d63a12cb26aca4b0e76070a987d49dd10fc5f526031e05801da",
	"4a5b244fbdf614acb5f0d00a2b56ffcbe2aa23dabd66365dffcd3f06491ae511",
	"5cc868f74134032eacba191ca529115c64aa849ac121b75ca79b37420a623077",
	"6d3ab94c10159d63a12cb26aca4b0e76070a987d49dd10fc5f526031e0580133",
}

// commit phase wait: the script driven modes have no clock (1 ms); the live mode keeps the default
var commitTimeoutMS = 1

// BFTSIM_SAMEBLOCK: all values share one block and differ in their certificate results only
var sameBlock = os.Getenv("BFTSIM_SAMEBLOCK") != ""

// live mode: the committee was last updated at the current root height and proposals are validated against it
var strictBuildHeight = false

// sent is one message an honest node handed to the transport
type sent struct {
	from   int
	toAll  bool
	to     int // index of the addressed proposer (-1 unknown)
	msg    *bft.Message
	rh     uint64 // sender's root height at send time
	rnd    uint64
	codePh lib.Phase // sender's phase handler that produced it
}

type world struct {
	mu          sync.Mutex
	names       []string // spec names, index = validator index in key order of `keys`
	byz         map[int]bool
	keys        []crypto.PrivateKeyI
	power       []uint64
	vs          lib.ValidatorSet
	rootH       uint64
	nodes       []*ctrl
	out         []*sent
	seeds       map[uint64][][]byte               // root height -> LastProposers addresses (sortition seed)
	values      map[string][]byte                 // value tag -> block bytes
	tagOf       map[string]string                 // hex(block hash) + hex(results hash) -> value tag
	resOf       map[string]*lib.CertificateResult // value tag -> certificate results
	vsByRoot    map[uint64]lib.ValidatorSet       // live mode: committee per root height (default: vs)
	lastUpdated uint64                            // live mode: CommitteeData.LastRootHeightUpdated
	results     *lib.CertificateResult
	commits     map[int]string // node -> committed value tag
	commitQ     map[int]*lib.QuorumCertificate
	gateLog     []string
}

// ctrl implements bft.Controller for one replica
type ctrl struct {
	sync.Mutex
	w        *world
	id       int
	b        *bft.BFT
	rootH    uint64 // the root height this node knows
	next     string // value tag the next ProduceProposal returns
	syncing  atomic.Bool
	cpDone   bool
	curPhase lib.Phase
}

func (c *ctrl) ChainHeight() uint64     { return height }
func (c *ctrl) RootChainHeight() uint64 { return c.rootH }
func (c *ctrl) ProduceProposal(be *bft.ByzantineEvidence, vdf *crypto.VDF) (uint64, []byte, *lib.CertificateResult, lib.ErrorI) {
	blk, ok := c.w.values[c.next]
	if !ok {
		return 0, nil, nil, lib.ErrNilBlock()
	}
	return c.rootH, blk, c.w.resOf[c.next], nil
}
func (c *ctrl) ValidateProposal(rc uint64, qc *lib.QuorumCertificate, ev *bft.ByzantineEvidence) (*lib.BlockResult, lib.ErrorI) {
	if strictBuildHeight && (rc > c.rootH || rc < c.w.lastUpdated) { // live mode: built at a root height the replicas know and not older than the committee data
		return nil, lib.ErrInvalidRCBuildHeight()
	}
	return &lib.BlockResult{}, nil
}
func (c *ctrl) LoadCertificate(h uint64) (*lib.QuorumCertificate, lib.ErrorI) {
	return nil, lib.ErrEmptyQuorumCertificate()
}
func (c *ctrl) CommitCertificate(qc *lib.QuorumCertificate, b *lib.Block, br *lib.BlockResult, ts uint64) lib.ErrorI {
	return nil
}
func (c *ctrl) GossipBlock(qc *lib.QuorumCertificate, sender []byte, ts uint64) {}
func (c *ctrl) GossipConsensus(m *bft.Message, ex []byte)                       {}

// gate re-implements exactly the certificate gate of controller.HandlePeerBlock (property C02 checks the
// real one): CheckBasic, committee of the certificate's root height, Check, not partial, proposal binding,
// commit-justifying phase.
func (w *world) gate(node int, qc *lib.QuorumCertificate) (string, error) {
	if err := qc.CheckBasic(); err != nil {
		return "", err
	}
	vs := w.vs
	if v, ok := w.vsByRoot[qc.Header.RootHeight]; ok { // the committee in force at the certificate's root height
		vs = v
	}
	partial, err := qc.Check(vs, 1<<30, &lib.View{NetworkId: netID, ChainId: chainID}, false)
	if err != nil {
		return "", err
	}
	if partial {
		return "", lib.ErrNoMaj23()
	}
	// proposal binding (CheckProposalBasic without the header well-formedness rules: the driver's blocks are opaque)
	if qc.Block == nil || qc.Results == nil || qc.Header.Height != height || !bytes.Equal(blockHash(qc.Block), qc.BlockHash) {
		return "", lib.ErrMismatchQCBlockHash()
	}
	if qc.Header.Phase != lib.Phase_PRECOMMIT_VOTE {
		return "", lib.ErrWrongPhase()
	}
	tag, ok := w.tagOf[hex.EncodeToString(qc.BlockHash)+hex.EncodeToString(qc.ResultsHash)]
	if !ok {
		return "", fmt.Errorf("unknown block")
	}
	return tag, nil
}

func (c *ctrl) SelfSendBlock(qc *lib.QuorumCertificate, ts uint64) {
	tag, err := c.w.gate(c.id, qc)
	c.w.mu.Lock()
	defer c.w.mu.Unlock()
	if err != nil {
		c.w.gateLog = append(c.w.gateLog, fmt.Sprintf("node %d gate refused: %v", c.id, err))
		return
	}
	if _, done := c.w.commits[c.id]; !done {
		c.w.commits[c.id] = tag
		c.w.commitQ[c.id] = qc
	}
}
func (c *ctrl) record(toAll bool, to int, msg *bft.Message) {
	c.w.mu.Lock()
	defer c.w.mu.Unlock()
	c.w.out = append(c.w.out, &sent{from: c.id, toAll: toAll, to: to, msg: msg, rh: c.b.RootHeight, rnd: c.b.Round, codePh: c.curPhase})
}
func (c *ctrl) SendToReplicas(r lib.ValidatorSet, msg lib.Signable) {
	_ = msg.Sign(c.w.keys[c.id])
	c.record(true, -1, msg.(*bft.Message))
}
func (c *ctrl) SendToProposer(msg lib.Signable) {
	_ = msg.Sign(c.w.keys[c.id])
	to := -1
	for i, k := range c.w.keys {
		if bytes.Equal(k.PublicKey().Bytes(), c.b.ProposerKey) {
			to = i
		}
	}
	c.record(false, to, msg.(*bft.Message))
}
func (c *ctrl) LoadRootChainId(h uint64) uint64                    { return chainID }
func (c *ctrl) LoadIsOwnRoot() bool                                { return false }
func (c *ctrl) Syncing() *atomic.Bool                              { return &c.syncing }
func (c *ctrl) ResetFSM()                                          {}
func (c *ctrl) SendCertificateResultsTx(qc *lib.QuorumCertificate) {}
func (c *ctrl) LoadCommittee(rc, rh uint64) (lib.ValidatorSet, lib.ErrorI) {
	if vs, ok := c.w.vsByRoot[rh]; ok { // live mode: the committee can change with the root height
		return vs, nil
	}
	return c.w.vs, nil
}
func (c *ctrl) LoadCommitteeData() (*lib.CommitteeData, lib.ErrorI) {
	if strictBuildHeight {
		return &lib.CommitteeData{ChainId: chainID, LastRootHeightUpdated: c.w.lastUpdated}, nil
	}
	return &lib.CommitteeData{ChainId: chainID}, nil
}
func (c *ctrl) LoadLastProposers(rh uint64) (*lib.Proposers, lib.ErrorI) {
	return &lib.Proposers{Addresses: c.w.seedFor(rh)}, nil
}
func (c *ctrl) LoadMinimumEvidenceHeight(rc, rh uint64) (*uint64, lib.ErrorI) {
	z := uint64(0)
	return &z, nil
}
func (c *ctrl) IsValidDoubleSigner(rc, rh uint64, a []byte) bool { return true }
func (c *ctrl) LoadMaxBlockSize() int                            { return 1 << 30 }

func (w *world) seedFor(rh uint64) [][]byte {
	if s, ok := w.seeds[rh]; ok {
		return s
	}
	return [][]byte{{byte(rh)}, {2}, {3}, {4}, {5}}
}

func mkBlock(n int) []byte {
	blk := &lib.Block{BlockHeader: &lib.BlockHeader{Height: height, Time: uint64(1000 + n), NetworkId: netID, ProposerAddress: bytes.Repeat([]byte{byte(n)}, 20)}}
	bz, _ := lib.Marshal(blk)
	return bz
}

func blockHash(blk []byte) []byte {
	h, _ := new(lib.Block).BytesToBlockHash(blk)
	return h
}

// newWorld builds the committee: names[i] is the spec name of validator i, byz marks Byzantine ones
func newWorld(names []string, byz map[string]bool, power []uint64, valueTags []string) (*world, error) {
	w := &world{names: names, byz: map[int]bool{}, rootH: 1, seeds: map[uint64][][]byte{}, values: map[string][]byte{},
		vsByRoot: map[uint64]lib.ValidatorSet{}, lastUpdated: 1, tagOf: map[string]string{}, resOf: map[string]*lib.CertificateResult{}, commits: map[int]string{}, commitQ: map[int]*lib.QuorumCertificate{}}
	w.results = &lib.CertificateResult{RewardRecipients: &lib.RewardRecipients{PaymentPercents: []*lib.PaymentPercents{{Address: bytes.Repeat([]byte{1}, 20), Percent: 100, ChainId: chainID}}}, SlashRecipients: &lib.SlashRecipients{}}
	for i, tag := range valueTags {
		w.values[tag] = mkBlock(i + 1)
		w.resOf[tag] = w.results
		if sameBlock && i > 0 { // the values differ in their certificate results only: same block as the first value
			w.values[tag] = w.values[valueTags[0]]
			w.resOf[tag] = &lib.CertificateResult{RewardRecipients: &lib.RewardRecipients{PaymentPercents: []*lib.PaymentPercents{{Address: bytes.Repeat([]byte{byte(i + 1)}, 20), Percent: 100, ChainId: chainID}}}, SlashRecipients: &lib.SlashRecipients{}}
		}
		w.tagOf[hex.EncodeToString(blockHash(w.values[tag]))+hex.EncodeToString(w.resOf[tag].Hash())] = tag
	}
	cv := &lib.ConsensusValidators{}
	for i, n := range names {
		k, err := crypto.StringToBLS12381PrivateKey(keyHex[i])
		if err != nil {
			return nil, err
		}
		w.keys = append(w.keys, k)
		p := uint64(100)
		if power != nil {
			p = power[i]
		}
		w.power = append(w.power, p)
		cv.ValidatorSet = append(cv.ValidatorSet, &lib.ConsensusValidator{PublicKey: k.PublicKey().Bytes(), VotingPower: p})
		if byz[n] {
			w.byz[i] = true
		}
	}
	var err lib.ErrorI
	if w.vs, err = lib.NewValidatorSet(cv); err != nil {
		return nil, err
	}
	cfg := lib.DefaultConfig()
	cfg.RunVDF = false
	cfg.CommitTimeoutMS = commitTimeoutMS
	cfg.NetworkID, cfg.ChainId = netID, chainID
	for i := range w.keys {
		c := &ctrl{w: w, id: i, rootH: 1}
		w.nodes = append(w.nodes, c)
		if w.byz[i] {
			continue
		}
		var lg lib.LoggerI = lib.NewNullLogger()
		if os.Getenv("BFTSIM_LOG") != "" {
			lg = lib.NewDefaultLogger()
		}
		b, e := bft.New(cfg, w.keys[i], 1, height, c, false, nil, lg)
		if e != nil {
			return nil, e
		}
		b.ValidatorSet = w.vs
		b.CommitteeData, _ = c.LoadCommitteeData()
		c.b = b
		b.NewHeight(false)
	}
	return w, nil
}

func (w *world) idx(name string) int {
	for i, n := range w.names {
		if n == name {
			return i
		}
	}
	return -1
}

func (w *world) nameOfKey(pk []byte) string {
	for i, k := range w.keys {
		if bytes.Equal(k.PublicKey().Bytes(), pk) {
			return w.names[i]
		}
	}
	return ""
}
