// muxx drives real p2p.MultiConn pairs for specs/Mux.tla (C18).
//
//	muxx run <seed> <cases> <out.ndjson> [big]
//
// Every case is a fresh pair of p2p.P2P instances joined over net.Pipe through the real handshake. Case kinds:
// concurrent senders across all topics in both directions (sizes around the packet boundary), a full inbox that is
// drained afterwards, and foreign traffic produced by a peer that speaks the wire protocol itself.
package main

import (
	"bufio"
	"bytes"
	"crypto/cipher"
	"encoding/binary"
	"encoding/json"
	"fmt"
	"io"
	"math/rand"
	"net"
	"os"
	"strconv"
	"sync"
	"time"

	"github.com/canopy-network/canopy/lib"
	"github.com/canopy-network/canopy/lib/crypto"
	"github.com/canopy-network/canopy/p2p"
	"google.golang.org/protobuf/proto"
	"google.golang.org/protobuf/types/known/anypb"
)

const chunk = 999950 // maxDataChunkSize of p2p/conn.go (checked at start-up through a probe message)

var topics = []lib.Topic{lib.Topic_CONSENSUS, lib.Topic_BLOCK, lib.Topic_BLOCK_REQUEST, lib.Topic_TX, lib.Topic_PEERS_RESPONSE, lib.Topic_PEERS_REQUEST}

type Ev struct {
	E      string `json:"e"`    // case | send | deliver | attack | end
	Kind   string `json:"kind"` // case kind / attack name
	Dir    string `json:"dir"`  // "ab" | "ba"
	Id     int    `json:"id"`   // message identity (unique per case)
	Topic  int    `json:"topic"`
	Len    int    `json:"len"`
	N      int    `json:"n"`        // packets the message needs
	Ok     bool   `json:"ok"`       // send: Send() returned true; deliver: body whole and unmodified; attack: see below
	Sender bool   `json:"senderOK"` // deliver: attributed to the authenticated key of the other end
	Closed bool   `json:"closed"`   // attack: the connection was closed by the receiver
	Count  int    `json:"count"`    // attack/end: messages delivered
	Msg    string `json:"msg"`
}

type side struct {
	p    *p2p.P2P
	key  crypto.PrivateKeyI
	conn *p2p.MultiConn
	dir  string
}

func newP2P(dir string) (*p2p.P2P, crypto.PrivateKeyI) {
	k, _ := crypto.NewBLS12381PrivateKey()
	c := lib.DefaultConfig()
	c.ChainId = 1
	c.ListenAddress = ":0"
	c.DataDirPath = dir
	return p2p.New(k, 1, nil, c, lib.NewNullLogger()), k
}

// one P2P instance per side for the whole run (p2p.New writes package level timeouts: a node has exactly one)
var pa, pb *p2p.P2P
var ka, kb crypto.PrivateKeyI

// gatedConn lets the driver hold back A's writes for a moment (a slow link): the send queues fill up meanwhile
type gatedConn struct {
	net.Conn
	mu sync.RWMutex
}

func (g *gatedConn) Write(b []byte) (int, error) {
	g.mu.RLock()
	defer g.mu.RUnlock()
	return g.Conn.Write(b)
}

var lastGate *gatedConn

func pair(tmp string) (*side, *side, error) {
	p1, c2 := net.Pipe()
	c1 := &gatedConn{Conn: p1}
	lastGate = c1
	a, b := &side{p: pa, key: ka, dir: "ab"}, &side{p: pb, key: kb, dir: "ba"}
	var ea, eb lib.ErrorI
	var wg sync.WaitGroup
	wg.Add(2)
	go func() {
		defer wg.Done()
		a.conn, ea = pa.NewConnection(c1, &lib.PeerInfo{Address: &lib.PeerAddress{PublicKey: kb.PublicKey().Bytes(), NetAddress: "pipe"}})
	}()
	go func() {
		defer wg.Done()
		b.conn, eb = pb.NewConnection(c2, &lib.PeerInfo{Address: &lib.PeerAddress{PublicKey: ka.PublicKey().Bytes(), NetAddress: "pipe"}})
	}()
	wg.Wait()
	if ea != nil || eb != nil {
		return nil, nil, fmt.Errorf("handshake: %v %v", ea, eb)
	}
	return a, b, nil
}

func body(id, n int) []byte {
	b := make([]byte, n)
	if n >= 8 {
		binary.BigEndian.PutUint32(b, uint32(id))
		binary.BigEndian.PutUint32(b[4:], uint32(n))
	}
	for j := 8; j < n; j++ {
		b[j] = byte(id*131 + j*7 + j>>11)
	}
	return b
}

func packets(n int) int {
	if n == 0 {
		return 1
	}
	return (n + chunk - 1) / chunk
}

// drain reads all inboxes of p until `want` messages arrived or nothing arrives for `idle`
func drain(p *p2p.P2P, from crypto.PrivateKeyI, dir string, want int, idle time.Duration, out func(Ev)) int {
	got := 0
	timer := time.NewTimer(idle)
	defer timer.Stop()
	for got < want {
		var m *lib.MessageAndMetadata
		var t lib.Topic
		select {
		case m = <-p.Inbox(topics[0]):
			t = topics[0]
		case m = <-p.Inbox(topics[1]):
			t = topics[1]
		case m = <-p.Inbox(topics[2]):
			t = topics[2]
		case m = <-p.Inbox(topics[3]):
			t = topics[3]
		case m = <-p.Inbox(topics[4]):
			t = topics[4]
		case m = <-p.Inbox(topics[5]):
			t = topics[5]
		case <-timer.C:
			return got
		}
		if !timer.Stop() {
			select {
			case <-timer.C:
			default:
			}
		}
		timer.Reset(idle)
		got++
		e := Ev{E: "deliver", Dir: dir, Topic: int(t), Len: len(m.Message), Id: -1}
		if len(m.Message) >= 8 {
			e.Id = int(binary.BigEndian.Uint32(m.Message))
			e.Ok = int(binary.BigEndian.Uint32(m.Message[4:])) == len(m.Message) && bytes.Equal(m.Message, body(e.Id, len(m.Message)))
		} else {
			e.Ok = len(m.Message) == 0 // the empty message
			e.Id = 0
		}
		e.N = packets(len(m.Message))
		e.Sender = m.Sender != nil && m.Sender.Address != nil && bytes.Equal(m.Sender.Address.PublicKey, from.PublicKey().Bytes())
		out(e)
	}
	return got
}

func concurrentCase(rng *rand.Rand, a, b *side, big bool, pressure bool, out func(Ev)) {
	small := []int{8, 9, 100, 1000, 4096, 65536}
	bigs := []int{chunk - 1, chunk, chunk + 1, 2*chunk - 1, 2 * chunk, 2*chunk + 1, 3*chunk + 7}
	id := 0
	var mu sync.Mutex
	var wg sync.WaitGroup
	want := map[string]int{}
	type job struct {
		s     *side
		topic lib.Topic
		id, n int
	}
	var jobs [][]job
	for _, s := range []*side{a, b} {
		if pressure {
			// one topic, its send queue kept full by a stream of small messages while several goroutines send messages of two
			// and three packets on it: every packet of theirs has to wait for room in the queue
			if s == b {
				continue
			}
			t := topics[rng.Intn(len(topics))]
			var js []job
			for m := 0; m < 1500; m++ {
				id++
				js = append(js, job{s, t, id, 64})
				want[s.dir]++
			}
			jobs = append(jobs, js)
			for w := 0; w < 6; w++ {
				js = nil
				for m := 0; m < 3; m++ {
					id++
					js = append(js, job{s, t, id, bigs[3+rng.Intn(4)]})
					want[s.dir]++
				}
				jobs = append(jobs, js)
			}
			continue
		}
		W := 2 + rng.Intn(5)
		for w := 0; w < W; w++ {
			var js []job
			M := 5 + rng.Intn(25)
			for m := 0; m < M; m++ {
				id++
				n := small[rng.Intn(len(small))]
				if rng.Intn(12) == 0 && (big || rng.Intn(3) == 0) {
					n = bigs[rng.Intn(len(bigs))]
				}
				js = append(js, job{s, topics[rng.Intn(len(topics))], id, n})
				want[s.dir]++
			}
			jobs = append(jobs, js)
		}
	}
	// the empty message once per direction
	for _, s := range []*side{a, b} {
		ok := s.conn.Send(lib.Topic_TX, []byte{})
		out(Ev{E: "send", Dir: s.dir, Id: 0, Topic: int(lib.Topic_TX), Len: 0, N: 1, Ok: ok})
		want[s.dir]++
	}
	if pressure { // the link stalls for a moment while everybody starts sending
		lastGate.mu.Lock()
		go func(g *gatedConn) { time.Sleep(150 * time.Millisecond); g.mu.Unlock() }(lastGate)
	}
	for _, js := range jobs {
		wg.Add(1)
		go func(js []job) {
			defer wg.Done()
			for _, j := range js {
				ok := j.s.conn.Send(j.topic, body(j.id, j.n))
				mu.Lock()
				out(Ev{E: "send", Dir: j.s.dir, Id: j.id, Topic: int(j.topic), Len: j.n, N: packets(j.n), Ok: ok})
				mu.Unlock()
			}
		}(js)
	}
	var dg sync.WaitGroup
	dg.Add(2)
	locked := func(e Ev) { mu.Lock(); out(e); mu.Unlock() }
	var ga, gb int
	wait := 3 * time.Second
	if pressure {
		wait = 8 * time.Second
	}
	go func() { defer dg.Done(); gb = drain(b.p, a.key, "ab", want["ab"], wait, locked) }()
	go func() { defer dg.Done(); ga = drain(a.p, b.key, "ba", want["ba"], 3*time.Second, locked) }()
	wg.Wait()
	dg.Wait()
	out(Ev{E: "end", Kind: "concurrent", Count: ga + gb, N: want["ab"] + want["ba"]})
}

func fullInboxCase(rng *rand.Rand, a, b *side, out func(Ev)) {
	// nobody reads B's TX inbox: 1000 messages fill it, the next ones are dropped whole
	total := 1000 + 2 + rng.Intn(5)
	for i := 1; i <= total; i++ {
		n := 16 + rng.Intn(200)
		ok := a.conn.Send(lib.Topic_TX, body(i, n))
		out(Ev{E: "send", Dir: "ab", Id: i, Topic: int(lib.Topic_TX), Len: n, N: 1, Ok: ok})
		if i%100 == 0 {
			time.Sleep(20 * time.Millisecond)
		}
	}
	// a marker on another topic tells that the receive loop has processed everything before it... topics are selected
	// at random by the sender, so wait for the TX queue to be flushed first
	time.Sleep(700 * time.Millisecond)
	ok := a.conn.Send(lib.Topic_BLOCK, body(5000, 64))
	out(Ev{E: "send", Dir: "ab", Id: 5000, Topic: int(lib.Topic_BLOCK), Len: 64, N: 1, Ok: ok})
	got := drain(b.p, a.key, "ab", total+1, 1500*time.Millisecond, out)
	// the inbox has room again: later messages arrive alone
	for i := 6001; i <= 6003; i++ {
		ok := a.conn.Send(lib.Topic_TX, body(i, 300))
		out(Ev{E: "send", Dir: "ab", Id: i, Topic: int(lib.Topic_TX), Len: 300, N: 1, Ok: ok})
	}
	got += drain(b.p, a.key, "ab", 3, 1500*time.Millisecond, out)
	out(Ev{E: "end", Kind: "full-inbox", Count: got, N: total + 4})
}

// ---- a peer that speaks the wire protocol itself -----------------------------------------------------------------

type rawPeer struct {
	c          net.Conn
	send, recv cipher.AEAD
	sn, rn     [crypto.AEADNonceSize]byte
}

func inc(n *[crypto.AEADNonceSize]byte) {
	binary.LittleEndian.PutUint64(n[4:], binary.LittleEndian.Uint64(n[4:])+1)
}
func (s *rawPeer) writeAll(data []byte) error {
	for len(data) > 0 {
		m := len(data)
		if m > crypto.MaxDataSize {
			m = crypto.MaxDataSize
		}
		plain := make([]byte, crypto.FrameSize)
		binary.LittleEndian.PutUint32(plain, uint32(m))
		copy(plain[crypto.LengthHeaderSize:], data[:m])
		ct := s.send.Seal(nil, s.sn[:], plain, nil)
		inc(&s.sn)
		_ = s.c.SetWriteDeadline(time.Now().Add(5 * time.Second))
		if _, err := s.c.Write(ct); err != nil {
			return err
		}
		data = data[m:]
	}
	return nil
}
func (s *rawPeer) readFrame() ([]byte, error) {
	ct := make([]byte, crypto.EncryptedFrameSize)
	_ = s.c.SetReadDeadline(time.Now().Add(2 * time.Second))
	if _, err := io.ReadFull(s.c, ct); err != nil {
		return nil, err
	}
	plain, err := s.recv.Open(nil, s.rn[:], ct, nil)
	if err != nil {
		return nil, err
	}
	inc(&s.rn)
	n := binary.LittleEndian.Uint32(plain)
	return plain[crypto.LengthHeaderSize : crypto.LengthHeaderSize+n], nil
}
func lp(bz []byte) []byte {
	l := make([]byte, 4)
	binary.BigEndian.PutUint32(l, uint32(len(bz)))
	return append(l, bz...)
}
func (s *rawPeer) sendMsg(m proto.Message) error { bz, _ := lib.Marshal(m); return s.writeAll(lp(bz)) }
func (s *rawPeer) recvMsg(m proto.Message) error {
	bz, err := s.readFrame()
	if err != nil {
		return err
	}
	if len(bz) < 4 {
		return fmt.Errorf("short")
	}
	return lib.Unmarshal(bz[4:], m)
}
func (s *rawPeer) packet(topic lib.Topic, eof bool, bz []byte) error {
	a, _ := lib.NewAny(&p2p.Packet{StreamId: topic, Eof: eof, Bytes: bz})
	return s.sendMsg(&p2p.Envelope{Payload: a})
}

// rawHandshake: the client side of p2p.NewHandshake with identity key k
func rawHandshake(c net.Conn, k crypto.PrivateKeyI) (*rawPeer, error) {
	e, _ := crypto.NewEd25519PrivateKey()
	ePub := e.PublicKey().Bytes()
	errc := make(chan error, 1)
	go func() {
		bz, _ := lib.Marshal(&crypto.ProtoPubKey{Pubkey: ePub})
		_ = c.SetWriteDeadline(time.Now().Add(2 * time.Second))
		_, err := c.Write(lp(bz))
		errc <- err
	}()
	l := make([]byte, 4)
	_ = c.SetReadDeadline(time.Now().Add(2 * time.Second))
	if _, err := io.ReadFull(c, l); err != nil {
		return nil, err
	}
	bz := make([]byte, binary.BigEndian.Uint32(l))
	if _, err := io.ReadFull(c, bz); err != nil {
		return nil, err
	}
	if err := <-errc; err != nil {
		return nil, err
	}
	peer := new(crypto.ProtoPubKey)
	if err := lib.Unmarshal(bz, peer); err != nil {
		return nil, err
	}
	secret, err := crypto.SharedSecret(peer.Pubkey, e.Bytes())
	if err != nil {
		return nil, err
	}
	snd, rcv, ch, err := crypto.HKDFSecretsAndChallenge(secret, ePub, peer.Pubkey)
	if err != nil {
		return nil, err
	}
	r := &rawPeer{c: c, send: snd, recv: rcv}
	// signature swap and meta swap: write and read concurrently (net.Pipe is unbuffered)
	sig, m := new(lib.Signature), new(lib.PeerMeta)
	go func() { errc <- r.sendMsg(&lib.Signature{PublicKey: k.PublicKey().Bytes(), Signature: k.Sign(ch[:])}) }()
	if err = r.recvMsg(sig); err != nil {
		return nil, err
	}
	if err = <-errc; err != nil {
		return nil, err
	}
	go func() { errc <- r.sendMsg((&lib.PeerMeta{NetworkId: 1, ChainId: 1}).Sign(k)) }()
	if err = r.recvMsg(m); err != nil {
		return nil, err
	}
	if err = <-errc; err != nil {
		return nil, err
	}
	// keep swallowing what the node sends (heartbeats), so that its sender never blocks
	return r, nil
}

func attackCase(rng *rand.Rand, tmp string, name string, big bool, out func(Ev)) error {
	km, _ := crypto.NewBLS12381PrivateKey()
	c1, c2 := net.Pipe()
	var conn *p2p.MultiConn
	var eb lib.ErrorI
	done := make(chan struct{})
	go func() {
		conn, eb = pb.NewConnection(c2, &lib.PeerInfo{Address: &lib.PeerAddress{PublicKey: km.PublicKey().Bytes(), NetAddress: "pipe"}})
		close(done)
	}()
	r, err := rawHandshake(c1, km)
	<-done
	if err != nil || eb != nil {
		return fmt.Errorf("raw handshake: %v %v", err, eb)
	}
	go func() { // swallow
		for {
			if _, e := r.readFrame(); e != nil {
				if ne, ok := e.(net.Error); ok && ne.Timeout() {
					continue
				}
				return
			}
		}
	}()
	// a well-formed message first: the connection works
	good := body(1, 500)
	_ = r.packet(lib.Topic_TX, true, good)
	out(Ev{E: "send", Dir: "ab", Id: 1, Topic: int(lib.Topic_TX), Len: 500, N: 1, Ok: true})
	expectClose := true
	switch name {
	case "unknown-stream":
		_ = r.packet(lib.Topic(7+rng.Intn(80)), false, body(2, 100)) // streams 7..98 exist without an inbox: swallowed
		_ = r.packet(lib.Topic(100+rng.Intn(50)), true, body(2, 100))
	case "invalid-topic-99":
		_ = r.packet(lib.Topic_INVALID, true, body(2, 100))
	case "not-a-packet":
		a, _ := lib.NewAny(&lib.Signature{PublicKey: []byte{1}, Signature: []byte{2}})
		_ = r.sendMsg(&p2p.Envelope{Payload: a})
	case "unknown-any-type":
		_ = r.sendMsg(&p2p.Envelope{Payload: &anypb.Any{TypeUrl: "type.googleapis.com/types.Nope", Value: []byte{1, 2, 3}}})
	case "garbage-envelope":
		_ = r.writeAll(lp([]byte{0xff, 0xff, 0xff, 0xff, 0x01, 0x02}))
	case "length-prefix-over-limit":
		l := make([]byte, 4)
		binary.BigEndian.PutUint32(l, 1000001+uint32(rng.Intn(1<<20)))
		_ = r.writeAll(append(l, body(2, 2000)...))
	case "partial-then-close": // packets without EOF, then the peer goes away: nothing of it may be delivered
		_ = r.packet(lib.Topic_BLOCK, false, body(2, 3000))
		_ = r.packet(lib.Topic_BLOCK, false, body(3, 3000))
		time.Sleep(100 * time.Millisecond)
		_ = c1.Close()
	case "interleaved-topics": // legitimate: packets of different topics interleave on the wire
		expectClose = false
		m2, m3 := body(2, 3000), body(3, 2000)
		_ = r.packet(lib.Topic_BLOCK, false, m2[:1000])
		_ = r.packet(lib.Topic_CONSENSUS, false, m3[:500])
		_ = r.packet(lib.Topic_BLOCK, false, m2[1000:2000])
		_ = r.packet(lib.Topic_CONSENSUS, true, m3[500:])
		_ = r.packet(lib.Topic_BLOCK, true, m2[2000:])
		out(Ev{E: "send", Dir: "ab", Id: 2, Topic: int(lib.Topic_BLOCK), Len: 3000, N: 1, Ok: true})
		out(Ev{E: "send", Dir: "ab", Id: 3, Topic: int(lib.Topic_CONSENSUS), Len: 2000, N: 1, Ok: true})
	case "message-over-limit": // 256 MB + 1 packet in packets of the maximum size; never an EOF before the limit
		if !big {
			return nil
		}
		pk := make([]byte, chunk)
		for i := 0; i < 257; i++ {
			if e := r.packet(lib.Topic_BLOCK, false, pk); e != nil {
				break
			}
		}
		_ = r.packet(lib.Topic_BLOCK, true, body(2, 100))
	}
	time.Sleep(300 * time.Millisecond)
	// a further good message must not arrive if the connection is closed
	_ = r.packet(lib.Topic_TX, true, body(9, 400))
	if !expectClose {
		out(Ev{E: "send", Dir: "ab", Id: 9, Topic: int(lib.Topic_TX), Len: 400, N: 1, Ok: true})
	}
	got := drain(pb, km, "ab", 10, 700*time.Millisecond, out)
	// is the connection closed? probe with further (ignored) messages; on a loaded machine the receiver may need a while
	closed := false
	limit := 1
	if expectClose {
		limit = 50
	}
	for i := 0; i < limit && !closed; i++ {
		_ = c1.SetWriteDeadline(time.Now().Add(200 * time.Millisecond))
		if e := r.packet(lib.Topic_TX, true, body(10, 50)); e != nil {
			closed = true
			break
		}
		got += drain(pb, km, "ab", 1, 100*time.Millisecond, func(e Ev) {
			if e.Id == 10 {
				return
			}
			out(e)
		})
	}
	out(Ev{E: "attack", Kind: name, Closed: closed, Ok: expectClose, Count: got})
	if conn != nil {
		conn.Stop()
	}
	_ = c1.Close()
	return nil
}

func main() {
	if len(os.Args) < 5 || os.Args[1] != "run" {
		fmt.Fprintln(os.Stderr, "usage: muxx run <seed> <cases> <out> [big]")
		os.Exit(2)
	}
	seed, _ := strconv.ParseInt(os.Args[2], 10, 64)
	cases, _ := strconv.Atoi(os.Args[3])
	big := len(os.Args) > 5 && os.Args[5] == "big"
	f, err := os.Create(os.Args[4])
	if err != nil {
		fmt.Fprintln(os.Stderr, err)
		os.Exit(2)
	}
	defer f.Close()
	w := bufio.NewWriterSize(f, 1<<20)
	defer w.Flush()
	enc := json.NewEncoder(w)
	out := func(e Ev) { _ = enc.Encode(e) }
	tmp, _ := os.MkdirTemp("", "muxx")
	defer os.RemoveAll(tmp)
	rng := rand.New(rand.NewSource(seed))
	pa, ka = newP2P(tmp)
	pb, kb = newP2P(tmp)
	attacks := []string{"unknown-stream", "invalid-topic-99", "not-a-packet", "unknown-any-type", "garbage-envelope", "length-prefix-over-limit",
		"partial-then-close", "interleaved-topics", "message-over-limit"}
	fail := func(err error) {
		w.Flush()
		fmt.Fprintln(os.Stderr, "muxx:", err)
		os.Exit(2)
	}
	for c := 0; c < cases; c++ {
		kind := "concurrent"
		if c%4 == 3 {
			kind = "full-inbox"
		}
		out(Ev{E: "case", Kind: kind})
		a, b, err := pair(tmp)
		if err != nil {
			fail(err)
		}
		if kind == "concurrent" {
			concurrentCase(rng, a, b, big, c%4 == 1, out)
		} else {
			fullInboxCase(rng, a, b, out)
		}
		a.conn.Stop()
		b.conn.Stop()
	}
	for _, name := range attacks {
		out(Ev{E: "case", Kind: "attack:" + name})
		if err := attackCase(rng, tmp, name, big, out); err != nil {
			fail(err)
		}
	}
}
