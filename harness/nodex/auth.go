package main

import (
	"bytes"
	"context"
	"encoding/hex"
	"encoding/json"
	"fmt"
	"math/rand"
	"sort"
	"strings"

	"github.com/canopy-network/canopy/fsm"
	"github.com/canopy-network/canopy/lib"
	"github.com/canopy-network/canopy/lib/crypto"
	"github.com/canopy-network/canopy/store"
	"math/big"

	"github.com/ethereum/go-ethereum/common"
	ethTypes "github.com/ethereum/go-ethereum/core/types"
	ethCrypto "github.com/ethereum/go-ethereum/crypto"
	"google.golang.org/protobuf/proto"
	"google.golang.org/protobuf/reflect/protoreflect"
)

// auth mode (specs/AuthDef.tla, property C05): candidate transactions - every message type x every key type of the claimed
// owner x who really signed (owner, validator operator / output address, a stranger with every key type), what public key is
// presented, signatures transplanted from other content, every signed field tampered after signing, multisig below / at
// threshold with rewritten thresholds and over-claimed bitmaps - are applied to a real state machine (ApplyTransaction,
// and mixed into ApplyTransactions batches for the batch verifier and the signature cache). The abstract candidate and what
// happened (applied? the owner's assets changed?) go into the trace; TLC decides.

type AuthLine struct {
	E         string `json:"e"` // "auth"
	Msg       string `json:"msg"`
	KeyType   string `json:"keyType"`   // key type of the identity that signed
	OwnerKey  string `json:"ownerKey"`  // key type of the claimed owner
	Role      string `json:"role"`      // description of the candidate
	Signer    string `json:"signer"`    // O | OP | OUT | X | none
	Presented string `json:"presented"` // whose public key the transaction carries
	Genuine   bool   `json:"genuine"`
	Quorum    bool   `json:"quorum"`
	Path      string `json:"path"` // apply | batch
	Applied   bool   `json:"applied"`
	Changed   bool   `json:"victimChanged"` // assets of the claimed owner / of the named validator changed
	Err       string `json:"err"`
}

type ident struct {
	name    string
	keyType string
	sign    func(tx *lib.Transaction) // fills tx.Signature
	addr    []byte
	pub     []byte
}

func single(name, kt string, k crypto.PrivateKeyI) *ident {
	return &ident{name: name, keyType: kt, addr: k.PublicKey().Address().Bytes(), pub: k.PublicKey().Bytes(),
		sign: func(tx *lib.Transaction) { tx.Signature = nil; _ = tx.Sign(k) }}
}

type multi struct {
	keys      []crypto.PrivateKeyI
	threshold uint32
}

func (m *multi) pubBytes(bitmapFrom []int, threshold uint32) ([]byte, crypto.MultiPublicKeyI) {
	var pks [][]byte
	for _, k := range m.keys {
		pks = append(pks, k.PublicKey().Bytes())
	}
	// a bitmap with every bit set first, so that the key parses; the real bitmap comes from AddSigner
	bz, _ := proto.Marshal(&crypto.MultiPublicKey{PublicKeys: pks, Bitmap: []byte{0xff}, Threshold: threshold})
	mk, err := crypto.NewMultiBLSFromPublicKey(bz)
	if err != nil {
		panic(err)
	}
	mk.Reset()
	return bz, mk
}

// signature by the listed members; `claim` optionally sets further bits in the bitmap without a signature
func (m *multi) signWith(tx *lib.Transaction, members []int, threshold uint32, claim []int) {
	tx.Signature = nil
	sb, _ := tx.GetSignBytes()
	_, mk := m.pubBytes(nil, threshold)
	for _, i := range members {
		_ = mk.AddSigner(m.keys[i].Sign(sb), i)
	}
	sig, err := mk.AggregateSignatures()
	if err != nil {
		sig = make([]byte, 96)
	}
	for _, i := range claim {
		_ = mk.AddSigner([]byte{1}, i)
	}
	tx.Signature = &lib.Signature{PublicKey: mk.Bytes(), Signature: sig}
}

func (m *multi) address(threshold uint32) []byte {
	_, mk := m.pubBytes(nil, threshold)
	return mk.Address().Bytes()
}

type authWorld struct {
	n      *node
	owners map[string]*ident // by key type
	xs     map[string]*ident
	mO, mX *multi
	valOp  crypto.PrivateKeyI // operator key of the non-custodial validator (BLS)
}

func newKey(kt string) crypto.PrivateKeyI {
	var k crypto.PrivateKeyI
	switch kt {
	case "bls":
		k, _ = crypto.NewBLS12381PrivateKey()
	case "ed25519":
		k, _ = crypto.NewEd25519PrivateKey()
	case "secp256k1":
		k, _ = crypto.NewSECP256K1PrivateKey()
	case "ethsecp256k1":
		k, _ = crypto.NewETHSECP256K1PrivateKey()
	}
	return k
}

var keyTypes = []string{"bls", "ed25519", "secp256k1", "ethsecp256k1"}

func newMulti() *multi {
	m := &multi{threshold: 2}
	for i := 0; i < 3; i++ {
		m.keys = append(m.keys, newKey("bls"))
	}
	return m
}

func authMode(seed int64, out *json.Encoder) error {
	rng := rand.New(rand.NewSource(seed))
	store.VerifPurgeBlockCache()
	gs := ledgerGenesis(false, false)
	base := gs.Params
	gs.Params = func(p *fsm.Params) { base(p); p.Validator.MinimumOrderSize = 1000 }
	n, err := newNode(gs, 0)
	if err != nil {
		return err
	}
	defer n.close()
	tune(n)
	for i := 0; i < 3; i++ {
		p, e := n.propose()
		if e != nil {
			return e
		}
		m, e := n.certify(p, []int{0, 1, 2, 3}, nil)
		if e != nil {
			return e
		}
		if e = n.commit(m); e != nil {
			return e
		}
	}
	s := n.c.FSM
	w := &authWorld{n: n, owners: map[string]*ident{}, xs: map[string]*ident{}, mO: newMulti(), mX: newMulti()}
	fund := func(a []byte) { _ = s.AccountAdd(crypto.NewAddress(a), 10_000_000) }
	for _, kt := range keyTypes {
		w.owners[kt] = single("O", kt, newKey(kt))
		w.xs[kt] = single("X", kt, newKey(kt))
		fund(w.owners[kt].addr)
		fund(w.xs[kt].addr)
	}
	w.owners["multisig"] = &ident{name: "O", keyType: "multisig", addr: w.mO.address(2), sign: func(tx *lib.Transaction) { w.mO.signWith(tx, []int{0, 2}, 2, nil) }}
	w.xs["multisig"] = &ident{name: "X", keyType: "multisig", addr: w.mX.address(2), sign: func(tx *lib.Transaction) { w.mX.signWith(tx, []int{0, 1}, 2, nil) }}
	fund(w.owners["multisig"].addr)
	fund(w.xs["multisig"].addr)
	fund(w.mO.address(1))
	fund(w.mO.address(0))
	allKT := append(append([]string{}, keyTypes...), "multisig")
	h := s.Height()
	mkTx := func(msg lib.MessageI, fee uint64) *lib.Transaction {
		a, _ := lib.NewAny(msg)
		return &lib.Transaction{MessageType: msg.Name(), Msg: a, CreatedHeight: h, Time: uint64(rng.Int63()), Fee: fee, NetworkId: 1, ChainId: 1}
	}
	// ---- per owner key type: a non-custodial validator (operator = a BLS key, output = the owner), an open order, points
	type scene struct {
		owner  *ident
		valOp  *ident
		valAdr []byte
		order  []byte
	}
	scenes := map[string]*scene{}
	for _, kt := range allKT {
		o := w.owners[kt]
		opKey := newKey("bls")
		op := single("OP", "bls", opKey)
		fund(op.addr)
		v := &fsm.Validator{Address: op.addr, PublicKey: op.pub, StakedAmount: 50000, Committees: []uint64{1}, Output: o.addr, NetAddress: "tcp://x"}
		if e := s.SetValidator(v); e != nil {
			return e
		}
		id := make([]byte, 20)
		rng.Read(id)
		if e := s.HandleMessageCreateOrder(&fsm.MessageCreateOrder{ChainId: 2, AmountForSale: 5000, RequestedAmount: 5, SellerReceiveAddress: o.addr, SellersSendAddress: o.addr, OrderId: id}); e != nil {
			return fmt.Errorf("create order: %v", e)
		}
		scenes[kt] = &scene{owner: o, valOp: op, valAdr: op.addr, order: id}
	}
	_ = s.PoolAdd(2+fsm.LiquidityPoolAddend, 100000)
	fee := uint64(100000)
	// snapshot of everything that belongs to the claimed owner of a scene
	snap := func(sc *scene) string {
		var b strings.Builder
		bal, _ := s.GetAccountBalance(crypto.NewAddress(sc.owner.addr))
		fmt.Fprintf(&b, "bal=%d;", bal)
		if v, e := s.GetValidator(crypto.NewAddress(sc.valAdr)); e == nil {
			fmt.Fprintf(&b, "val=%d/%x/%d/%d/%v/%s;", v.StakedAmount, v.Output, v.UnstakingHeight, v.MaxPausedHeight, v.Committees, v.NetAddress)
		} else {
			b.WriteString("val=gone;")
		}
		if o, e := s.GetOrder(sc.order, 2); e == nil {
			fmt.Fprintf(&b, "order=%d/%d/%x;", o.AmountForSale, o.RequestedAmount, o.SellerReceiveAddress)
		} else {
			b.WriteString("order=gone;")
		}
		opb, _ := s.GetAccountBalance(crypto.NewAddress(sc.valAdr))
		fmt.Fprintf(&b, "opbal=%d;", opb)
		return b.String()
	}
	// messages: name -> builder for a scene; which identities the rules authorise is for TLC to say
	type mdef struct {
		name  string
		build func(sc *scene) lib.MessageI
		val   bool // a validator operation: OP / OUT roles apply
	}
	other := bytes.Repeat([]byte{9}, 20)
	msgs := []mdef{
		{"send", func(sc *scene) lib.MessageI {
			return &fsm.MessageSend{FromAddress: sc.owner.addr, ToAddress: other, Amount: 777}
		}, false},
		{"subsidy", func(sc *scene) lib.MessageI {
			return &fsm.MessageSubsidy{Address: sc.owner.addr, ChainId: 1, Amount: 555}
		}, false},
		{"createOrder", func(sc *scene) lib.MessageI {
			return &fsm.MessageCreateOrder{ChainId: 2, AmountForSale: 3000, RequestedAmount: 3, SellerReceiveAddress: other, SellersSendAddress: sc.owner.addr}
		}, false},
		{"editOrder", func(sc *scene) lib.MessageI {
			return &fsm.MessageEditOrder{OrderId: sc.order, ChainId: 2, AmountForSale: 4000, RequestedAmount: 1, SellerReceiveAddress: other}
		}, false},
		{"deleteOrder", func(sc *scene) lib.MessageI { return &fsm.MessageDeleteOrder{OrderId: sc.order, ChainId: 2} }, false},
		{"dexLimitOrder", func(sc *scene) lib.MessageI {
			return &fsm.MessageDexLimitOrder{ChainId: 2, AmountForSale: 1000, RequestedAmount: 1, Address: sc.owner.addr}
		}, false},
		{"dexLiquidityDeposit", func(sc *scene) lib.MessageI {
			return &fsm.MessageDexLiquidityDeposit{ChainId: 2, Amount: 1000, Address: sc.owner.addr}
		}, false},
		{"editStake", func(sc *scene) lib.MessageI {
			return &fsm.MessageEditStake{Address: sc.valAdr, Amount: 50000, Committees: []uint64{1}, NetAddress: "tcp://evil", OutputAddress: other}
		}, true},
		{"unstake", func(sc *scene) lib.MessageI { return &fsm.MessageUnstake{Address: sc.valAdr} }, true},
		{"pause", func(sc *scene) lib.MessageI { return &fsm.MessagePause{Address: sc.valAdr} }, true},
	}
	txnRun := func(f func() bool) bool {
		orig := s.Store().(lib.StoreI)
		txn, e := s.TxnWrap()
		if e != nil {
			return false
		}
		s.ResetCaches()
		defer func() { txn.Discard(); s.SetStore(orig); s.ResetCaches() }() // as ApplyTransactions does after a failed transaction
		return f()
	}
	apply := func(sc *scene, tx *lib.Transaction, line AuthLine) {
		bz, _ := lib.Marshal(tx)
		// path 1: ApplyTransaction, immediate verification
		l1 := line
		l1.Path = "apply"
		txnRun(func() bool {
			before := snap(sc)
			_, _, e := s.ApplyTransaction(0, bz, crypto.HashString(bz), nil)
			l1.Applied = e == nil
			if e != nil {
				l1.Err = e.Error()
			}
			// a failed ApplyTransaction leaves its partial writes to the caller, who discards them (ApplyTransactions)
			l1.Changed = e == nil && snap(sc) != before
			return true
		})
		_ = out.Encode(l1)
		// path 2: inside a batch between two honest transfers of a stranger (batch verifier, cache)
		l2 := line
		l2.Path = "batch"
		txnRun(func() bool {
			x := w.xs["ed25519"]
			t1 := mkTx(&fsm.MessageSend{FromAddress: x.addr, ToAddress: other, Amount: 1}, fee)
			x.sign(t1)
			t2 := mkTx(&fsm.MessageSend{FromAddress: x.addr, ToAddress: other, Amount: 2}, fee)
			x.sign(t2)
			b1, _ := lib.Marshal(t1)
			b2, _ := lib.Marshal(t2)
			before := snap(sc)
			res := new(lib.ApplyBlockResults)
			e := s.ApplyTransactions(context.Background(), [][]byte{b1, bz, b2}, res, false)
			if e != nil {
				l2.Err = e.Error()
			}
			l2.Applied = false
			for _, r := range res.Results {
				if bytes.Equal(r.Transaction.Signature.Signature, tx.Signature.GetSignature()) && r.MessageType == tx.MessageType {
					l2.Applied = true
				}
			}
			l2.Changed = snap(sc) != before
			if l2.Changed && !l2.Applied {
				l2.Err += " BEFORE " + before + " AFTER " + snap(sc)
			}
			return true
		})
		_ = out.Encode(l2)
		// path 3: behind a validly signed but unauthorised transaction of a stranger (it has already used a slot of the batch
		// verifier when the authorisation check refuses it)
		l3 := line
		l3.Path = "batch-behind-unauthorised"
		txnRun(func() bool {
			x := w.xs["bls"]
			t0 := mkTx(&fsm.MessageSend{FromAddress: sc.owner.addr, ToAddress: other, Amount: 5}, fee)
			x.sign(t0)
			t2 := mkTx(&fsm.MessageSend{FromAddress: x.addr, ToAddress: other, Amount: 2}, fee)
			x.sign(t2)
			b0, _ := lib.Marshal(t0)
			b2, _ := lib.Marshal(t2)
			before := snap(sc)
			res := new(lib.ApplyBlockResults)
			if e := s.ApplyTransactions(context.Background(), [][]byte{b0, bz, b2}, res, false); e != nil {
				l3.Err = e.Error()
			}
			for _, r := range res.Results {
				if bytes.Equal(r.Transaction.Signature.Signature, tx.Signature.GetSignature()) && r.MessageType == tx.MessageType && r.Transaction.Time == tx.Time {
					l3.Applied = true
				}
			}
			l3.Changed = snap(sc) != before
			return true
		})
		_ = out.Encode(l3)
	}
	for _, okt := range allKT {
		sc := scenes[okt]
		for _, md := range msgs {
			msg := md.build(sc)
			base := AuthLine{E: "auth", Msg: md.name, OwnerKey: okt, Quorum: true}
			// the rightful signers
			if !md.val {
				tx := mkTx(msg, fee)
				sc.owner.sign(tx)
				l := base
				l.Role, l.KeyType, l.Signer, l.Presented, l.Genuine = "owner", okt, "O", "O", true
				apply(sc, tx, l)
			} else {
				tx := mkTx(msg, fee)
				sc.valOp.sign(tx)
				l := base
				l.Role, l.KeyType, l.Signer, l.Presented, l.Genuine = "operator", "bls", "OP", "OP", true
				apply(sc, tx, l)
				tx = mkTx(msg, fee)
				sc.owner.sign(tx)
				l = base
				l.Role, l.KeyType, l.Signer, l.Presented, l.Genuine = "output", okt, "OUT", "OUT", true
				apply(sc, tx, l)
			}
			rightful, rname := sc.owner, "O"
			if md.val {
				rname = "OUT"
			}
			// strangers with every key type
			for _, xkt := range allKT {
				tx := mkTx(msg, fee)
				w.xs[xkt].sign(tx)
				l := base
				l.Role, l.KeyType, l.Signer, l.Presented, l.Genuine = "stranger", xkt, "X", "X", true
				apply(sc, tx, l)
				// the stranger's signature under the rightful signer's public key
				if rightful.pub != nil && xkt != "multisig" {
					tx = mkTx(msg, fee)
					w.xs[xkt].sign(tx)
					tx.Signature.PublicKey = rightful.pub
					l = base
					l.Role, l.KeyType, l.Signer, l.Presented, l.Genuine = "stranger-presents-rightful-key", xkt, "X", rname, true
					apply(sc, tx, l)
				}
			}
			// a genuine signature of the rightful signer, made over other content
			{
				tx := mkTx(msg, fee)
				rightful.sign(tx)
				sig := tx.Signature
				tx2 := mkTx(msg, fee+1)
				tx2.Signature = sig
				l := base
				l.Role, l.KeyType, l.Signer, l.Presented, l.Genuine = "signature-of-other-content", okt, rname, rname, false
				apply(sc, tx2, l)
				tx3 := mkTx(msg, fee)
				tx3.Signature = &lib.Signature{PublicKey: sig.PublicKey}
				l = base
				l.Role, l.KeyType, l.Signer, l.Presented, l.Genuine = "empty-signature", okt, "none", rname, false
				apply(sc, tx3, l)
			}
			// every field tampered after signing (transaction level and payload level)
			{
				tx := mkTx(msg, fee)
				rightful.sign(tx)
				for _, tv := range tamperings(tx) {
					l := base
					l.Role, l.KeyType, l.Signer, l.Presented, l.Genuine = "tampered:"+tv.name, okt, rname, rname, false
					apply(sc, tv.tx, l)
				}
			}
		}
		// Ethereum (RLP) wrapped transfers: the raw Ethereum transaction is the signature
		if okt == "ethsecp256k1" {
			ownerKey, strangerKey := newKey("ethsecp256k1"), newKey("ethsecp256k1")
			oAddr, xAddr := ownerKey.PublicKey().Address().Bytes(), strangerKey.PublicKey().Address().Bytes()
			fund(oAddr)
			fund(xAddr)
			s.ResetCaches()
			rsc := &scene{owner: &ident{name: "O", addr: oAddr}, valAdr: sc.valAdr, order: sc.order}
			rlp := func(k crypto.PrivateKeyI, nonce uint64) *lib.Transaction {
				ek, e := ethCrypto.ToECDSA(k.Bytes())
				if e != nil {
					panic(e)
				}
				chainID := new(big.Int).SetUint64(fsm.CanopyIdsToEVMChainId(1, 1))
				etx := ethTypes.NewTransaction(nonce, common.BytesToAddress(other), fsm.UpscaleTo18Decimals(777), 21000, big.NewInt(10_000_000_000_000), nil)
				signed, e := ethTypes.SignTx(etx, ethTypes.NewEIP155Signer(chainID), ek)
				if e != nil {
					panic(e)
				}
				raw, _ := signed.MarshalBinary()
				tx, ce := fsm.RLPToCanopyTransaction(raw)
				if ce != nil {
					panic(ce)
				}
				return tx
			}
			cand := func(role string, tx *lib.Transaction, signer, presented string, genuine bool) {
				apply(rsc, tx, AuthLine{E: "auth", Msg: "send", OwnerKey: "rlp", KeyType: "rlp", Role: role, Signer: signer, Presented: presented, Genuine: genuine, Quorum: true})
			}
			cand("rlp-owner", rlp(ownerKey, h), "O", "O", true)
			// a stranger's Ethereum transaction re-labelled as coming from the owner
			{
				tx := rlp(strangerKey, h)
				m := &fsm.MessageSend{FromAddress: oAddr, ToAddress: other, Amount: 777}
				tx.Msg, _ = lib.NewAny(m)
				cand("rlp-stranger-relabelled-from", tx, "X", "X", false)
				tx = rlp(strangerKey, h)
				tx.Msg, _ = lib.NewAny(m)
				tx.Signature.PublicKey = ownerKey.PublicKey().Bytes()
				cand("rlp-stranger-relabelled-from-and-key", tx, "X", "O", false)
			}
			// the owner's Ethereum transaction with another amount / recipient / fee in the canopy fields
			for name, f := range map[string]func(tx *lib.Transaction){
				"amount": func(tx *lib.Transaction) {
					tx.Msg, _ = lib.NewAny(&fsm.MessageSend{FromAddress: oAddr, ToAddress: other, Amount: 999999})
				},
				"recipient": func(tx *lib.Transaction) {
					tx.Msg, _ = lib.NewAny(&fsm.MessageSend{FromAddress: oAddr, ToAddress: xAddr, Amount: 777})
				},
				"fee":   func(tx *lib.Transaction) { tx.Fee++ },
				"chain": func(tx *lib.Transaction) { tx.ChainId = 2 },
				"type":  func(tx *lib.Transaction) { tx.MessageType = "subsidy" },
			} {
				tx := rlp(ownerKey, h)
				f(tx)
				cand("rlp-tampered:"+name, tx, "O", "O", false)
			}
			// pseudo contract calls: the message is protobuf inside the Ethereum call data and names its owner itself
			victim := scenes["ethsecp256k1"]
			call := func(k crypto.PrivateKeyI, contract, selector string, m proto.Message) *lib.Transaction {
				ek, _ := ethCrypto.ToECDSA(k.Bytes())
				chainID := new(big.Int).SetUint64(fsm.CanopyIdsToEVMChainId(1, 1))
				pb, _ := lib.Marshal(m)
				sel, _ := hex.DecodeString(selector)
				etx := ethTypes.NewTransaction(h, common.HexToAddress(contract), big.NewInt(0), 100000, big.NewInt(10_000_000_000_000), append(sel, pb...))
				signed, e := ethTypes.SignTx(etx, ethTypes.NewEIP155Signer(chainID), ek)
				if e != nil {
					panic(e)
				}
				raw, _ := signed.MarshalBinary()
				tx, ce := fsm.RLPToCanopyTransaction(raw)
				if ce != nil {
					return nil
				}
				return tx
			}
			calls := []struct {
				name, contract, selector string
				m                        proto.Message
			}{
				{"subsidy", fsm.CNPYContractAddress, fsm.SubsidySelector, &fsm.MessageSubsidy{Address: victim.owner.addr, ChainId: 1, Amount: 555}},
				{"createOrder", fsm.SwapCNPYContractAddress, fsm.CreateOrderSelector, &fsm.MessageCreateOrder{ChainId: 2, AmountForSale: 3000, RequestedAmount: 3, SellerReceiveAddress: xAddr, SellersSendAddress: victim.owner.addr}},
				{"deleteOrder", fsm.SwapCNPYContractAddress, fsm.DeleteOrderSelector, &fsm.MessageDeleteOrder{OrderId: victim.order, ChainId: 2}},
				{"unstake", fsm.StakedCNPYContractAddress, fsm.UnstakeSelector, &fsm.MessageUnstake{Address: victim.valAdr}},
			}
			for _, cl := range calls {
				rname := "O"
				if cl.name == "unstake" {
					rname = "OUT"
				}
				if tx := call(strangerKey, cl.contract, cl.selector, cl.m); tx != nil {
					l := AuthLine{E: "auth", Msg: cl.name, OwnerKey: "ethsecp256k1", KeyType: "rlp", Role: "rlp-call-by-stranger", Signer: "X", Presented: "X", Genuine: true, Quorum: true}
					apply(victim, tx, l)
					tx2 := call(strangerKey, cl.contract, cl.selector, cl.m)
					tx2.Signature.PublicKey = victim.owner.pub
					l.Role, l.Presented = "rlp-call-by-stranger-presents-rightful-key", rname
					apply(victim, tx2, l)
				}
			}
			// the raw Ethereum transaction of the owner presented without the RLP marker: an ordinary signature check must fail
			{
				tx := rlp(ownerKey, h)
				tx.Memo = ""
				cand("rlp-marker-removed", tx, "O", "O", false)
			}
		}
		// multisig specific candidates for a transfer out of the multisig account
		if okt == "multisig" {
			msg := &fsm.MessageSend{FromAddress: sc.owner.addr, ToAddress: other, Amount: 777}
			cand := func(role string, f func(tx *lib.Transaction), signer string, quorum bool) {
				tx := mkTx(msg, fee)
				f(tx)
				l := AuthLine{E: "auth", Msg: "send", OwnerKey: okt, KeyType: "multisig", Role: role, Signer: signer, Presented: signer, Genuine: true, Quorum: quorum}
				apply(sc, tx, l)
			}
			cand("multisig-threshold-met-other-pair", func(tx *lib.Transaction) { w.mO.signWith(tx, []int{1, 2}, 2, nil) }, "O", true)
			cand("multisig-all-three", func(tx *lib.Transaction) { w.mO.signWith(tx, []int{0, 1, 2}, 2, nil) }, "O", true)
			cand("multisig-one-of-two", func(tx *lib.Transaction) { w.mO.signWith(tx, []int{1}, 2, nil) }, "O", false)
			// the same keys under a lower threshold are another account: presented identity is not the owner
			cand("multisig-threshold-rewritten-to-1", func(tx *lib.Transaction) { w.mO.signWith(tx, []int{1}, 1, nil) }, "X", true)
			cand("multisig-threshold-rewritten-to-0", func(tx *lib.Transaction) { w.mO.signWith(tx, []int{1}, 0, nil) }, "X", true)
			// one signature, two bits claimed
			tx := mkTx(msg, fee)
			w.mO.signWith(tx, []int{1}, 2, []int{0})
			apply(sc, tx, AuthLine{E: "auth", Msg: "send", OwnerKey: okt, KeyType: "multisig", Role: "multisig-bitmap-overclaims", Signer: "O", Presented: "O", Genuine: false, Quorum: false})
		}
	}
	return nil
}

type tamper struct {
	name string
	tx   *lib.Transaction
}

// every scalar field of the transaction and of its payload changed, one at a time, signature kept
func tamperings(tx *lib.Transaction) []tamper {
	var out []tamper
	add := func(name string, f func(t *lib.Transaction)) {
		c := proto.Clone(tx).(*lib.Transaction)
		f(c)
		out = append(out, tamper{name, c})
	}
	add("fee", func(t *lib.Transaction) { t.Fee++ })
	add("time", func(t *lib.Transaction) { t.Time++ })
	add("createdHeight", func(t *lib.Transaction) { t.CreatedHeight++ })
	add("memo", func(t *lib.Transaction) { t.Memo = "x" })
	add("nonce", func(t *lib.Transaction) { t.Nonce++ })
	inner, err := tx.Msg.UnmarshalNew()
	if err != nil {
		return out
	}
	fds := inner.ProtoReflect().Descriptor().Fields()
	var names []string
	for i := 0; i < fds.Len(); i++ {
		names = append(names, string(fds.Get(i).Name()))
	}
	sort.Strings(names)
	for _, fname := range names {
		fd := fds.ByName(protoreflect.Name(fname))
		if fd.IsList() || fd.IsMap() || fd.Kind() == protoreflect.MessageKind {
			continue
		}
		m := proto.Clone(inner)
		r := m.ProtoReflect()
		switch fd.Kind() {
		case protoreflect.Uint64Kind, protoreflect.Uint32Kind:
			r.Set(fd, protoreflect.ValueOfUint64(r.Get(fd).Uint()+1))
		case protoreflect.BytesKind:
			b := bytes.Clone(r.Get(fd).Bytes())
			if len(b) == 0 {
				b = []byte{1}
			} else {
				b[0] ^= 1
			}
			r.Set(fd, protoreflect.ValueOfBytes(b))
		case protoreflect.StringKind:
			r.Set(fd, protoreflect.ValueOfString(r.Get(fd).String()+"x"))
		case protoreflect.BoolKind:
			r.Set(fd, protoreflect.ValueOfBool(!r.Get(fd).Bool()))
		default:
			continue
		}
		mm := m
		add("msg."+fname, func(t *lib.Transaction) { a, _ := lib.NewAny(mm); t.Msg = a })
	}
	_ = hex.EncodeToString
	return out
}
