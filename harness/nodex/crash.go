package main

import (
	"encoding/json"
	"fmt"
	"math/rand"
	mrand "math/rand/v2"
	"os"
	"path/filepath"

	"github.com/canopy-network/canopy/controller"
	"github.com/canopy-network/canopy/fsm"
	"github.com/canopy-network/canopy/lib"
	"github.com/canopy-network/canopy/store"
	"github.com/cockroachdb/pebble/v2/vfs"
)

// crash mode (specs/Crash.tla, property C09): a real node (controller + FSM + store with the production pebble options) runs
// on pebble's crashable in-memory file system. The file system is wrapped so that a crash image (CrashClone: everything
// synced plus a random part of the unsynced data) can be taken at EVERY file-system operation boundary during and between
// block commits. Every image is re-opened as a store + state machine and compared with what the running node had
// recorded for the height the image re-opens at.

// ---- file system wrapper: counts mutating operations, takes a crash image before operation number `target` ----------

type crashFS struct {
	vfs.FS
	mem     *vfs.MemFS
	ops     int
	targets map[int]bool
	images  map[int]*vfs.MemFS
	rng     *mrand.Rand
	pct     int
}

func (c *crashFS) tick() {
	c.ops++
	if c.targets[c.ops] {
		c.images[c.ops] = c.mem.CrashClone(vfs.CrashCloneCfg{UnsyncedDataPercent: c.pct, RNG: c.rng})
	}
}

type crashFile struct {
	vfs.File
	fs *crashFS
}

func (f *crashFile) Write(p []byte) (int, error)            { f.fs.tick(); return f.File.Write(p) }
func (f *crashFile) WriteAt(p []byte, o int64) (int, error) { f.fs.tick(); return f.File.WriteAt(p, o) }
func (f *crashFile) Sync() error                            { f.fs.tick(); return f.File.Sync() }
func (f *crashFile) SyncData() error                        { f.fs.tick(); return f.File.SyncData() }
func (f *crashFile) SyncTo(l int64) (bool, error)           { f.fs.tick(); return f.File.SyncTo(l) }
func (c *crashFS) wrap(f vfs.File, err error) (vfs.File, error) {
	if err != nil || f == nil {
		return f, err
	}
	return &crashFile{File: f, fs: c}, nil
}
func (c *crashFS) Create(name string, cat vfs.DiskWriteCategory) (vfs.File, error) {
	c.tick()
	return c.wrap(c.FS.Create(name, cat))
}
func (c *crashFS) OpenReadWrite(name string, cat vfs.DiskWriteCategory, opts ...vfs.OpenOption) (vfs.File, error) {
	c.tick()
	return c.wrap(c.FS.OpenReadWrite(name, cat, opts...))
}
func (c *crashFS) OpenDir(name string) (vfs.File, error) { return c.wrap(c.FS.OpenDir(name)) }
func (c *crashFS) ReuseForWrite(o, n string, cat vfs.DiskWriteCategory) (vfs.File, error) {
	c.tick()
	return c.wrap(c.FS.ReuseForWrite(o, n, cat))
}
func (c *crashFS) Rename(o, n string) error { c.tick(); return c.FS.Rename(o, n) }
func (c *crashFS) Remove(n string) error    { c.tick(); return c.FS.Remove(n) }
func (c *crashFS) Link(o, n string) error   { c.tick(); return c.FS.Link(o, n) }

// ---- node on a given file system ---------------------------------------------------------------------------------

func nodeOnFS(fs vfs.FS, g *fsm.GenesisState, n0 *node, osDir string) (*node, error) {
	log := lib.NewNullLogger()
	cfg := lib.DefaultConfig()
	cfg.DataDirPath = osDir
	cfg.ChainId = 1
	cfg.RunVDF = false
	st, _, err := store.VerifOpenStoreOnFS(fs, "db", cfg, log)
	if err != nil {
		return nil, err
	}
	sm, err := fsm.New(cfg, st, nil, nil, log)
	if err != nil {
		return nil, err
	}
	c, err := controller.New(sm, cfg, n0.valKeys[0], nil, log)
	if err != nil {
		return nil, err
	}
	c.RCManager = &rcm{c: c}
	_ = c.Mempool.CheckMempool()
	nd := &node{c: c, st: st, dir: "", valKeys: n0.valKeys, accKeys: n0.accKeys, names: n0.names, gen: g, cfg: cfg}
	tune(nd)
	return nd, nil
}

type CrashLine struct {
	Kind         string `json:"kind"` // "run" | "image"
	Run          int    `json:"run"`
	Op           int    `json:"op"`        // the image was taken before file-system operation number op
	Pct          int    `json:"pct"`       // percentage of unsynced data that survives
	Phase        string `json:"phase"`     // "during-commit" | "between-commits"
	Committed    uint64 `json:"committed"` // highest version whose Commit() had returned when the image was taken
	InFlight     uint64 `json:"inFlight"`  // version being committed when the image was taken (0 = none)
	Opens        bool   `json:"opens"`
	Version      uint64 `json:"version"`      // version the image re-opens at
	WasCommitted bool   `json:"wasCommitted"` // that version had been (or was being) committed by the running node
	RootOK       bool   `json:"rootOK"`       // Root() of the re-opened store = root recorded for that version
	DigestOK     bool   `json:"digestOK"`     // full state scan = scan recorded for that version
	FSMHeight    bool   `json:"fsmHeightOK"`  // the state machine re-opens at version+1
	ArchiveOK    bool   `json:"archiveOK"`    // block, certificate and historical state readable and as recorded for every version <= re-open version
	NextOK       bool   `json:"nextOK"`       // the next block can be produced and committed on the re-opened node
	Err          string `json:"err"`
	TotalOps     int    `json:"totalOps"`
}

type recorded struct {
	digest    string
	fsmHeight uint64
	blocks    map[uint64]string // block height -> block hash, for every block the node holds at this version
	lastRoot  string            // state root in the header of the last block
}

func record(nd *node) recorded {
	r := recorded{digest: nd.digest(), fsmHeight: nd.c.FSM.Height(), blocks: map[uint64]string{}}
	for h := uint64(1); h < r.fsmHeight; h++ {
		if br, e := nd.st.GetBlockByHeight(h); e == nil && br != nil && br.BlockHeader != nil {
			r.blocks[h] = hx(br.BlockHeader.Hash)
			r.lastRoot = hx(br.BlockHeader.StateRoot)
		}
	}
	return r
}

func crashRun(run int, seed int64, blocks int, density int, out *json.Encoder) error {
	rng := rand.New(rand.NewSource(seed))
	osDir, err := os.MkdirTemp("", "nodex-crash-")
	if err != nil {
		return err
	}
	defer os.RemoveAll(osDir)
	gs := ledgerGenesis(false, false)
	g, vk, ak, names := buildGenesis(gs)
	n0 := &node{valKeys: vk, accKeys: ak, names: names}
	bz, _ := lib.MarshalJSONIndent(g)
	_ = os.WriteFile(filepath.Join(osDir, lib.GenesisFilePath), bz, 0o644)
	_ = os.WriteFile(filepath.Join(osDir, "proposals.json"), []byte("{}"), 0o644)
	_ = os.WriteFile(filepath.Join(osDir, "polls.json"), []byte("{}"), 0o644)
	// pass 1: a dry run to learn how many file-system operations the history takes and where the commits are
	type span struct{ from, to int }
	var commitSpans []span
	genesisOps := 0 // file-system operations until the database exists and the genesis version is committed
	history := func(cfs *crashFS, rec map[uint64]recorded, onCommit func(v uint64, from, to int)) error {
		store.VerifPurgeBlockCache()
		nd, err := nodeOnFS(cfs, g, n0, osDir)
		if err != nil {
			return err
		}
		if genesisOps == 0 {
			genesisOps = cfs.ops
		}
		sim := &ledgerSim{n: nd, fee: 100, small: true}
		hrng := rand.New(rand.NewSource(seed)) // same transactions in both passes
		if rec != nil {
			rec[nd.st.Version()] = record(nd)
		}
		for b := 0; b < blocks; b++ {
			spec := randomBlock(hrng, 4, 3)
			for _, o := range spec.Ops {
				if tx, e := sim.txFor(o); e == nil {
					_, _ = nd.submit(tx)
				}
			}
			p, e := nd.propose()
			if e != nil {
				return fmt.Errorf("propose: %v", e)
			}
			m, e := nd.certify(p, []int{0, 1, 2, 3}, nil)
			if e != nil {
				return fmt.Errorf("certify: %v", e)
			}
			from := cfs.ops
			if e = nd.commit(m); e != nil {
				return fmt.Errorf("commit: %v", e)
			}
			v := nd.st.Version()
			if rec != nil {
				rec[v] = record(nd)
			}
			if onCommit != nil {
				onCommit(v, from, cfs.ops)
			}
			// between blocks: sometimes force a memtable flush so that sstables and the manifest are rewritten too
			if hrng.Intn(3) == 0 {
				_ = nd.st.DB().Flush()
			}
		}
		nd.c.Mempool.FSM.Discard()
		_ = nd.st.Close()
		return nil
	}
	dry := &crashFS{mem: vfs.NewCrashableMem(), targets: map[int]bool{}, images: map[int]*vfs.MemFS{}}
	dry.FS = dry.mem
	rec := map[uint64]recorded{}
	verAt := map[int]uint64{}
	if err := history(dry, rec, func(v uint64, from, to int) { commitSpans = append(commitSpans, span{from, to}); verAt[to] = v }); err != nil {
		return err
	}
	total := dry.ops
	// pass 2: the same history with crash images at the chosen operation boundaries
	for _, pct := range []int{0, 50, 100} {
		cfs := &crashFS{mem: vfs.NewCrashableMem(), targets: map[int]bool{}, images: map[int]*vfs.MemFS{}, pct: pct,
			rng: mrand.New(mrand.NewPCG(uint64(seed), uint64(pct)+1))}
		cfs.FS = cfs.mem
		for op := 1; op <= total; op++ {
			in := false
			for _, s := range commitSpans {
				in = in || (op > s.from && op <= s.to+2)
			}
			if in || rng.Intn(density) == 0 { // every boundary during a commit, a sample in between
				cfs.targets[op] = true
			}
		}
		rec := map[uint64]recorded{} // what THIS execution recorded (block hashes contain wall-clock time)
		if err := history(cfs, rec, nil); err != nil {
			return fmt.Errorf("replay pass: %v", err)
		}
		for op := 1; op <= total; op++ {
			img, ok := cfs.images[op]
			if !ok {
				continue
			}
			line := CrashLine{Kind: "image", Run: run, Op: op, Pct: pct, Phase: "between-commits", TotalOps: total}
			line.Committed = 1    // the genesis commit is version 1
			if op <= genesisOps { // the database is still being created / genesis is being written: nothing is committed yet
				line.Phase, line.Committed = "before-genesis", 0
			}
			for i, s := range commitSpans {
				if s.to < op {
					line.Committed = uint64(i + 2)
				}
				if op > s.from && op <= s.to {
					line.Phase, line.InFlight = "during-commit", uint64(i+2)
				}
			}
			checkImage(img, g, n0, osDir, rec, &line)
			if err := out.Encode(line); err != nil {
				return err
			}
		}
	}
	return out.Encode(CrashLine{Kind: "run", Run: run, TotalOps: total, Committed: uint64(len(commitSpans))})
}

func checkImage(img *vfs.MemFS, g *fsm.GenesisState, n0 *node, osDir string, rec map[uint64]recorded, line *CrashLine) {
	defer func() {
		if r := recover(); r != nil {
			line.Err = fmt.Sprint("panic while re-opening: ", r)
		}
	}()
	store.VerifPurgeBlockCache()
	nd, err := nodeOnFS(img, g, n0, osDir)
	if err != nil {
		line.Err = "re-open: " + err.Error()
		return
	}
	defer func() { nd.c.Mempool.FSM.Discard(); _ = nd.st.Close() }()
	line.Opens = true
	v := nd.st.Version()
	line.Version = v
	want, ok := rec[v]
	line.WasCommitted = ok && (v <= line.Committed || v == line.InFlight)
	line.FSMHeight = ok && nd.c.FSM.Height() == want.fsmHeight
	line.DigestOK = ok && nd.digest() == want.digest
	line.RootOK = true
	if ok && want.lastRoot != "" {
		if _, e := nd.st.Root(); e != nil {
			line.RootOK = false
		}
		if br, e2 := nd.st.GetBlockByHeight(want.fsmHeight - 1); e2 != nil || br == nil || br.BlockHeader == nil || hx(br.BlockHeader.StateRoot) != want.lastRoot {
			line.RootOK = false
		}
	}
	line.ArchiveOK = ok
	for h, hash := range want.blocks {
		br, e := nd.st.GetBlockByHeight(h)
		if e != nil || br == nil || br.BlockHeader == nil || hx(br.BlockHeader.Hash) != hash {
			line.ArchiveOK = false
			line.Err += fmt.Sprintf(" block %d missing/different;", h)
			continue
		}
		if qc, e := nd.st.GetQCByHeight(h); e != nil || qc == nil || qc.Header == nil {
			line.ArchiveOK = false
			line.Err += fmt.Sprintf(" certificate %d missing;", h)
		}
	}
	for u := uint64(1); u < v; u++ { // state as of every earlier version
		hsm, e2 := nd.c.FSM.TimeMachine(u)
		if e2 != nil {
			line.ArchiveOK = false
			line.Err += fmt.Sprintf(" historical state %d unreadable;", u)
			continue
		}
		hn := &node{c: nd.c, names: nd.names, scanFSM: hsm}
		if hn.digest() != rec[u].digest {
			line.ArchiveOK = false
			line.Err += fmt.Sprintf(" historical state %d different;", u)
		}
		if hsm != nd.c.FSM {
			hsm.Discard()
		}
	}
	// continue from here
	p, e := nd.propose()
	if e == nil {
		var m *lib.BlockMessage
		if m, e = nd.certify(p, []int{0, 1, 2, 3}, nil); e == nil {
			e = nd.commit(m)
		}
	}
	line.NextOK = e == nil
	if e != nil {
		line.Err += " next block: " + e.Error()
	}
}

func crashMode(seed int64, runs, blocks, density int, out *json.Encoder) error {
	for r := 0; r < runs; r++ {
		if err := crashRun(r, seed+int64(r)*101, blocks, density, out); err != nil {
			// the real node could not run its history on the (in-memory) file system at all: recorded, judged by CrashTrace
			_ = out.Encode(CrashLine{Kind: "history-failed", Run: r, Phase: "none", Err: err.Error()})
			return nil
		}
	}
	return nil
}
