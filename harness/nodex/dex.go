package main

import (
	"crypto/sha256"
	"encoding/hex"
	"encoding/json"
	"fmt"
	"math/big"
	big2 "math/big"
	"math/rand"
	"sort"

	"github.com/canopy-network/canopy/fsm"
	"github.com/canopy-network/canopy/lib"
	"github.com/canopy-network/canopy/lib/crypto"
	"github.com/canopy-network/canopy/store"
)

// dex / swap modes (specs/Dex.tla, specs/Swap.tla, property C20): the handlers of fsm/dex.go, fsm/swap.go and the order /
// dex message handlers are driven directly on the state machines of real nodes (two nodes = the two chains of the DEX
// pipeline, each handing its locked batch to the other through HandleDexBatch). Every operation is logged with its
// arguments and the chain state afterwards; TLC recomputes every step with the operators of the specifications.

type DexOrder struct {
	A   string `json:"a"`
	Amt uint64 `json:"amt"`
	Req uint64 `json:"req"`
}
type DexDep struct {
	A   string `json:"a"`
	Amt uint64 `json:"amt"`
}
type DexWd struct {
	A   string `json:"a"`
	Pct uint64 `json:"pct"`
}
type DexBatchRec struct {
	Orders   []DexOrder `json:"orders"`
	Deps     []DexDep   `json:"deps"`
	Wds      []DexWd    `json:"wds"`
	Receipts []uint64   `json:"receipts"`
	Pool     uint64     `json:"pool"`
	Rh       string     `json:"rh"`
	Id       string     `json:"id"`
}
type DexState struct {
	Bal  map[string]uint64 `json:"bal"`
	Liq  uint64            `json:"liq"`
	Pts  map[string]uint64 `json:"pts"`
	Tot  uint64            `json:"tot"`
	Hold uint64            `json:"hold"`
	Nxt  DexBatchRec       `json:"nxt"`
	Lck  DexBatchRec       `json:"lck"`
}
type DexLine struct {
	E      string            `json:"e"` // "dexstart" | "dex"
	Chain  string            `json:"chain"`
	Op     string            `json:"op"` // order | deposit | withdraw | deliver
	A      string            `json:"a"`
	Amt    uint64            `json:"amt"`
	Req    uint64            `json:"req"`
	Pct    uint64            `json:"pct"`
	Remote DexBatchRec       `json:"remote"`
	RPts   map[string]uint64 `json:"rpts"` // fallback: the remote chain's points ledger handed over with the batch
	RTot   uint64            `json:"rtot"`
	Perm   []int             `json:"perm"`
	NewId  string            `json:"newId"`
	Err    bool              `json:"err"`
	Msg    string            `json:"msg"`
	Post   DexState          `json:"post"`
	// big-number mode: the accounting identities evaluated with math/big (amounts do not fit TLC integers)
	Big       bool `json:"big"`
	HoldingOK bool `json:"holdingOK"`
	PointsOK  bool `json:"pointsOK"`
	SupplyOK  bool `json:"supplyOK"`
	KOK       bool `json:"kOK"` // every swap of this delivery: paid < reserve and (x+dX)(y-dY) >= xy
}

type dexChain struct {
	n       *node
	name    string
	id      uint64 // own chain id
	counter uint64 // the other chain's id
	accts   []crypto.AddressI
	names   map[string]string // hex address -> a0..; dead
	empties map[string]bool   // hashes of empty remote batches that were handled
	supply0 *big.Int
}

var deadAddr = func() crypto.AddressI {
	a, _ := crypto.NewAddressFromString("deaddeaddeaddeaddeaddeaddeaddeaddeaddead")
	return a
}()

func (c *dexChain) aname(b []byte) string {
	if n, ok := c.names[hex.EncodeToString(b)]; ok {
		return n
	}
	return "x" + hex.EncodeToString(b)
}

func shortHash(b []byte) string {
	if len(b) == 0 {
		return ""
	}
	return hex.EncodeToString(b)[:16]
}

func (c *dexChain) batchRec(b *lib.DexBatch, withPool bool) DexBatchRec {
	r := DexBatchRec{Orders: []DexOrder{}, Deps: []DexDep{}, Wds: []DexWd{}, Receipts: []uint64{}}
	if b == nil {
		return r
	}
	for _, o := range b.Orders {
		r.Orders = append(r.Orders, DexOrder{c.aname(o.Address), o.AmountForSale, o.RequestedAmount})
	}
	for _, d := range b.Deposits {
		r.Deps = append(r.Deps, DexDep{c.aname(d.Address), d.Amount})
	}
	for _, w := range b.Withdrawals {
		r.Wds = append(r.Wds, DexWd{c.aname(w.Address), w.Percent})
	}
	r.Receipts = append(r.Receipts, b.Receipts...)
	if withPool {
		r.Pool = b.PoolSize
	}
	r.Rh = shortHash(b.ReceiptHash)
	if c.empties[r.Rh] {
		r.Rh = "empty"
	}
	if !b.IsEmpty() {
		r.Id = shortHash(b.Copy().Hash())
	}
	return r
}

func (c *dexChain) state() (DexState, error) {
	s := c.n.c.FSM
	st := DexState{Bal: map[string]uint64{}, Pts: map[string]uint64{"dead": 0}}
	for i, a := range c.accts {
		b, e := s.GetAccountBalance(a)
		if e != nil {
			return st, e
		}
		st.Bal[fmt.Sprintf("a%d", i)] = b
		st.Pts[fmt.Sprintf("a%d", i)] = 0
	}
	p, e := s.GetPool(c.counter + fsm.LiquidityPoolAddend)
	if e != nil {
		return st, e
	}
	st.Liq, st.Tot = p.Amount, p.TotalPoolPoints
	for _, pt := range p.Points {
		st.Pts[c.aname(pt.Address)] += pt.Points
	}
	h, e := s.GetPool(c.counter + fsm.HoldingPoolAddend)
	if e != nil {
		return st, e
	}
	st.Hold = h.Amount
	nb, e := s.GetDexBatch(c.counter, false)
	if e != nil {
		return st, e
	}
	lb, e := s.GetDexBatch(c.counter, true)
	if e != nil {
		return st, e
	}
	st.Nxt, st.Lck = c.batchRec(nb, false), c.batchRec(lb, !lb.IsEmpty())
	st.Nxt.Rh, st.Nxt.Id = "", "" // the collecting batch has neither
	return st, nil
}

// the other chain's locked batch the way a chain reads it (GetDexBatch fills the pool size when nothing is stored)
func (c *dexChain) lockedForPeer() (*lib.DexBatch, error) {
	b, e := c.n.c.FSM.GetDexBatch(c.counter, true)
	if e != nil {
		return nil, e
	}
	return b, nil
}

func newDexChain(name string, id, counter uint64, liq, bal uint64) (*dexChain, error) {
	gs := ledgerGenesis(false, true)
	gs.Balance = bal
	gs.Accounts = 3
	base := gs.Params
	gs.Params = func(p *fsm.Params) { base(p); p.Validator.MinimumOrderSize = 1000 }
	n, err := newNode(gs, 0)
	if err != nil {
		return nil, err
	}
	tune(n)
	for i := 0; i < 2; i++ {
		p, e := n.propose()
		if e != nil {
			return nil, e
		}
		m, e := n.certify(p, []int{0}, nil)
		if e != nil {
			return nil, e
		}
		if e = n.commit(m); e != nil {
			return nil, e
		}
	}
	n.c.FSM.Config.ChainId = id
	c := &dexChain{n: n, name: name, id: id, counter: counter, names: map[string]string{hex.EncodeToString(deadAddr.Bytes()): "dead"}, empties: map[string]bool{}}
	for i, k := range n.accKeys {
		c.accts = append(c.accts, k.PublicKey().Address())
		c.names[hex.EncodeToString(k.PublicKey().Address().Bytes())] = fmt.Sprintf("a%d", i)
	}
	if e := n.c.FSM.PoolAdd(counter+fsm.LiquidityPoolAddend, liq); e != nil {
		return nil, e
	}
	return c, nil
}

func (c *dexChain) orderId(rng *rand.Rand) []byte {
	b := make([]byte, 20)
	rng.Read(b)
	return b
}

func bigSum(st DexState) *big.Int {
	t := new(big.Int)
	for _, v := range st.Bal {
		t.Add(t, new(big.Int).SetUint64(v))
	}
	t.Add(t, new(big.Int).SetUint64(st.Liq))
	t.Add(t, new(big.Int).SetUint64(st.Hold))
	return t
}

func (c *dexChain) fillBig(l *DexLine) {
	st := l.Post
	funds := new(big.Int)
	for _, b := range []DexBatchRec{st.Nxt, st.Lck} {
		for _, o := range b.Orders {
			funds.Add(funds, new(big.Int).SetUint64(o.Amt))
		}
		for _, d := range b.Deps {
			funds.Add(funds, new(big.Int).SetUint64(d.Amt))
		}
	}
	l.HoldingOK = funds.Cmp(new(big.Int).SetUint64(st.Hold)) == 0
	pts := new(big.Int)
	for _, v := range st.Pts {
		pts.Add(pts, new(big.Int).SetUint64(v))
	}
	l.PointsOK = pts.Cmp(new(big.Int).SetUint64(st.Tot)) == 0
	l.SupplyOK = bigSum(st).Cmp(c.supply0) == 0
	l.KOK = true
	if l.RPts == nil {
		l.RPts = map[string]uint64{"a0": 0, "a1": 0, "a2": 0, "dead": 0}
	}
}

func dexMode(seed int64, runs, rounds int, big bool, out *json.Encoder) error {
	_ = new(big2.Int)
	rng := rand.New(rand.NewSource(seed))
	for r := 0; r < runs; r++ {
		store.VerifPurgeBlockCache()
		liqA, liqB, bal := uint64(900+rng.Intn(900)), uint64(900+rng.Intn(900)), uint64(500)
		if r%3 == 1 {
			liqA, liqB = uint64(40+rng.Intn(60)), uint64(1200+rng.Intn(500)) // lopsided pools: rounding matters
		}
		if big {
			liqA, liqB, bal = 1<<62+uint64(rng.Int63n(1<<40)), 1<<61+uint64(rng.Int63n(1<<40)), 1<<60
			if r%2 == 1 {
				liqA, liqB = 3+uint64(rng.Intn(5)), 1<<63
			}
		}
		A, err := newDexChain("A", 1, 2, liqA, bal)
		if err != nil {
			return err
		}
		B, err := newDexChain("B", 2, 1, liqB, bal)
		if err != nil {
			return err
		}
		chains := []*dexChain{A, B}
		start := DexLine{E: "dexstart", Big: big, Perm: []int{}, Remote: A.batchRec(nil, false)}
		for _, c := range chains {
			st, e := c.state()
			if e != nil {
				return e
			}
			c.supply0 = bigSum(st)
			l := start
			l.Chain, l.Post = c.name, st
			c.fillBig(&l)
			_ = out.Encode(l)
		}
		amt := func() uint64 {
			if big {
				return []uint64{1, 2, 1 << 40, 1 << 59, 1<<60 - 1}[rng.Intn(5)]
			}
			return []uint64{1, 2, 3, 10, 50, 100, 150}[rng.Intn(7)]
		}
		failed := false
		for round := 0; round < rounds && !failed; round++ {
			// local operations on both chains
			for _, c := range chains {
				for k := rng.Intn(4); k > 0; k-- {
					who := rng.Intn(len(c.accts))
					l := DexLine{E: "dex", Chain: c.name, A: fmt.Sprintf("a%d", who), Big: big, Perm: []int{}, Remote: c.batchRec(nil, false)}
					var e lib.ErrorI
					pick := rng.Intn(4)
					if big {
						pick = 0 // orders only: the reserves before the swaps of a delivery follow from the logged batches
					}
					switch pick {
					case 0, 1:
						l.Op, l.Amt = "order", amt()
						if rng.Intn(2) == 0 {
							l.Req = l.Amt / 2
						} else if rng.Intn(3) == 0 {
							l.Req = l.Amt * 2
						}
						e = c.n.c.FSM.HandleMessageDexLimitOrder(&fsm.MessageDexLimitOrder{ChainId: c.counter, AmountForSale: l.Amt, RequestedAmount: l.Req, Address: c.accts[who].Bytes(), OrderId: c.orderId(rng)})
					case 2:
						l.Op, l.Amt = "deposit", amt()
						e = c.n.c.FSM.HandleMessageDexLiquidityDeposit(&fsm.MessageDexLiquidityDeposit{ChainId: c.counter, Amount: l.Amt, Address: c.accts[who].Bytes(), OrderId: c.orderId(rng)})
					case 3:
						l.Op, l.Pct = "withdraw", []uint64{1, 25, 50, 100}[rng.Intn(4)]
						e = c.n.c.FSM.HandleMessageDexLiquidityWithdraw(&fsm.MessageDexLiquidityWithdraw{ChainId: c.counter, Percent: l.Pct, Address: c.accts[who].Bytes(), OrderId: c.orderId(rng)})
					}
					if e != nil {
						l.Err, l.Msg = true, e.Error()
					}
					st, se := c.state()
					if se != nil {
						return se
					}
					l.Post = st
					c.fillBig(&l)
					_ = out.Encode(l)
				}
			}
			// deliveries: mostly alternating, sometimes the same chain twice (a batch delivered again), sometimes skipped
			order := []int{0, 1}
			if rng.Intn(2) == 0 {
				order = []int{1, 0}
			}
			if rng.Intn(4) == 0 {
				order = append(order, order[0])
			}
			if rng.Intn(5) == 0 {
				order = order[:1]
			}
			for _, ci := range order {
				c, o := chains[ci], chains[1-ci]
				remote, e := o.lockedForPeer()
				if e != nil {
					return e
				}
				if remote.IsEmpty() {
					c.empties[shortHash(remote.Copy().Hash())] = true // Hash() fills in the receipt hash of an empty batch: not on the original
				}
				l := DexLine{E: "dex", Chain: c.name, Op: "deliver", Big: big, Perm: []int{}}
				l.Remote = o.batchRec(remote, true) // identity of the batch as the receipt hash will name it (the fallback flag is not part of it)
				// liveness fallback: our locked batch has been waiting; the remote batch comes flagged and with the remote points ledger
				if own, _ := c.n.c.FSM.GetDexBatch(c.counter, true); !big && own != nil && !own.IsEmpty() && rng.Intn(5) == 0 {
					ost, _ := o.state()
					l.Op, l.RPts, l.RTot = "fallback", ost.Pts, ost.Tot
					remote.LivenessFallback = true
					op, _ := o.n.c.FSM.GetPool(o.counter + fsm.LiquidityPoolAddend)
					remote.PoolPoints, remote.TotalPoolPoints = op.Points, op.TotalPoolPoints
				}
				// execution order of the remote orders: by hash key over the previous block hash
				prev, be := c.n.c.FSM.LoadBlock(c.n.c.FSM.Height() - 1)
				if be != nil || prev == nil {
					return fmt.Errorf("previous block: %v", be)
				}
				sorted, _ := remote.CopyOrders(prev.BlockHeader.Hash)
				idx := make([]int, len(sorted))
				for i := range idx {
					idx[i] = i
				}
				sort.SliceStable(idx, func(i, j int) bool { return sorted[idx[i]].Key < sorted[idx[j]].Key })
				for _, i := range idx {
					l.Perm = append(l.Perm, i+1)
				}
				before, _ := c.state()
				he := c.n.c.FSM.HandleDexBatch(c.counter, &lib.CertificateResult{DexBatch: remote}, false)
				if he != nil {
					l.Err, l.Msg = true, he.Error()
					failed = true
				}
				st, se := c.state()
				if se != nil {
					return se
				}
				l.Post = st
				l.NewId = st.Lck.Id // used by the specification only if this delivery locks a batch
				c.fillBig(&l)
				l.KOK = true
				if big && he == nil && st.Lck.Id != before.Lck.Id && len(st.Lck.Receipts) == len(remote.Orders) {
					// x: the counter pool as handed over minus what it already paid for our own locked orders; y: our pool
					// after our own orders settled (= the pool recorded in the batch that was just locked)
					x := new(big2.Int).SetUint64(remote.PoolSize)
					if len(before.Lck.Orders) == len(remote.Receipts) && before.Lck.Id != "" {
						for _, rc := range remote.Receipts {
							x.Sub(x, new(big2.Int).SetUint64(rc))
						}
					}
					y := new(big2.Int).SetUint64(st.Lck.Pool)
					for _, i := range l.Perm {
						dx, dy := new(big2.Int).SetUint64(remote.Orders[i-1].AmountForSale), new(big2.Int).SetUint64(st.Lck.Receipts[i-1])
						if dy.Sign() == 0 {
							continue
						}
						k0 := new(big2.Int).Mul(x, y)
						if dy.Cmp(y) >= 0 {
							l.KOK = false
						}
						x.Add(x, dx)
						y.Sub(y, dy)
						if new(big2.Int).Mul(x, y).Cmp(k0) < 0 {
							l.KOK = false
						}
					}
				}
				_ = out.Encode(l)
				if failed {
					break
				}
			}
		}
		A.n.close()
		B.n.close()
	}
	return nil
}

// ---- order book ---------------------------------------------------------------------------------------------------

type BookEntry struct {
	Id     int    `json:"id"`
	Amt    uint64 `json:"amt"`
	Seller string `json:"seller"`
	Buyer  string `json:"buyer"`
}
type SwapState struct {
	Bal    map[string]uint64 `json:"bal"`
	Escrow uint64            `json:"escrow"`
	Book   []BookEntry       `json:"book"`
}
type SwapLine struct {
	E      string    `json:"e"` // "swapstart" | "swap"
	Op     string    `json:"op"`
	A      string    `json:"a"`
	Id     int       `json:"id"`
	Amt    uint64    `json:"amt"`
	Locks  []int     `json:"locks"`
	Buyer  string    `json:"buyer"`
	Resets []int     `json:"resets"`
	Closes []int     `json:"closes"`
	Err    bool      `json:"err"`
	Msg    string    `json:"msg"`
	Post   SwapState `json:"post"`
}

func swapMode(seed int64, runs, steps int, out *json.Encoder) error {
	rng := rand.New(rand.NewSource(seed))
	for r := 0; r < runs; r++ {
		store.VerifPurgeBlockCache()
		c, err := newDexChain("S", 1, 2, 1, 100000)
		if err != nil {
			return err
		}
		s := c.n.c.FSM
		const chain = 2
		ids := [][]byte{} // creation index (1-based) -> order id
		idOf := map[string]int{}
		state := func() (SwapState, error) {
			st := SwapState{Bal: map[string]uint64{}, Book: []BookEntry{}}
			for i, a := range c.accts {
				b, e := s.GetAccountBalance(a)
				if e != nil {
					return st, e
				}
				st.Bal[fmt.Sprintf("a%d", i)] = b
			}
			p, e := s.GetPool(chain + fsm.EscrowPoolAddend)
			if e != nil {
				return st, e
			}
			st.Escrow = p.Amount
			ob, e := s.GetOrderBook(chain)
			if e != nil {
				return st, e
			}
			for _, o := range ob.Orders {
				be := BookEntry{Id: idOf[string(o.Id)], Amt: o.AmountForSale, Seller: c.aname(o.SellersSendAddress), Buyer: "none"}
				if o.BuyerReceiveAddress != nil {
					be.Buyer = c.aname(o.BuyerReceiveAddress)
				}
				st.Book = append(st.Book, be)
			}
			sort.Slice(st.Book, func(i, j int) bool { return st.Book[i].Id < st.Book[j].Id })
			return st, nil
		}
		// orders imported the way genesis does (SetOrderBooks): keyed and escrowed by the book's chain id; the order's own
		// committee field is whatever the file says
		if r%2 == 1 {
			book := &lib.OrderBook{ChainId: chain}
			for j := 0; j < 2; j++ {
				id := make([]byte, 20)
				rng.Read(id)
				committee := uint64(0)
				if j == 1 {
					committee = chain
				}
				book.Orders = append(book.Orders, &lib.SellOrder{Id: id, Committee: committee, AmountForSale: 2000 + uint64(j)*1000, RequestedAmount: 5,
					SellerReceiveAddress: c.accts[j].Bytes(), SellersSendAddress: c.accts[j].Bytes()})
				ids = append(ids, id)
				idOf[string(id)] = len(ids)
			}
			if e := s.SetOrderBooks(&lib.OrderBooks{OrderBooks: []*lib.OrderBook{book}}, &fsm.Supply{}); e != nil {
				return e
			}
		}
		st0, e := state()
		if e != nil {
			return e
		}
		_ = out.Encode(SwapLine{E: "swapstart", Locks: []int{}, Resets: []int{}, Closes: []int{}, Post: st0})
		vp, _ := s.GetParamsVal()
		minOrder := vp.MinimumOrderSize
		pickId := func() int {
			if len(ids) == 0 || rng.Intn(8) == 0 {
				return len(ids) + 1 + rng.Intn(2) // an id that does not exist
			}
			return 1 + rng.Intn(len(ids))
		}
		raw := func(i int) []byte {
			if i >= 1 && i <= len(ids) {
				return ids[i-1]
			}
			h := sha256.Sum256([]byte{byte(i), 0x77})
			return h[:20]
		}
		for k := 0; k < steps; k++ {
			l := SwapLine{E: "swap", Locks: []int{}, Resets: []int{}, Closes: []int{}}
			var he lib.ErrorI
			who := rng.Intn(len(c.accts))
			amt := minOrder + uint64(rng.Intn(5))*1000
			if rng.Intn(10) == 0 {
				amt = minOrder - 1 // below the minimum
			}
			op := rng.Intn(10)
			scripted := 0
			if r%2 == 1 && k < 2 { // the imported orders first: deleted by their sellers, once and again
				op, scripted = 5, 1
			}
			switch {
			case op < 3:
				l.Op, l.A, l.Amt = "create", fmt.Sprintf("a%d", who), amt
				id := make([]byte, 20)
				rng.Read(id)
				l.Id = len(ids) + 1
				he = s.HandleMessageCreateOrder(&fsm.MessageCreateOrder{ChainId: chain, AmountForSale: amt, RequestedAmount: 77, SellerReceiveAddress: c.accts[who].Bytes(), SellersSendAddress: c.accts[who].Bytes(), OrderId: id})
				if he == nil {
					ids = append(ids, id)
					idOf[string(id)] = len(ids)
				}
			case op < 5:
				l.Op, l.Id, l.Amt = "edit", pickId(), amt
				he = s.HandleMessageEditOrder(&fsm.MessageEditOrder{OrderId: raw(l.Id), ChainId: chain, AmountForSale: amt, RequestedAmount: 78, SellerReceiveAddress: c.accts[who].Bytes()})
			case op < 6:
				l.Op, l.Id = "delete", pickId()
				if scripted != 0 {
					l.Id = scripted
				}
				he = s.HandleMessageDeleteOrder(&fsm.MessageDeleteOrder{OrderId: raw(l.Id), ChainId: chain})
			default: // a certificate with lock / reset / close instructions, duplicates and conflicts included
				l.Op = "cert"
				buyer := rng.Intn(len(c.accts))
				l.Buyer = fmt.Sprintf("a%d", buyer)
				orders := &lib.Orders{}
				for j := rng.Intn(3); j > 0; j-- {
					id := pickId()
					l.Locks = append(l.Locks, id)
					orders.LockOrders = append(orders.LockOrders, &lib.LockOrder{OrderId: raw(id), ChainId: chain, BuyerReceiveAddress: c.accts[buyer].Bytes(), BuyerSendAddress: c.accts[buyer].Bytes(), BuyerChainDeadline: 100})
				}
				for j := rng.Intn(3); j > 0; j-- {
					id := pickId()
					l.Resets = append(l.Resets, id)
					orders.ResetOrders = append(orders.ResetOrders, raw(id))
				}
				for j := rng.Intn(4); j > 0; j-- {
					id := pickId()
					if len(l.Closes) > 0 && rng.Intn(3) == 0 {
						id = l.Closes[0] // the same order twice
					}
					l.Closes = append(l.Closes, id)
					orders.CloseOrders = append(orders.CloseOrders, raw(id))
				}
				s.HandleCommitteeSwaps(orders, chain)
			}
			if he != nil {
				l.Err, l.Msg = true, he.Error()
			}
			st, e := state()
			if e != nil {
				return e
			}
			l.Post = st
			_ = out.Encode(l)
		}
		c.n.close()
	}
	return nil
}
