package main

import (
	"bytes"
	"encoding/json"
	"math/rand"
	"sort"

	"github.com/canopy-network/canopy/bft"
	"github.com/canopy-network/canopy/fsm"
	"github.com/canopy-network/canopy/lib"
	"github.com/canopy-network/canopy/store"
	"google.golang.org/protobuf/encoding/protowire"
	"google.golang.org/protobuf/proto"
)

// gate mode (specs/CertificateDef.tla, property C02): certificate cases are materialised with real BLS keys, real blocks
// and real results and handed to controller.HandlePeerBlock of a real node. The abstract case goes into the trace with
// the node's answer; TLC decides soundness (accepted => genuinely certified by +2/3 exactly as committed).

var gateFields = []string{"net", "chain", "height", "rootH", "round", "phase", "block", "results", "proposer"}

type GateLine struct {
	Kind            string         `json:"kind"` // "case"
	Power           []uint64       `json:"power"`
	SignedBy        []int          `json:"signedBy"`
	Sigs            []int          `json:"sigs"`
	Bitmap          []int          `json:"bitmap"`
	Signed          map[string]int `json:"signed"`
	Cert            map[string]int `json:"cert"`
	AttachedBlock   int            `json:"attachedBlock"`
	AttachedResults int            `json:"attachedResults"`
	Honest          bool           `json:"honest"`
	Accepted        bool           `json:"accepted"`
	Err             string         `json:"err"`
	Dev             string         `json:"dev"`
	BitmapBytes     int            `json:"bitmapBytes"` // extra padding bytes appended to the signer bitmap
}

type gateCase struct {
	signedBy, sigs, bitmap []int
	signed, cert           map[string]int
	ablock, aresults       int
	dev                    string
	padBytes               int
	corruptSig             bool
}

func nn(s []int) []int {
	if s == nil {
		return []int{}
	}
	return s
}

func zeroFields() map[string]int {
	m := map[string]int{}
	for _, f := range gateFields {
		m[f] = 0
	}
	return m
}

func (c gateCase) clone() gateCase {
	d := c
	d.signedBy, d.sigs, d.bitmap = append([]int{}, c.signedBy...), append([]int{}, c.sigs...), append([]int{}, c.bitmap...)
	d.signed, d.cert = map[string]int{}, map[string]int{}
	for k, v := range c.signed {
		d.signed[k] = v
	}
	for k, v := range c.cert {
		d.cert[k] = v
	}
	return d
}

var gateWorlds int

type gateWorld struct {
	n       *node
	power   []uint64
	h       uint64
	p, p2   *proposal
	altRes  *lib.CertificateResult
	gs      GenesisSpec
	applied int
}

func newGateWorld(power []uint64) (*gateWorld, error) {
	store.VerifPurgeBlockCache()
	gs := ledgerGenesis(false, false)
	gs.Stakes = make([]uint64, 6)
	for i, p := range power {
		gs.Stakes[i] = p * 1000
	}
	base := gs.Params
	gs.Params = func(p *fsm.Params) { base(p); p.Validator.MaxCommitteeSize = 10 }
	gs.Committees = [][]uint64{{1}, {1}, {1}, {1}, nil, nil}
	n, err := newNode(gs, 0)
	if err != nil {
		return nil, err
	}
	tune(n)
	w := &gateWorld{n: n, power: power, gs: gs}
	all := []int{0, 1, 2, 3}
	for i := 0; i < 2; i++ {
		p, e := n.propose()
		if e != nil {
			return nil, e
		}
		m, e := n.certify(p, all, nil)
		if e != nil {
			return nil, e
		}
		if e = n.commit(m); e != nil {
			return nil, e
		}
	}
	w.h = n.height()
	sim := &ledgerSim{n: n, fee: 100, small: true}
	tx, _ := sim.txFor(Op{Op: "send", Who: 0, To: 1, Amt: 11})
	if _, e := n.submit(tx); e != nil {
		return nil, e
	}
	var e lib.ErrorI
	if w.p, e = n.propose(); e != nil {
		return nil, e
	}
	tx2, _ := sim.txFor(Op{Op: "send", Who: 1, To: 2, Amt: 22})
	if _, e = n.submit(tx2); e != nil {
		return nil, e
	}
	if w.p2, e = n.propose(); e != nil {
		return nil, e
	}
	// every other world: the node is a replica that has already validated the honest proposal in the bft round (its result
	// is cached, as after the PROPOSE phase) - what arrives as "the block" must still carry a +2/3 certificate
	gateWorlds++
	if gateWorlds%2 == 0 {
		hash, _ := new(lib.Block).BytesToBlockHash(w.p.block)
		pq := &lib.QuorumCertificate{Header: &lib.View{NetworkId: 1, ChainId: 1, Height: w.h, RootHeight: w.h, Phase: lib.Phase_ELECTION_VOTE},
			Block: w.p.block, BlockHash: hash, Results: w.p.results, ResultsHash: w.p.results.Hash(), ProposerKey: n.valKeys[0].PublicKey().Bytes()}
		br, e2 := n.c.ValidateProposal(w.p.rcBuild, pq, &bft.ByzantineEvidence{DSE: bft.NewDSE()})
		if e2 != nil {
			return nil, e2
		}
		n.c.Consensus.BlockResult = br
	}
	// alternative certificate results (another reward recipient)
	w.altRes = &lib.CertificateResult{RewardRecipients: &lib.RewardRecipients{PaymentPercents: []*lib.PaymentPercents{{Address: n.valKeys[2].PublicKey().Address().Bytes(), Percent: 100, ChainId: 1}}}, SlashRecipients: &lib.SlashRecipients{}}
	return w, nil
}

// header fields of a certificate for abstract values (0 = the honest value)
func (w *gateWorld) qcFor(vals map[string]int) *lib.QuorumCertificate {
	n := w.n
	pick := func(f string, honest, other uint64) uint64 {
		if vals[f] == 0 {
			return honest
		}
		return other
	}
	v := &lib.View{NetworkId: pick("net", 1, 2), ChainId: pick("chain", 1, 2), Height: pick("height", w.h, w.h-1), RootHeight: pick("rootH", w.h, w.h-1),
		Round: pick("round", 0, 1), Phase: lib.Phase_PRECOMMIT_VOTE}
	if vals["phase"] != 0 {
		v.Phase = lib.Phase_PROPOSE_VOTE
	}
	qc := &lib.QuorumCertificate{Header: v, ProposerKey: n.valKeys[0].PublicKey().Bytes()}
	if vals["proposer"] != 0 {
		qc.ProposerKey = n.valKeys[1].PublicKey().Bytes()
	}
	blk := w.p.block
	if vals["block"] != 0 {
		blk = w.p2.block
	}
	qc.BlockHash, _ = new(lib.Block).BytesToBlockHash(blk)
	res := w.p.results
	if vals["results"] != 0 {
		res = w.altRes
	}
	qc.ResultsHash = res.Hash()
	return qc
}

func (w *gateWorld) run(c gateCase, out *json.Encoder) (accepted bool) {
	n := w.n
	vs, err := n.c.FSM.LoadCommittee(1, w.h)
	if err != nil {
		return false
	}
	signedQC := w.qcFor(c.signed)
	sb := signedQC.SignBytes()
	mk := vs.MultiKey.Copy()
	for _, i := range c.sigs {
		_, idx, e := vs.GetValidatorAndIdx(n.valKeys[i-1].PublicKey().Bytes())
		if e != nil {
			continue
		}
		_ = mk.AddSigner(n.valKeys[i-1].Sign(sb), idx)
	}
	sig, e := mk.AggregateSignatures()
	if e != nil {
		sig = make([]byte, 96)
	}
	if c.corruptSig {
		sig = append([]byte{}, sig...)
		sig[5] ^= 0x40
	}
	// claimed bitmap
	bm := vs.MultiKey.Copy()
	for _, i := range c.bitmap {
		_, idx, e := vs.GetValidatorAndIdx(n.valKeys[i-1].PublicKey().Bytes())
		if e != nil {
			continue
		}
		_ = bm.AddSigner(n.valKeys[i-1].Sign([]byte("x")), idx) // only used to set the bit
	}
	bitmap := append([]byte{}, bm.Bitmap()...)
	for i := 0; i < c.padBytes; i++ {
		bitmap = append(bitmap, 0)
	}
	qc := w.qcFor(c.cert)
	qc.Signature = &lib.AggregateSignature{Signature: sig, Bitmap: bitmap}
	qc.Block = w.p.block
	if c.ablock == 1 {
		qc.Block = w.p2.block
	}
	if c.ablock == 2 { // the certified block's own bytes followed by a second occurrence of the header field: the raw first occurrence
		// still hashes to the certified hash, the decoded block (occurrences merged) is another block with a self-consistent hash
		blk := new(lib.Block)
		_ = lib.Unmarshal(w.p.block, blk)
		over := &lib.BlockHeader{StateRoot: bytes.Repeat([]byte{0x5a}, 32)}
		merged := proto.Clone(blk.BlockHeader).(*lib.BlockHeader)
		proto.Merge(merged, over)
		over.Hash, _ = merged.SetHash()
		ob, _ := lib.Marshal(over)
		raw := append([]byte{}, w.p.block...)
		raw = protowire.AppendTag(raw, 1, protowire.BytesType)
		qc.Block = protowire.AppendBytes(raw, ob)
	}
	qc.Results = w.p.results
	if c.aresults != 0 {
		qc.Results = w.altRes
	}
	_, herr := n.c.HandlePeerBlock(&lib.BlockMessage{ChainId: 1, BlockAndCertificate: qc}, false)
	line := GateLine{Kind: "case", Power: w.power, SignedBy: nn(c.signedBy), Sigs: nn(c.sigs), Bitmap: nn(c.bitmap), Signed: c.signed, Cert: c.cert,
		AttachedBlock: c.ablock, AttachedResults: c.aresults, Accepted: herr == nil, Dev: c.dev, BitmapBytes: c.padBytes}
	if herr != nil {
		line.Err = herr.Error()
	}
	honest := c.dev == "honest"
	line.Honest = honest && w.quorum(c.signedBy)
	_ = out.Encode(line)
	return herr == nil
}

func (w *gateWorld) quorum(s []int) bool {
	var t, p uint64
	for _, x := range w.power {
		t += x
	}
	for _, i := range s {
		p += w.power[i-1]
	}
	return p >= 2*t/3+1
}

func subsets() [][]int {
	var out [][]int
	for m := 0; m < 16; m++ {
		var s []int
		for i := 0; i < 4; i++ {
			if m&(1<<uint(i)) != 0 {
				s = append(s, i+1)
			}
		}
		out = append(out, s)
	}
	return out
}

// deviations of a case (one step), mirroring Dev1 of Certificate.tla plus byte-level ones (padding, corrupt signature)
func deviate(c gateCase, rng *rand.Rand, all bool) []gateCase {
	var out []gateCase
	for _, f := range gateFields {
		d := c.clone()
		d.cert[f] = 1
		d.dev += "+cert." + f
		out = append(out, d)
		d = c.clone()
		d.signed[f] = 1
		d.dev += "+signed." + f
		out = append(out, d)
		d = c.clone()
		d.cert[f], d.signed[f] = 1, 1
		d.dev += "+both." + f
		out = append(out, d)
	}
	for _, s := range subsets() {
		d := c.clone()
		d.bitmap = append([]int{}, s...)
		d.dev += "+bitmap"
		out = append(out, d)
		// fewer signatures aggregated than claimed / than signed (a subset of the genuine signers)
		ok := true
		for _, x := range s {
			in := false
			for _, y := range c.signedBy {
				in = in || x == y
			}
			ok = ok && in
		}
		if ok {
			d = c.clone()
			d.sigs = append([]int{}, s...)
			d.dev += "+sigs"
			out = append(out, d)
		}
	}
	d := c.clone()
	d.ablock = 1
	d.dev += "+attachedBlock"
	out = append(out, d)
	d = c.clone()
	d.ablock = 2
	d.dev += "+attachedBlockMergedHeader"
	out = append(out, d)
	d = c.clone()
	d.aresults = 1
	d.dev += "+attachedResults"
	out = append(out, d)
	d = c.clone()
	d.padBytes = 1 + rng.Intn(3)
	d.dev += "+bitmapPadBytes"
	out = append(out, d)
	d = c.clone()
	d.corruptSig = true
	d.sigs = []int{} // a corrupted aggregate is the signature of nobody
	d.dev += "+corruptSignature"
	out = append(out, d)
	if !all {
		rng.Shuffle(len(out), func(i, j int) { out[i], out[j] = out[j], out[i] })
	}
	return out
}

func gateMode(seed int64, budget int, out *json.Encoder) error {
	rng := rand.New(rand.NewSource(seed))
	powers := [][]uint64{{1, 1, 1, 1}, {5, 3, 2, 1}, {1000000, 1, 1, 1}, {2, 2, 1, 1}}
	done := 0
	for _, pw := range powers {
		w, err := newGateWorld(pw)
		if err != nil {
			return err
		}
		renew := func() error {
			w.n.close()
			var e error
			w, e = newGateWorld(pw)
			return e
		}
		per := budget / len(powers)
		count := 0
		try := func(c gateCase) error {
			count++
			done++
			if w.run(c, out) { // the node committed: it is consumed
				return renew()
			}
			return nil
		}
		sets := subsets()
		rng.Shuffle(len(sets), func(i, j int) { sets[i], sets[j] = sets[j], sets[i] })
		for _, s := range sets {
			if count >= per {
				break
			}
			sort.Ints(s)
			base := gateCase{signedBy: s, sigs: s, bitmap: s, signed: zeroFields(), cert: zeroFields(), dev: "honest"}
			if err := try(base); err != nil {
				return err
			}
			if w.quorum(s) { // always: a genuinely certified block in a non-canonical encoding that decodes to another block
				d := base.clone()
				d.ablock, d.dev = 2, "honest+attachedBlockMergedHeader"
				if err := try(d); err != nil {
					return err
				}
			}
			d1 := deviate(base, rng, false)
			for i, c := range d1 {
				if count >= per || i > per/(2*len(sets))+6 {
					break
				}
				if err := try(c); err != nil {
					return err
				}
				if rng.Intn(3) == 0 { // second deviation
					d2 := deviate(c, rng, false)
					for j := 0; j < 2 && j < len(d2); j++ {
						if err := try(d2[j]); err != nil {
							return err
						}
					}
				}
			}
		}
		w.n.close()
	}
	_ = done
	return nil
}
