package main

import (
	"bufio"
	"encoding/hex"
	"encoding/json"
	"fmt"
	"math/rand"
	"os"
	"os/exec"
	"strings"
	"time"

	"github.com/canopy-network/canopy/bft"
	"github.com/canopy-network/canopy/controller"
	"github.com/canopy-network/canopy/lib"
	"github.com/canopy-network/canopy/lib/crypto"
	"github.com/canopy-network/canopy/store"
	"google.golang.org/protobuf/encoding/protowire"
	"google.golang.org/protobuf/proto"
	"google.golang.org/protobuf/reflect/protoreflect"
)

// handlers mode (property C19, last sentence: "... and the handlers that follow them never panic or hang").
// A child process runs a real node with its REAL inbox listeners (ListenForConsensus, ListenForBlock, ListenForTx,
// ListenForBlockRequests, gossip mode on) and injects into the P2P inboxes, one at a time, genuine peer messages and
// structurally incomplete variants of them: every sub-message removed in turn, every bytes field emptied, adversarial
// length prefixes at every nesting level (also inside embedded block bytes). Messages are (re)signed by a validator key
// where a signature is part of the message, so the code behind the signature checks is reached as well. The listeners have
// no recover(): a panic kills the child. The parent supervises: the child notes the case it is about to inject; if it dies
// or does not finish the case in time, the parent records the case and restarts the child behind it.

type HandlerLine struct {
	E       string `json:"e"` // "handler"
	Topic   string `json:"topic"`
	Base    string `json:"base"`    // which genuine message the case was derived from
	Variant string `json:"variant"` // how
	Index   int    `json:"index"`
	Panic   bool   `json:"panic"`
	Hang    bool   `json:"hang"`
	Msg     string `json:"msg"` // first lines of the panic
	Hex     string `json:"hex"` // the injected bytes (only for failing cases)
}

type hcase struct {
	topic         lib.Topic
	base, variant string
	bz            []byte
}

// ---- variants -------------------------------------------------------------------------------------------------------

// clears: every message-typed (or list / bytes) field removed in turn, at every depth; f re-finalises (signs) the clone
func clearVariants(m proto.Message, finalize func(proto.Message)) (out []struct {
	name string
	m    proto.Message
}) {
	var paths [][]protoreflect.FieldDescriptor
	var walk func(r protoreflect.Message, prefix []protoreflect.FieldDescriptor, depth int)
	walk = func(r protoreflect.Message, prefix []protoreflect.FieldDescriptor, depth int) {
		r.Range(func(fd protoreflect.FieldDescriptor, v protoreflect.Value) bool {
			p := append(append([]protoreflect.FieldDescriptor{}, prefix...), fd)
			if fd.Kind() == protoreflect.MessageKind || fd.Kind() == protoreflect.BytesKind || fd.IsList() {
				paths = append(paths, p)
			}
			if fd.Kind() == protoreflect.MessageKind && !fd.IsList() && !fd.IsMap() && depth < 6 {
				walk(v.Message(), p, depth+1)
			}
			if fd.Kind() == protoreflect.MessageKind && fd.IsList() && v.List().Len() > 0 && depth < 6 {
				walk(v.List().Get(0).Message(), p, depth+1)
			}
			return true
		})
	}
	walk(m.ProtoReflect(), nil, 0)
	for _, p := range paths {
		c := proto.Clone(m)
		r := c.ProtoReflect()
		ok := true
		for i, fd := range p {
			if i == len(p)-1 {
				r.Clear(fd)
				break
			}
			if !r.Has(fd) {
				ok = false
				break
			}
			if fd.IsList() {
				r = r.Mutable(fd).List().Get(0).Message()
			} else {
				r = r.Mutable(fd).Message()
			}
		}
		if !ok {
			continue
		}
		var names []string
		for _, fd := range p {
			names = append(names, string(fd.Name()))
		}
		if finalize != nil {
			finalize(c)
		}
		out = append(out, struct {
			name string
			m    proto.Message
		}{"without:" + strings.Join(names, "."), c})
	}
	return
}

// lengthVariants: at every nesting level (bytes fields whose content parses as fields count as nested), the length prefix
// of one length-delimited field replaced by an adversarial value; enclosing lengths stay consistent
func lengthVariants(b []byte, depth int) (out [][]byte) {
	if depth > 5 {
		return
	}
	off := 0
	for off < len(b) {
		num, typ, n := protowire.ConsumeTag(b[off:])
		if n < 0 {
			return
		}
		tagStart := off
		off += n
		m := protowire.ConsumeFieldValue(num, typ, b[off:])
		if m < 0 {
			return
		}
		if typ == protowire.BytesType {
			content, _ := protowire.ConsumeBytes(b[off:])
			head, tail := b[:tagStart], b[off+m:]
			for _, l := range []uint64{^uint64(0), 1 << 63, 1<<63 - 1, 1 << 32, uint64(len(content)) + 1} {
				v := append([]byte{}, head...)
				v = protowire.AppendVarint(protowire.AppendTag(v, num, typ), l)
				v = append(append(v, content...), tail...)
				out = append(out, v)
			}
			if len(content) > 1 {
				for _, inner := range lengthVariants(content, depth+1) {
					v := append([]byte{}, head...)
					v = protowire.AppendBytes(protowire.AppendTag(v, num, typ), inner)
					out = append(out, append(v, tail...))
				}
			}
		}
		off += m
	}
	return
}

// ---- the child ------------------------------------------------------------------------------------------------------

func handlerCases(n *node, seed int64) []hcase {
	rng := rand.New(rand.NewSource(seed))
	c := n.c
	h := c.FSM.Height()
	var cases []hcase
	add := func(topic lib.Topic, base string, m proto.Message, finalize func(proto.Message)) {
		bz, _ := lib.Marshal(m)
		cases = append(cases, hcase{topic, base, "genuine", bz})
		for _, v := range clearVariants(m, finalize) {
			if b, e := lib.Marshal(v.m); e == nil {
				cases = append(cases, hcase{topic, base, v.name, b})
			}
		}
		lv := lengthVariants(bz, 0)
		rng.Shuffle(len(lv), func(i, j int) { lv[i], lv[j] = lv[j], lv[i] })
		if len(lv) > 60 {
			lv = lv[:60]
		}
		for i, b := range lv {
			cases = append(cases, hcase{topic, base, fmt.Sprintf("length-prefix#%d", i), b})
		}
		cases = append(cases, hcase{topic, base, "truncated", bz[:len(bz)/2]}, hcase{topic, base, "empty", []byte{}})
	}
	// a genuine next block, certified by everyone, and the certificate of the previous height
	p, err := n.propose()
	if err != nil {
		panic(err)
	}
	good, err := n.certify(p, []int{0, 1, 2, 3}, nil)
	if err != nil {
		panic(err)
	}
	prevQC, _ := n.st.GetQCByHeight(h - 1)
	prevQC.Block, prevQC.Results = nil, nil
	qcFull := good.BlockAndCertificate
	sign := func(key crypto.PrivateKeyI) func(proto.Message) {
		return func(m proto.Message) { _ = m.(*bft.Message).Sign(key) }
	}
	view := func(ph lib.Phase) *lib.View {
		return &lib.View{NetworkId: c.Config.NetworkID, ChainId: 1, Height: h, RootHeight: h, Round: 0, Phase: ph}
	}
	vs, _ := c.FSM.LoadCommittee(1, h)
	voteQC := func(ph lib.Phase) *lib.QuorumCertificate { // what a replica signs in a vote for the proposal
		return &lib.QuorumCertificate{Header: view(ph), BlockHash: qcFull.BlockHash, ResultsHash: qcFull.ResultsHash, ProposerKey: c.PublicKey}
	}
	aggregate := func(q *lib.QuorumCertificate) *lib.QuorumCertificate { // +2/3 certificate over q
		mk := vs.MultiKey.Copy()
		for _, k := range n.valKeys {
			if _, idx, e := vs.GetValidatorAndIdx(k.PublicKey().Bytes()); e == nil {
				_ = mk.AddSigner(k.Sign(q.SignBytes()), idx)
			}
		}
		sig, _ := mk.AggregateSignatures()
		out := proto.Clone(q).(*lib.QuorumCertificate)
		out.Signature = &lib.AggregateSignature{Signature: sig, Bitmap: mk.Bitmap()}
		return out
	}
	evid := (&multiSim{}).evidence(n, h-1, 1)
	last, _ := c.FSM.GetLastProposers()
	vrf := bft.VRF(last.Addresses, h, h, 0, n.valKeys[0])
	var ev []*bft.DoubleSignEvidence
	if evid != nil {
		ev = append(ev, evid)
	}
	// leader messages (signed by validator 0, the heavy one)
	add(lib.Topic_CONSENSUS, "election", &bft.Message{Header: view(lib.Phase_ELECTION), Vrf: vrf}, sign(n.valKeys[0]))
	electionQC := aggregate(&lib.QuorumCertificate{Header: view(lib.Phase_ELECTION_VOTE), ProposerKey: c.PublicKey})
	electionQC.Block, electionQC.Results = qcFull.Block, qcFull.Results
	electionQC.BlockHash, electionQC.ResultsHash = qcFull.BlockHash, qcFull.ResultsHash
	add(lib.Topic_CONSENSUS, "propose", &bft.Message{Header: view(lib.Phase_PROPOSE), Qc: electionQC, HighQc: prevQC, LastDoubleSignEvidence: ev, Timestamp: uint64(time.Now().UnixMicro())}, sign(n.valKeys[0]))
	add(lib.Topic_CONSENSUS, "precommit", &bft.Message{Header: view(lib.Phase_PRECOMMIT), Qc: aggregate(voteQC(lib.Phase_PROPOSE_VOTE))}, sign(n.valKeys[0]))
	add(lib.Topic_CONSENSUS, "commit", &bft.Message{Header: view(lib.Phase_COMMIT), Qc: aggregate(voteQC(lib.Phase_PRECOMMIT_VOTE))}, sign(n.valKeys[0]))
	// replica messages (signed by validator 1)
	vdf := &crypto.VDF{Proof: []byte{1, 2, 3}, Output: []byte{4, 5, 6}, Iterations: 7}
	add(lib.Topic_CONSENSUS, "election-vote", &bft.Message{Qc: &lib.QuorumCertificate{Header: view(lib.Phase_ELECTION_VOTE), ProposerKey: c.PublicKey}, HighQc: prevQC, LastDoubleSignEvidence: ev, Vdf: vdf}, sign(n.valKeys[1]))
	add(lib.Topic_CONSENSUS, "propose-vote", &bft.Message{Qc: voteQC(lib.Phase_PROPOSE_VOTE)}, sign(n.valKeys[1]))
	add(lib.Topic_CONSENSUS, "precommit-vote", &bft.Message{Qc: voteQC(lib.Phase_PRECOMMIT_VOTE)}, sign(n.valKeys[1]))
	add(lib.Topic_CONSENSUS, "pacemaker", &bft.Message{Qc: &lib.QuorumCertificate{Header: view(lib.Phase_ROUND_INTERRUPT)}}, sign(n.valKeys[1]))
	// block gossip, transactions, block requests
	add(lib.Topic_BLOCK, "block", good, nil)
	if tx, e := (&ledgerSim{n: n, fee: 100}).txFor(Op{Op: "send", Who: 0, To: 1, Amt: 5}); e == nil {
		bz, _ := lib.Marshal(tx)
		add(lib.Topic_TX, "tx", &lib.TxMessage{ChainId: 1, Txs: [][]byte{bz}}, nil)
	}
	add(lib.Topic_BLOCK_REQUEST, "block-request", &lib.BlockRequestMessage{ChainId: 1, Height: h - 1}, nil)
	return cases
}

func handlersChild(seed int64, start int, progress string) error {
	store.VerifPurgeBlockCache()
	n, err := newNode(ledgerGenesis(false, false), 0)
	if err != nil {
		return err
	}
	tune(n)
	for i := 0; i < 3; i++ { // some history
		p, e := n.propose()
		if e != nil {
			return e
		}
		m, e := n.certify(p, []int{0, 1, 2, 3}, nil)
		if e == nil {
			e = n.commit(m)
		}
		if e != nil {
			return e
		}
	}
	c := n.c
	c.P2P.SetGossipMode(true)
	cases := handlerCases(n, seed)
	pf, err := os.OpenFile(progress, os.O_CREATE|os.O_WRONLY|os.O_APPEND, 0o644)
	if err != nil {
		return err
	}
	defer pf.Close()
	go func() {
		for range c.Consensus.ResetBFT {
		}
	}()
	go c.ListenForConsensus()
	go c.ListenForBlock()
	go c.ListenForTx()
	go c.ListenForBlockRequests()
	sender := &lib.PeerInfo{Address: &lib.PeerAddress{PublicKey: n.valKeys[2].PublicKey().Bytes(), NetAddress: "tcp://peer", PeerMeta: &lib.PeerMeta{NetworkId: 1, ChainId: 1}}}
	fmt.Fprintf(pf, "total %d\n", len(cases))
	for i := start; i < len(cases); i++ {
		cs := cases[i]
		fmt.Fprintf(pf, "case %d %s %s %s %s\n", i, cs.topic.String(), cs.base, strings.ReplaceAll(cs.variant, " ", "_"), hex.EncodeToString(cs.bz))
		ch := c.P2P.Inbox(cs.topic)
		ch <- &lib.MessageAndMetadata{Message: cs.bz, Sender: sender}
		// a sentinel behind it: once the (single) listener has taken the sentinel, the case has been handled completely
		ch <- &lib.MessageAndMetadata{Message: []byte{0xff, byte(i), byte(i >> 8)}, Sender: sender}
		deadline := time.Now().Add(20 * time.Second)
		for len(ch) > 0 {
			if time.Now().After(deadline) {
				fmt.Fprintf(pf, "hang %d\n", i)
				os.Exit(3)
			}
			time.Sleep(200 * time.Microsecond)
		}
		fmt.Fprintf(pf, "done %d\n", i)
	}
	fmt.Fprintf(pf, "end\n")
	return nil
}

// ---- the parent -----------------------------------------------------------------------------------------------------

func handlersMode(seed int64, out *json.Encoder) error {
	dir, err := os.MkdirTemp("", "nodex-handlers-")
	if err != nil {
		return err
	}
	defer os.RemoveAll(dir)
	start, total, restarts := 0, -1, 0
	seen := map[string]bool{}
	for restarts < 400 {
		progress := fmt.Sprintf("%s/progress-%d", dir, restarts)
		cmd := exec.Command(os.Args[0], "handlers-child", fmt.Sprint(seed), fmt.Sprint(start), progress, dir+"/child.out")
		var stderr strings.Builder
		cmd.Stderr = &stderr
		runErr := cmd.Run()
		f, e := os.Open(progress)
		if e != nil {
			return fmt.Errorf("child left no progress file: %v %v %s", runErr, e, stderr.String())
		}
		var cur []string
		done, ended, hang := -1, false, false
		sc := bufio.NewScanner(f)
		sc.Buffer(make([]byte, 1<<20), 64<<20)
		for sc.Scan() {
			fs := strings.Fields(sc.Text())
			switch fs[0] {
			case "total":
				fmt.Sscan(fs[1], &total)
			case "case":
				cur = fs
			case "done":
				fmt.Sscan(fs[1], &done)
			case "hang":
				hang = true
			case "end":
				ended = true
			}
		}
		f.Close()
		if ended && runErr == nil {
			break
		}
		if cur == nil {
			return fmt.Errorf("child failed before the first case: %v %s", runErr, lastLines(stderr.String(), 12))
		}
		var idx int
		fmt.Sscan(cur[1], &idx)
		if idx == done && !hang { // died after completing a case and before announcing the next one: not attributable
			return fmt.Errorf("child died between cases: %v %s", runErr, lastLines(stderr.String(), 12))
		}
		msg := panicHead(stderr.String())
		l := HandlerLine{E: "handler", Index: idx, Topic: cur[2], Base: cur[3], Variant: cur[4], Panic: !hang, Hang: hang, Msg: msg, Hex: cur[5]}
		if len(l.Hex) > 4000 {
			l.Hex = l.Hex[:4000]
		}
		_ = out.Encode(l)
		seen[l.Base+"/"+l.Variant] = true
		start = idx + 1
		restarts++
	}
	return out.Encode(HandlerLine{E: "handler", Variant: "summary", Index: total, Msg: fmt.Sprintf("%d cases injected into the real listeners, %d killed or hung the node", total, len(seen))})
}

func lastLines(s string, n int) string {
	ls := strings.Split(strings.TrimSpace(s), "\n")
	if len(ls) > n {
		ls = ls[len(ls)-n:]
	}
	return strings.Join(ls, " | ")
}

// panicHead: the panic message and the first frames that are in the repository
func panicHead(s string) string {
	i := strings.Index(s, "panic:")
	if i < 0 {
		i = strings.Index(s, "fatal error:")
	}
	if i < 0 {
		return lastLines(s, 3)
	}
	var keep []string
	for _, ln := range strings.Split(s[i:], "\n") {
		t := strings.TrimSpace(ln)
		if strings.HasPrefix(t, "panic:") || strings.HasPrefix(t, "fatal error:") || strings.HasPrefix(t, "[signal") {
			keep = append(keep, t)
		} else if strings.Contains(t, "canopy-network/canopy/") && strings.Contains(t, "(") && !strings.Contains(t, "/harness/") {
			if j := strings.LastIndex(t, "("); j > 0 { // drop the argument list, keep the receiver
				t = t[:j]
			}
			keep = append(keep, strings.TrimPrefix(t, "github.com/canopy-network/canopy/"))
		}
		if len(keep) > 6 {
			break
		}
	}
	return strings.Join(keep, " <- ")
}

var _ = controller.Cons
