package main

import (
	"encoding/hex"
	"encoding/json"
	"fmt"
	"math/big"
	"math/rand"
	"os"
	"sort"
	"time"

	"github.com/canopy-network/canopy/fsm"
	"github.com/canopy-network/canopy/lib"
	"github.com/canopy-network/canopy/lib/crypto"
	"github.com/canopy-network/canopy/store"
)

// Op is one ledger operation of a script (the action vocabulary of specs/Ledger.tla)
type Op struct {
	Op     string   `json:"op"`               // send stake edit pause unpause unstake
	Who    int      `json:"who"`              // validator index (or account index for send)
	To     int      `json:"to,omitempty"`     // send: receiving account index
	Amt    uint64   `json:"amt,omitempty"`    // send / stake / edit amount
	Comm   []uint64 `json:"comm,omitempty"`   // stake / edit committees
	Deleg  bool     `json:"deleg,omitempty"`  // stake as delegate
	Compnd bool     `json:"compnd,omitempty"` // auto-compound rewards
}

// BlockSpec is one block of a script
type BlockSpec struct {
	Ops      []Op  `json:"ops"`
	NonSign  []int `json:"nonsign"`  // validators that do not sign this block's certificate
	DblSign  []int `json:"dblsign"`  // validators reported as double signers (for the previous height) in the certificate results
	DblTwo   bool  `json:"dblTwo"`   // ... for the two previous heights
	PayTo    []int `json:"payto"`    // reward recipients of this certificate (validator indices); empty = proposer
	Proposer int   `json:"proposer"` // which validator's key is named as proposer in the certificate
}

type LedgerLine struct {
	Kind     string `json:"kind"` // "genesis" | "block" | "wedge" | "end"
	Run      int    `json:"run"`
	Scan     *Scan  `json:"scan"`
	Mint     uint64 `json:"mint"`     // scheduled mint of this block (driver's transcription of the schedule)
	Slashed  uint64 `json:"slashed"`  // sum of slash events of this block
	Rewarded uint64 `json:"rewarded"` // sum of reward events of this block
	PrevPool uint64 `json:"prevPool"` // sum of pools before the block
	Included int    `json:"included"` // transactions included
	Fees     uint64 `json:"fees"`     // sum of the fees of the included transactions
	Refused  int    `json:"refused"`  // operations the mempool refused
	Err      string `json:"err"`
	Note     string `json:"note"`
	Small    bool   `json:"small"` // every amount fits 31 bits: TLC recomputes the sums itself
	// double-sign reports carried by the PREVIOUS block's certificate, handled at the start of this block: each must now be
	// recorded in the (validator, height) index so that it can never be slashed again
	DblSign []DblRec `json:"dblsign"`
}

// norm makes every list non-nil (the TLA+ JSON reader does not accept null)
func (l LedgerLine) norm() LedgerLine {
	if l.DblSign == nil {
		l.DblSign = []DblRec{}
	}
	return l
}

type DblRec struct {
	Name    string `json:"name"`
	H       uint64 `json:"h"`
	Indexed bool   `json:"indexed"`
	Existed bool   `json:"existed"` // the validator existed when the report was handled
}

type ledgerSim struct {
	reported   map[string]bool // (validator, height) pairs already reported as double signs
	pendingDbl []DblRec
	hist       map[string]string // "chain/height" -> committee answered when that height was current
	n          *node
	run        int
	out        *json.Encoder
	small      bool
	rng        *rand.Rand
	fee        uint64
	prev       *Scan
	approveAll func(lib.TransactionI) // several nodes (multi mode): approve on all of them
}

// validator 0 holds more than 2/3 of the power, always signs and is never touched by the generated operations, so
// that a block that cannot be committed is a ledger problem and not a lost quorum
var wrapGenesis = false // total supply within a few block mints of 2^64
var genesisVariant = 0  // parameter variants of the ledger genesis (see ledgerGenesis)
var protocolV2 = false  // committee scoped slashing with a per-block cap (protocol version 2)

func ledgerGenesis(big64, empty bool) GenesisSpec {
	gs := GenesisSpec{Stakes: []uint64{1000000, 2, 2, 1, 0, 0}, Accounts: 3, Balance: 100000,
		Committees: [][]uint64{{1, 2, 3}, {2, 1}, {1}, {1, 2}, nil, nil}, // the heavy validator makes committees 2 and 3 subsidized too
		Params: func(p *fsm.Params) {
			p.Validator.UnstakingBlocks = 3
			p.Validator.DelegateUnstakingBlocks = 2
			p.Validator.MaxPauseBlocks = 4
			p.Validator.NonSignWindow = 3
			p.Validator.MaxNonSign = 1
			p.Validator.NonSignSlashPercentage = 50
			p.Validator.DoubleSignSlashPercentage = 50
			p.Validator.MaxSlashPerCommittee = 100
			p.Validator.MinimumStakeForValidators = 0
			p.Validator.MaxCommittees = 3
			p.Validator.StakePercentForSubsidizedCommittee = 1 // committees 2 and 3 qualify as soon as somebody with weight stakes for them
			p.Validator.MaxCommitteeSize = 3
			p.Validator.MaximumDelegatesPerCommittee = 2
			p.Fee.SendFee, p.Fee.StakeFee, p.Fee.EditStakeFee, p.Fee.UnstakeFee, p.Fee.PauseFee, p.Fee.UnpauseFee = 100, 100, 100, 100, 100, 100
		}}
	if empty {
		gs.Stakes = []uint64{1000000, 0, 0, 0, 0, 0}
	}
	if genesisVariant == 1 { // a minimum stake that a slash can push a validator below (it is then forced to unstake)
		base := gs.Params
		gs.Params = func(p *fsm.Params) { base(p); p.Validator.MinimumStakeForValidators = 2 }
	}
	if genesisVariant == 2 { // no limit on delegates (0) while the committee itself is small: three delegates for chain 1
		base := gs.Params
		gs.Params = func(p *fsm.Params) {
			base(p)
			p.Validator.MaximumDelegatesPerCommittee = 0
			p.Validator.MaxCommitteeSize = 2
		}
		gs.Delegate = []bool{false, true, true, true, false, false}
	}
	if protocolV2 {
		base := gs.Params
		gs.Params = func(p *fsm.Params) {
			base(p)
			p.Consensus.ProtocolVersion = fsm.NewProtocolVersion(0, 2)
			p.Validator.DoubleSignSlashPercentage = 10
			p.Validator.NonSignSlashPercentage = 5
			p.Validator.MaxSlashPerCommittee = 15
		}
		gs.Stakes = []uint64{1000000, 2000, 2000, 1000, 0, 0}
	}
	if big64 {
		gs.Balance = (1 << 62) / 8
		gs.Stakes = []uint64{1 << 61, 1 << 58, 1 << 58, 1, 0, 0}
		if wrapGenesis {
			// 9 accounts: total = 9*Balance + stakes = 2^64 - 3*2^58 - something small
			gs.Balance = (^uint64(0) - (1 << 61) - (1 << 59) - 1 - 3*(1<<58)) / 9
		}
	}
	return gs
}

func newLedgerSim(run int, out *json.Encoder, big64, empty bool) (*ledgerSim, error) {
	store.VerifPurgeBlockCache() // process-wide, keyed by height: a new chain must not see the previous one's blocks
	n, err := newNode(ledgerGenesis(big64, empty), 0)
	if err != nil {
		return nil, err
	}
	n.c.FSM.Config.InitialTokensPerBlock = 1003 // not divisible by the number of subsidized committees after the DAO cut
	n.c.FSM.Config.BlocksPerHalvening = 10
	n.c.Config.InitialTokensPerBlock = 1003
	n.c.Config.BlocksPerHalvening = 10
	if big64 {
		n.c.FSM.Config.InitialTokensPerBlock = 1 << 58
		n.c.Config.InitialTokensPerBlock = 1 << 58
	}
	n.c.Mempool.FSM.Config.InitialTokensPerBlock = n.c.FSM.Config.InitialTokensPerBlock
	n.c.Mempool.FSM.Config.BlocksPerHalvening = n.c.FSM.Config.BlocksPerHalvening
	if n.c.Consensus != nil { // normal operation (no chain halt): governance proposals are decided by the operator's approve list
		n.c.Consensus.VerifSetProposalVoteDeadline(time.Now().Add(time.Hour))
	}
	s := &ledgerSim{n: n, run: run, out: out, small: !big64, fee: 100}
	sc, e := n.scan()
	if e != nil {
		return nil, e
	}
	s.finish(sc)
	s.prev = sc
	return s, out.Encode(LedgerLine{Kind: "genesis", Run: run, Scan: sc, Small: s.small}.norm())
}

// history: remember the committee of the current height and re-query every past height (in a shuffled order so that
// the shared historical validator cache and its eviction are exercised)
func (s *ledgerSim) history(sc *Scan, rng *rand.Rand) {
	if s.hist == nil {
		s.hist = map[string]string{}
	}
	snap := func(chain, h uint64) string {
		vs, err := s.n.c.FSM.LoadCommittee(chain, h)
		if err != nil {
			return "err:" + fmt.Sprint(err.Code())
		}
		out := fmt.Sprintf("T%d/M%d", vs.TotalPower, vs.MinimumMaj23)
		for _, m := range vs.ValidatorSet.ValidatorSet {
			out += fmt.Sprintf("|%x:%d", m.PublicKey[:4], m.VotingPower)
		}
		return out
	}
	var keys []string
	for k := range s.hist {
		keys = append(keys, k)
	}
	sort.Strings(keys)
	if rng != nil {
		rng.Shuffle(len(keys), func(i, j int) { keys[i], keys[j] = keys[j], keys[i] })
	}
	for _, k := range keys {
		var chain, h uint64
		fmt.Sscanf(k, "%d/%d", &chain, &h)
		sc.HistChecked++
		if snap(chain, h) != s.hist[k] {
			sc.HistOK = false
		}
	}
	for _, chain := range []uint64{1, 2} {
		s.hist[fmt.Sprintf("%d/%d", chain, sc.Height)] = snap(chain, sc.Height)
	}
	// what nested chains are told (root chain info, "latest" = height 0): the committee of the current height and, as the
	// previous committee, the one of the height before - the same sets an explicit query for those heights answers
	fmtSet := func(vs lib.ValidatorSet) string {
		out := fmt.Sprintf("T%d/M%d", vs.TotalPower, vs.MinimumMaj23)
		if vs.ValidatorSet != nil {
			for _, m := range vs.ValidatorSet.ValidatorSet {
				out += fmt.Sprintf("|%x:%d", m.PublicKey[:4], m.VotingPower)
			}
		}
		return out
	}
	if sc.Height > 2 && s.n.scanFSM == nil {
		for _, chain := range []uint64{1, 2} {
			info, err := s.n.c.FSM.LoadRootChainInfo(chain, 0)
			if err != nil || info == nil {
				continue // no committee for that chain
			}
			sc.HistChecked++
			cur, e1 := lib.NewValidatorSet(info.ValidatorSet)
			prev, e2 := lib.NewValidatorSet(info.LastValidatorSet)
			if e1 != nil || e2 != nil {
				continue
			}
			if fmtSet(cur) != snap(chain, info.Height) || fmtSet(prev) != snap(chain, info.Height-1) {
				sc.HistOK = false
			}
		}
	}
}

func (s *ledgerSim) finish(sc *Scan) {
	if s.hist != nil || sc.Comm != nil && len(sc.Comm) > 0 {
		s.history(sc, s.rng)
	}
	t := new(big.Int)
	for _, a := range sc.Accounts {
		t.Add(t, new(big.Int).SetUint64(a.V))
		sc.SumAcc += a.V
	}
	for _, p := range sc.Pools {
		t.Add(t, new(big.Int).SetUint64(p.V))
		sc.SumPool += p.V
	}
	for _, v := range sc.Vals {
		t.Add(t, new(big.Int).SetUint64(v.Stake))
		sc.SumStake += v.Stake
	}
	t.Sub(t, new(big.Int).SetUint64(sc.Total))
	sc.SumResidual = t.String()
	sc.NoWrap = true
	for _, a := range sc.Accounts {
		sc.NoWrap = sc.NoWrap && a.V <= sc.Total
	}
	for _, p := range sc.Pools {
		sc.NoWrap = sc.NoWrap && p.V <= sc.Total
	}
	for _, v := range sc.Vals {
		sc.NoWrap = sc.NoWrap && v.Stake <= sc.Total
	}
	if !s.small {
		// TLC integers are 32 bit: in the near-2^64 runs every amount is reported scaled down by 2^40 (the exact
		// predicates are the big-integer residual and the NoWrap flag computed above)
		const sh = 40
		for i := range sc.Accounts {
			sc.Accounts[i].V >>= sh
		}
		for i := range sc.Pools {
			sc.Pools[i].V >>= sh
		}
		for i := range sc.Vals {
			sc.Vals[i].Stake >>= sh
		}
		for i := range sc.CStaked {
			sc.CStaked[i].V >>= sh
		}
		for i := range sc.CDeleg {
			sc.CDeleg[i].V >>= sh
		}
		sc.Total, sc.Staked, sc.Delegated = sc.Total>>sh, sc.Staked>>sh, sc.Delegated>>sh
		sc.SumAcc, sc.SumPool, sc.SumStake = sc.SumAcc>>sh, sc.SumPool>>sh, sc.SumStake>>sh
	}
}

// approve: the operators of every node that executes this chain put the proposal on their approve list
func (s *ledgerSim) approve(tx lib.TransactionI) {
	if s.approveAll != nil {
		s.approveAll(tx)
		return
	}
	s.n.approve(tx)
}

func (s *ledgerSim) key(i int) crypto.PrivateKeyI { return s.n.valKeys[i] }

func (s *ledgerSim) txFor(o Op) (lib.TransactionI, lib.ErrorI) {
	h := s.n.height()
	switch o.Op {
	case "send":
		from := s.n.accKeys[o.Who%len(s.n.accKeys)]
		to := s.n.accKeys[o.To%len(s.n.accKeys)].PublicKey().Address()
		return fsm.NewSendTransaction(from, to, o.Amt, 1, 1, s.fee, h, "")
	case "stake":
		k := s.key(o.Who)
		comm := o.Comm
		if len(comm) == 0 {
			comm = []uint64{1}
		}
		return fsm.NewStakeTx(k, k.PublicKey().Bytes(), k.PublicKey().Address(), "tcp://localhost", comm, o.Amt, 1, 1, s.fee, h, o.Deleg, !o.Compnd, "")
	case "edit":
		k := s.key(o.Who)
		comm := o.Comm
		if len(comm) == 0 {
			comm = []uint64{1}
		}
		return fsm.NewEditStakeTx(k, k.PublicKey().Address(), k.PublicKey().Address(), "tcp://localhost", comm, o.Amt, 1, 1, s.fee, h, !o.Compnd, "")
	case "pause":
		k := s.key(o.Who)
		return fsm.NewPauseTx(k, k.PublicKey().Address(), 1, 1, s.fee, h, "")
	case "unpause":
		k := s.key(o.Who)
		return fsm.NewUnpauseTx(k, k.PublicKey().Address(), 1, 1, s.fee, h, "")
	case "unstake":
		k := s.key(o.Who)
		return fsm.NewUnstakeTx(k, k.PublicKey().Address(), 1, 1, s.fee, h, "")
	case "subsidy": // account -> the pool of a committee
		from := s.n.accKeys[o.Who%len(s.n.accKeys)]
		return fsm.NewSubsidyTx(from, o.Amt, uint64(1+o.To%3), nil, 1, 1, 10000, h, "")
	case "dao": // DAO pool -> account (a governance proposal: on the operator's approve list)
		from := s.n.accKeys[o.Who%len(s.n.accKeys)]
		tx, e := fsm.NewDAOTransferTx(from, o.Amt, 1, 5000, 1, 1, 10000, h, false, "")
		if e == nil {
			s.approve(tx)
		}
		return tx, e
	case "maxcomm": // governance lowers / raises the number of committees a validator may stake for: everybody above it is trimmed
		from := s.n.accKeys[o.Who%len(s.n.accKeys)]
		tx, e := fsm.NewChangeParamTxUint64(from, fsm.ParamSpaceVal, fsm.ParamMaxCommittees, o.Amt, 1, 5000, 1, 1, 20000, h, "")
		if e == nil {
			s.approve(tx)
		}
		return tx, e
	}
	return nil, lib.ErrInvalidArgument()
}

// mint is the driver's own transcription of the block mint schedule
func (s *ledgerSim) mint(h uint64) uint64 {
	cfg := s.n.c.FSM.Config
	if h <= 1 {
		return 0
	}
	return cfg.InitialTokensPerBlock >> (h / cfg.BlocksPerHalvening)
}

// block executes one BlockSpec on the real node and records the scan
func (s *ledgerSim) block(b BlockSpec, note string) (ok bool) {
	n := s.n
	line := LedgerLine{Kind: "block", Run: s.run, Small: s.small, Note: note, DblSign: []DblRec{}}
	for _, o := range b.Ops {
		tx, err := s.txFor(o)
		if err != nil {
			line.Refused++
			continue
		}
		if _, err = n.submit(tx); err != nil {
			line.Refused++
		}
	}
	h := n.height()
	p, err := n.propose()
	if err != nil {
		line.Kind, line.Err = "wedge", fmt.Sprintf("height %d: cannot produce a block: %v", h, err)
		line.Scan = s.prev
		_ = s.out.Encode(line.norm())
		return false
	}
	blk := new(lib.Block)
	_ = lib.Unmarshal(p.block, blk)
	line.Included = len(blk.Transactions)
	for _, raw := range blk.Transactions {
		t := new(lib.Transaction)
		if lib.Unmarshal(raw, t) == nil {
			line.Fees += t.Fee
		}
	}
	// the state the proposed header commits to (the mempool's working copy after CheckMempool, failing transactions
	// dropped): the ledger equations must already hold there
	if ps, e := n.scanProposal(); e == nil {
		hist := s.hist
		s.hist = nil
		s.finish(ps)
		s.hist = hist
		ps.HistOK, ps.HistChecked = true, 0
		// the committee of the current height is a question about the COMMITTED state: the proposer's working copy (which
		// holds the uncommitted transactions of its proposal) must give the same answer as the committed state machine
		for _, chain := range []uint64{1, 2} {
			a, e1 := n.c.Mempool.FSM.LoadCommittee(chain, n.c.Mempool.FSM.Height())
			b, e2 := n.c.FSM.LoadCommittee(chain, n.c.FSM.Height())
			ps.HistChecked++
			if (e1 == nil) != (e2 == nil) {
				ps.HistOK = false
			} else if e1 == nil {
				if a.TotalPower != b.TotalPower || a.MinimumMaj23 != b.MinimumMaj23 || a.NumValidators != b.NumValidators {
					ps.HistOK = false
				}
			}
		}
		_ = s.out.Encode(LedgerLine{Kind: "proposal", Run: s.run, Scan: ps, Small: s.small, Included: line.Included, Note: note}.norm())
	}
	// certificate results: reward recipients and double signers as the script says
	if len(b.PayTo) > 0 {
		var pp []*lib.PaymentPercents
		share := uint64(100 / len(b.PayTo))
		for _, i := range b.PayTo {
			pp = append(pp, &lib.PaymentPercents{Address: n.valKeys[i].PublicKey().Address().Bytes(), Percent: share, ChainId: 1})
		}
		p.results.RewardRecipients = &lib.RewardRecipients{PaymentPercents: pp}
	}
	var dblSign []int
	for _, i := range b.DblSign {
		// a delegate signs nothing, so no evidence can name it: a certificate of an honest quorum never orders its slash
		if v, e := n.c.FSM.GetValidator(n.valKeys[i].PublicKey().Address()); e == nil && v.Delegate {
			continue
		}
		dblSign = append(dblSign, i)
	}
	for _, i := range dblSign {
		if p.results.SlashRecipients == nil {
			p.results.SlashRecipients = &lib.SlashRecipients{}
		}
		heights := []uint64{h - 1}
		if s.reported == nil {
			s.reported = map[string]bool{}
		}
		if b.DblTwo && h > 3 && !s.reported[fmt.Sprintf("%d/%d", i, h-2)] { // two heights in one report: under protocol 2 the second slash hits the per-block cap and ejects
			heights = []uint64{h - 1, h - 2}
		}
		for _, x := range heights {
			s.reported[fmt.Sprintf("%d/%d", i, x)] = true
		}
		p.results.SlashRecipients.DoubleSigners = append(p.results.SlashRecipients.DoubleSigners,
			&lib.DoubleSigner{Id: n.valKeys[i].PublicKey().Bytes(), Heights: heights})
	}
	var signers []int
	for i := range n.valKeys {
		skip := false
		for _, x := range b.NonSign {
			if x == i {
				skip = true
			}
		}
		if !skip {
			signers = append(signers, i)
		}
	}
	m, err := n.certify(p, signers, n.valKeys[b.Proposer%len(n.valKeys)].PublicKey().Bytes())
	if err == nil {
		if os.Getenv("NODEX_DEBUG") != "" {
			for _, rh := range []uint64{h - 2, h - 1, h} {
				vs, e := n.c.FSM.LoadCommittee(1, rh)
				if e == nil {
					_, e2 := m.BlockAndCertificate.Check(vs, 1<<30, &lib.View{NetworkId: 1, ChainId: 1}, false)
					fmt.Fprintf(os.Stderr, "h=%d committee@%d n=%d power=%d check=%v\n", h, rh, vs.NumValidators, vs.TotalPower, e2)
				}
			}
		}
		err = n.commit(m)
	}
	if err != nil {
		line.Kind, line.Err = "wedge", fmt.Sprintf("height %d: block does not commit: %v", h, err)
		line.Scan = s.prev
		_ = s.out.Encode(line.norm())
		return false
	}
	sc, e := n.scan()
	if e != nil {
		line.Kind, line.Err, line.Scan = "wedge", "scan: "+e.Error(), s.prev
		_ = s.out.Encode(line.norm())
		return false
	}
	s.finish(sc)
	line.Scan = sc
	for _, d := range s.pendingDbl {
		for i, k := range n.valKeys {
			if addrName(n.names, k.PublicKey().Address().Bytes()) == d.Name {
				ok, e := n.st.IsValidDoubleSigner(n.valKeys[i].PublicKey().Address().Bytes(), d.H)
				d.Indexed = e == nil && !ok
			}
		}
		line.DblSign = append(line.DblSign, d)
	}
	s.pendingDbl = nil
	for _, i := range dblSign {
		name := addrName(n.names, n.valKeys[i].PublicKey().Address().Bytes())
		existed := false
		for _, v := range sc.Vals {
			existed = existed || v.Name == name
		}
		s.pendingDbl = append(s.pendingDbl, DblRec{Name: name, H: h - 1, Existed: existed})
	}
	line.Mint = s.mint(h)
	line.PrevPool = s.prev.SumPool
	// events of the committed block
	if br, e := n.st.GetBlockByHeight(h); e == nil && br != nil {
		for _, ev := range br.Events {
			switch x := ev.Msg.(type) {
			case *lib.Event_Slash:
				line.Slashed += x.Slash.Amount
			case *lib.Event_Reward:
				line.Rewarded += x.Reward.Amount
			}
		}
	}
	if !s.small {
		line.Mint, line.Slashed, line.Rewarded, line.PrevPool = line.Mint>>40, line.Slashed>>40, line.Rewarded>>40, line.PrevPool>>40
	}
	s.prev = sc
	_ = s.out.Encode(line.norm())
	return true
}

// drain: empty blocks until every deferred action (unstaking, max-pause) has fired: the no-wedge clause
func (s *ledgerSim) drain() bool {
	for i := 0; i < 12; i++ {
		maxH := uint64(0)
		for _, m := range s.prev.Unstaking {
			if m.H > maxH {
				maxH = m.H
			}
		}
		for _, m := range s.prev.Paused {
			if m.H > maxH {
				maxH = m.H
			}
		}
		if maxH < s.n.height() && i > 0 {
			return true
		}
		if !s.block(BlockSpec{}, "drain") {
			return false
		}
	}
	return true
}

func randomBlock(rng *rand.Rand, nv, na int) BlockSpec {
	b := BlockSpec{Proposer: 0}
	nops := rng.Intn(4)
	for i := 0; i < nops; i++ {
		o := Op{Who: 1 + rng.Intn(nv-1)}
		switch rng.Intn(9) {
		case 0:
			o.Op, o.Who, o.To, o.Amt = "send", rng.Intn(na), rng.Intn(na), uint64(rng.Intn(5000))
		case 1:
			o.Op, o.Amt, o.Deleg, o.Compnd = "stake", uint64(1+rng.Intn(4)), rng.Intn(4) == 0, rng.Intn(2) == 0
			o.Comm = [][]uint64{{1}, {1, 2}, {2}, {1, 2, 3}, {2, 1}, {3, 1, 2}}[rng.Intn(6)] // committee lists are stored as submitted (unsorted too)
		case 2:
			o.Op, o.Amt, o.Compnd = "edit", uint64(rng.Intn(6)), rng.Intn(2) == 0
			o.Comm = [][]uint64{{1}, {1, 2}, {2}, {1, 3}, {2, 1}, {3, 1}}[rng.Intn(6)]
		case 3, 4:
			o.Op = "pause"
		case 5:
			o.Op = "unpause"
		case 6, 7:
			o.Op = "unstake"
		case 8:
			o.Op, o.Who, o.To, o.Amt = "send", rng.Intn(na), rng.Intn(na), 1<<40 // fails: insufficient funds
			if k := rng.Intn(4); k == 3 {
				o.Op, o.Amt = "maxcomm", uint64(1+rng.Intn(3))
			} else if k == 1 {
				o.Op, o.Amt = "subsidy", uint64(1+rng.Intn(3000))
			} else if k == 2 {
				o.Op, o.Amt = "dao", uint64(1+rng.Intn(400)) // fails when the DAO pool holds less
			}
		}
		b.Ops = append(b.Ops, o)
	}
	// validator 0 always signs; any of the others may abstain
	for i := 1; i < nv; i++ {
		if rng.Intn(3) == 0 {
			b.NonSign = append(b.NonSign, i)
		}
	}
	if rng.Intn(5) == 0 {
		b.DblSign = []int{1 + rng.Intn(nv-1)}
		b.DblTwo = rng.Intn(2) == 0
	}
	if rng.Intn(2) == 0 {
		b.PayTo = []int{rng.Intn(nv)}
		if rng.Intn(2) == 0 {
			b.PayTo = append(b.PayTo, rng.Intn(nv))
		}
	}
	return b
}

// ledgerRandom: `runs` seeded random histories of `blocks` blocks each, each followed by a drain
func ledgerRandom(seed int64, runs, blocks int, big64 bool, out *json.Encoder) error {
	rng := rand.New(rand.NewSource(seed))
	for r := 0; r < runs; r++ {
		protocolV2 = !big64 && r%3 == 2
		genesisVariant = 0
		if !big64 && r%3 != 2 {
			genesisVariant = (r / 3) % 3
		}
		s, err := newLedgerSim(r, out, big64, false)
		if err == nil {
			s.rng = rand.New(rand.NewSource(seed + int64(r)))
		}
		if err != nil {
			return err
		}
		alive := true
		for b := 0; b < blocks && alive; b++ {
			spec := randomBlock(rng, 4, 3)
			if protocolV2 && b < 6 { // scripted opening: quiet blocks, then two-height double-sign reports that reach the per-block cap
				spec = BlockSpec{Proposer: 0}
				if b == 3 {
					spec.DblSign, spec.DblTwo = []int{1}, true
				}
				if b == 4 {
					spec.DblSign, spec.DblTwo = []int{3, 2}, true
				}
			}
			if genesisVariant == 2 && (b == 2 || b == 9) { // governance lowers the committee limit while delegates stake for two committees, later raises it again
				spec = BlockSpec{Proposer: 0, Ops: []Op{{Op: "maxcomm", Who: 0, Amt: map[int]uint64{2: 1, 9: 3}[b]}}}
			}
			alive = s.block(spec, "")
		}
		if alive {
			s.drain()
		}
		_ = out.Encode(LedgerLine{Kind: "end", Run: r, Scan: s.prev, Small: s.small}.norm())
		s.n.close()
	}
	return nil
}

// LedgerScript: behaviours exported from specs/Ledger.tla
type LedgerScript struct {
	ID     string      `json:"id"`
	Blocks []BlockSpec `json:"blocks"`
}

func ledgerReplay(scripts []LedgerScript, out *json.Encoder) error {
	for r, sc := range scripts {
		s, err := newLedgerSim(r, out, false, true)
		if err != nil {
			return err
		}
		alive := true
		for _, b := range sc.Blocks {
			if alive = s.block(b, sc.ID); !alive {
				break
			}
		}
		if alive {
			s.drain()
		}
		_ = out.Encode(LedgerLine{Kind: "end", Run: r, Scan: s.prev, Small: s.small, Note: sc.ID}.norm())
		s.n.close()
	}
	return nil
}

var _ = hex.EncodeToString
