package main

import (
	"bufio"
	"encoding/json"
	"fmt"
	"os"
	"strconv"
)

// usage:
//
//	nodex ledger <seed> <runs> <blocks> <small|big> <out.ndjson>
//	nodex ledger-replay <scripts.ndjson> <out.ndjson>
func main() {
	if len(os.Args) < 3 {
		fmt.Fprintln(os.Stderr, "usage: nodex <mode> ... <out.ndjson>")
		os.Exit(2)
	}
	num := func(i int) int64 {
		v, err := strconv.ParseInt(os.Args[i], 10, 64)
		if err != nil {
			fmt.Fprintln(os.Stderr, "bad argument:", os.Args[i])
			os.Exit(2)
		}
		return v
	}
	f, err := os.Create(os.Args[len(os.Args)-1])
	if err != nil {
		fmt.Fprintln(os.Stderr, err)
		os.Exit(2)
	}
	defer f.Close()
	w := bufio.NewWriterSize(f, 1<<20)
	defer w.Flush()
	enc := json.NewEncoder(w)
	switch os.Args[1] {
	case "ledger":
		wrapGenesis = os.Args[5] == "wrap"
		err = ledgerRandom(num(2), int(num(3)), int(num(4)), os.Args[5] == "big" || wrapGenesis, enc)
	case "crash":
		err = crashMode(num(2), int(num(3)), int(num(4)), int(num(5)), enc)
	case "gate":
		err = gateMode(num(2), int(num(3)), enc)
	case "wire":
		err = wireMode(num(2), enc)
	case "auth":
		err = authMode(num(2), enc)
	case "dex": // dex <seed> <runs> <rounds> <small|big> <out>
		err = dexMode(num(2), int(num(3)), int(num(4)), os.Args[5] == "big", enc)
	case "swap": // swap <seed> <runs> <steps> <out>
		err = swapMode(num(2), int(num(3)), int(num(4)), enc)
	case "handlers-child": // handlers-child <seed> <start> <progress> <dummy out>
		err = handlersChild(num(2), int(num(3)), os.Args[4])
	case "handlers": // handlers <seed> <out>
		err = handlersMode(num(2), enc)
	case "slash": // slash <seed> <runs> <blocks> <out>
		err = slashMode(num(2), int(num(3)), int(num(4)), enc)
	case "replay":
		err = replayMode(num(2), int(num(3)), enc)
	case "multi":
		err = multiRandom(num(2), int(num(3)), int(num(4)), enc)
	case "ledger-replay":
		var scripts []LedgerScript
		in, e := os.Open(os.Args[2])
		if e != nil {
			err = e
			break
		}
		rd := bufio.NewScanner(in)
		rd.Buffer(make([]byte, 1<<20), 1<<26)
		for rd.Scan() {
			if len(rd.Bytes()) == 0 {
				continue
			}
			var s LedgerScript
			if e := json.Unmarshal(rd.Bytes(), &s); e != nil {
				err = e
				break
			}
			scripts = append(scripts, s)
		}
		in.Close()
		if err == nil {
			err = ledgerReplay(scripts, enc)
		}
	default:
		err = fmt.Errorf("unknown mode %q", os.Args[1])
	}
	if err != nil {
		w.Flush()
		fmt.Fprintln(os.Stderr, "nodex:", err)
		os.Exit(2)
	}
}
