package main

import (
	"bytes"
	"crypto/sha256"
	"encoding/hex"
	"encoding/json"
	"fmt"
	"math/rand"
	"os"
	"path/filepath"
	"strings"
	"time"

	"github.com/canopy-network/canopy/bft"
	"github.com/canopy-network/canopy/controller"
	"github.com/canopy-network/canopy/fsm"
	"github.com/canopy-network/canopy/lib"
	"github.com/canopy-network/canopy/lib/crypto"
	"github.com/canopy-network/canopy/store"
	"google.golang.org/protobuf/encoding/protowire"
)

// multi mode (specs/Chain.tla): several real nodes with the same genesis. Every height the proposer builds a block
// from its mempool; the other nodes compute the same block on different execution paths:
//   P  ProduceProposal from the mempool (CheckMempool on the mempool FSM copy)            node A
//   V  ValidateProposal as a replica, then commit with the cached result                   node B
//   R  commit by replay (no cached result), after a discarded speculative execution        node C
//   D  commit by replay on a disk store that is closed and re-opened between blocks         node D
//   F  a node whose mempool only ever saw the transactions that A included                 node F (atomicity control)
//   S  a fresh node fed from A's archive (GetQCByHeight -> HandlePeerBlock)                node E, after the run
// Recorded per height and path: header hash, the roots inside the header, certificate results hash, full state digest.

type HdrRec struct {
	Node      string `json:"node"`
	Path      string `json:"path"`
	Err       string `json:"err"`
	Hash      string `json:"hash"`
	StateRoot string `json:"stateRoot"`
	TxRoot    string `json:"txRoot"`
	ValRoot   string `json:"valRoot"`
	NextVal   string `json:"nextValRoot"`
	NumTxs    uint64 `json:"numTxs"`
	TotalTxs  uint64 `json:"totalTxs"`
	Results   string `json:"results"` // hash of the certificate results computed on this path ("" if the path does not compute them)
	Digest    string `json:"digest"`  // digest of the full raw state scan after the block ("" before commit)
	// the node executed the block and arrived at another header / other certificate results than the certified ones
	Mismatch bool `json:"mismatch"`
}

type ChainLine struct {
	Kind     string   `json:"kind"` // "start" | "height" | "reject" | "sync" | "end"
	Run      int      `json:"run"`
	Height   uint64   `json:"height"`
	Hdrs     []HdrRec `json:"hdrs"`
	Txs      int      `json:"txs"`      // transactions submitted to the proposer's mempool
	Included int      `json:"included"` // transactions in the block
	Note     string   `json:"note"`
	// reject lines: an invalid block / proposal handed to a node
	Rejected     bool   `json:"rejected"`     // the node refused it
	VersionSame  bool   `json:"versionSame"`  // store version unchanged by the refused input
	DigestSame   bool   `json:"digestSame"`   // committed state unchanged by the refused input
	WorkingClean bool   `json:"workingClean"` // the block applied afterwards gave the same header as on the control nodes
	Mutation     string `json:"mutation"`
}

func hx(b []byte) string { return hex.EncodeToString(b) }

func hdrRec(node, path string, h *lib.BlockHeader, res *lib.CertificateResult, err error) HdrRec {
	r := HdrRec{Node: node, Path: path}
	if err != nil {
		r.Err = err.Error()
		r.Mismatch = strings.Contains(r.Err, "unequal block hash") || strings.Contains(r.Err, "certificate results generated does not match")
		return r
	}
	if h != nil {
		r.Hash, r.StateRoot, r.TxRoot, r.ValRoot, r.NextVal = hx(h.Hash), hx(h.StateRoot), hx(h.TransactionRoot), hx(h.ValidatorRoot), hx(h.NextValidatorRoot)
		r.NumTxs, r.TotalTxs = h.NumTxs, h.TotalTxs
	}
	if res != nil {
		r.Results = hx(res.Hash())
	}
	return r
}

func (n *node) digest() string {
	sc, err := n.scan()
	if err != nil {
		return "scan-error:" + err.Error()
	}
	sc.Comm, sc.HistOK, sc.HistChecked, sc.Height = nil, false, 0, 0
	bz, _ := json.Marshal(sc)
	d := sha256.Sum256(bz)
	return hx(d[:8])
}

// newDiskNode: same as newNodeFromGenesis but on a pebble store on disk, so that it can be closed and re-opened
func newDiskNode(g *fsm.GenesisState, n0 *node, self int, dir string, reopen bool) (*node, error) {
	log := lib.NewNullLogger()
	cfg := lib.DefaultConfig()
	cfg.DataDirPath = dir
	cfg.ChainId = 1
	cfg.RunVDF = false
	if !reopen {
		bz, _ := lib.MarshalJSONIndent(g)
		if err := os.WriteFile(filepath.Join(dir, lib.GenesisFilePath), bz, 0o644); err != nil {
			return nil, err
		}
		_ = os.WriteFile(filepath.Join(dir, "proposals.json"), []byte("{}"), 0o644)
		_ = os.WriteFile(filepath.Join(dir, "polls.json"), []byte("{}"), 0o644)
	}
	db, err := store.NewStore(cfg, filepath.Join(dir, "db"), nil, log)
	if err != nil {
		return nil, err
	}
	sm, err := fsm.New(cfg, db, nil, nil, log)
	if err != nil {
		return nil, err
	}
	c, err := controller.New(sm, cfg, n0.valKeys[self], nil, log)
	if err != nil {
		return nil, err
	}
	c.RCManager = &rcm{c: c}
	_ = c.Mempool.CheckMempool() // as Controller.Start() does: initialises the mempool's proposal cache and cancel function
	return &node{c: c, st: db.(*store.Store), dir: dir, valKeys: n0.valKeys, accKeys: n0.accKeys, names: n0.names, gen: g, cfg: cfg}, nil
}

func tune(n *node) {
	for _, cfg := range []*lib.Config{&n.c.FSM.Config, &n.c.Config, &n.c.Mempool.FSM.Config} {
		cfg.InitialTokensPerBlock, cfg.BlocksPerHalvening = 1000, 10
	}
	// the node is in normal operation (not in a chain halt): governance proposals are decided by the operator's approve list
	if n.c.Consensus != nil {
		n.c.Consensus.VerifSetProposalVoteDeadline(time.Now().Add(time.Hour))
	}
}

// nonCanonical re-encodes a transaction: an explicit zero-valued field appended (proto3 would omit it)
func nonCanonical(tx []byte) []byte {
	out := bytes.Clone(tx)
	out = protowire.AppendTag(out, 10, protowire.VarintType)
	return protowire.AppendVarint(out, 0)
}

type multiSim struct {
	run   int
	out   *json.Encoder
	rng   *rand.Rand
	nodes map[string]*node
	dirs  []string
	sim   *ledgerSim // op -> tx helper bound to node A
	// governance proposals the operators of ALL nodes put on their approve list (proposals.json in each data directory)
	approved map[string]json.RawMessage
	// double-sign evidence used at earlier heights of the run (replayed later)
	ethNonce     uint64 // next nonce of the Ethereum-wallet account
	oldEvidence  []*bft.DoubleSignEvidence
	v2           bool // protocol version 2
	slashPending bool // the last certificate orders a slash: the next block begins with it
}

// approve puts a proposal transaction on the approve list of every node
func (m *multiSim) approve(txHash string) {
	if m.approved == nil {
		m.approved = map[string]json.RawMessage{}
	}
	m.approved[txHash] = json.RawMessage(`{"proposal":{},"approve":true}`)
	bz, _ := json.Marshal(m.approved)
	for _, n := range m.nodes {
		_ = os.WriteFile(filepath.Join(n.dir, lib.ProposalsFilePath), bz, 0o644)
	}
}

func (m *multiSim) close() {
	for _, n := range m.nodes {
		n.close()
	}
	for _, d := range m.dirs {
		_ = os.RemoveAll(d)
	}
}

func newMultiSim(run int, seed int64, out *json.Encoder) (*multiSim, error) {
	store.VerifPurgeBlockCache() // the block cache is process wide and keyed by height: a new chain must not see the previous one's blocks
	m := &multiSim{run: run, out: out, rng: rand.New(rand.NewSource(seed)), nodes: map[string]*node{}}
	m.v2 = run%4 == 2
	protocolV2 = m.v2 // committee scoped slashing with the per-block budget (the slash tracker lives outside the store)
	gs := ledgerGenesis(false, false)
	protocolV2 = false
	if run%3 == 1 { // a block size the mempool overflows: the proposer has to leave transactions out
		base := gs.Params
		gs.Params = func(p *fsm.Params) { base(p); p.Consensus.BlockSize = lib.MaxBlockHeaderSize + 1200 }
	}
	g, vk, ak, names := buildGenesis(gs)
	for _, name := range []string{"A", "B", "C", "F"} {
		dir, err := os.MkdirTemp("", "nodex-")
		if err != nil {
			return nil, err
		}
		n, err := newNodeFromGenesis(g, vk, ak, names, 0, dir)
		if err != nil {
			return nil, err
		}
		tune(n)
		m.nodes[name] = n
	}
	dir, err := os.MkdirTemp("", "nodex-disk-")
	if err != nil {
		return nil, err
	}
	m.dirs = append(m.dirs, dir)
	d, err := newDiskNode(g, m.nodes["A"], 0, dir, false)
	if err != nil {
		return nil, err
	}
	tune(d)
	m.nodes["D"] = d
	m.sim = &ledgerSim{n: m.nodes["A"], fee: 100, small: true}
	m.sim.approveAll = func(tx lib.TransactionI) {
		if bz, e := lib.Marshal(tx); e == nil {
			m.approve(crypto.HashString(bz))
		}
	}
	return m, out.Encode(ChainLine{Kind: "start", Run: run, Hdrs: []HdrRec{}})
}

func (m *multiSim) restartD() error {
	d := m.nodes["D"]
	dir := d.dir
	d.c.Mempool.FSM.Discard() // the mempool works on a store copy with its own snapshots
	if err := d.st.Close(); err != nil {
		return err
	}
	store.VerifPurgeBlockCache()
	nd, err := newDiskNode(d.gen, m.nodes["A"], 0, dir, true)
	if err != nil {
		return err
	}
	tune(nd)
	m.nodes["D"] = nd
	return nil
}

// evidence: genuine double-sign evidence about a committed height: the stored +2/3 certificate of that height against a
// second certificate for the same view and another block that validator `who` signed as well
func (m *multiSim) evidence(A *node, target uint64, who int) *bft.DoubleSignEvidence {
	qc, e := A.st.GetQCByHeight(target)
	if e != nil || qc == nil || qc.Header == nil || qc.Signature == nil {
		return nil
	}
	voteA := &lib.QuorumCertificate{Header: qc.Header.Copy(), BlockHash: qc.BlockHash, ResultsHash: qc.ResultsHash, ProposerKey: qc.ProposerKey, Signature: qc.Signature}
	voteB := &lib.QuorumCertificate{Header: qc.Header.Copy(), BlockHash: crypto.Hash([]byte(fmt.Sprintf("rival %d/%d", target, who))), ResultsHash: qc.ResultsHash, ProposerKey: qc.ProposerKey}
	vs, err := A.c.FSM.LoadCommittee(1, qc.Header.RootHeight)
	if err != nil {
		return nil
	}
	_, idx, err := vs.GetValidatorAndIdx(A.valKeys[who].PublicKey().Bytes())
	if err != nil {
		return nil // not in that committee
	}
	mk := vs.MultiKey.Copy()
	if mk.AddSigner(A.valKeys[who].Sign(voteB.SignBytes()), idx) != nil {
		return nil
	}
	sig, e2 := mk.AggregateSignatures()
	if e2 != nil {
		return nil
	}
	voteB.Signature = &lib.AggregateSignature{Signature: sig, Bitmap: mk.Bitmap()}
	return &bft.DoubleSignEvidence{VoteA: voteA, VoteB: voteB}
}

// recertify: the same block and results under a certificate signed by other validators (still +2/3)
func (m *multiSim) recertify(A *node, qc *lib.QuorumCertificate, signers []int) *lib.QuorumCertificate {
	vs, err := A.c.FSM.LoadCommittee(1, qc.Header.RootHeight)
	if err != nil {
		return nil
	}
	out := &lib.QuorumCertificate{Header: qc.Header.Copy(), Block: qc.Block, BlockHash: qc.BlockHash, Results: qc.Results, ResultsHash: qc.ResultsHash, ProposerKey: qc.ProposerKey}
	mk := vs.MultiKey.Copy()
	sb := out.SignBytes()
	for _, i := range signers {
		if _, idx, e := vs.GetValidatorAndIdx(A.valKeys[i].PublicKey().Bytes()); e == nil {
			_ = mk.AddSigner(A.valKeys[i].Sign(sb), idx)
		}
	}
	sig, e := mk.AggregateSignatures()
	if e != nil {
		return nil
	}
	out.Signature = &lib.AggregateSignature{Signature: sig, Bitmap: mk.Bitmap()}
	return out
}

func (n *node) proposeWith(be *bft.ByzantineEvidence) (*proposal, lib.ErrorI) {
	rc, blk, res, err := n.c.ProduceProposal(be, nil)
	if err != nil {
		return nil, err
	}
	return &proposal{rcBuild: rc, block: blk, results: res}, nil
}

// oneHeight runs one height over all paths
func (m *multiSim) oneHeight() (ok bool) {
	A, B, C, D, F := m.nodes["A"], m.nodes["B"], m.nodes["C"], m.nodes["D"], m.nodes["F"]
	h := A.height()
	line := ChainLine{Kind: "height", Run: m.run, Height: h, Hdrs: []HdrRec{}}
	// transaction mix for the proposer's mempool: valid, failing (insufficient funds), duplicates, non-canonical encodings
	b := randomBlock(m.rng, 4, 3)
	nExtra := m.rng.Intn(4)
	for i := 0; i < nExtra; i++ {
		b.Ops = append(b.Ops, Op{Op: "send", Who: m.rng.Intn(3), To: m.rng.Intn(3), Amt: uint64(1 + m.rng.Intn(900))})
	}
	var raws [][]byte
	// transfers of different sizes (memo) and fees: with a small block size some do not fit while smaller, cheaper ones behind them would
	extra := 0
	if m.run%3 == 1 {
		extra = 6 + m.rng.Intn(8)
	}
	if m.run%2 == 0 && h == 5 {
		extra = 300 // more than 256 transactions in one block (index keys of the archive beyond one byte)
	}
	for i := 0; i < extra; i++ {
		from := A.accKeys[i%len(A.accKeys)]
		to := A.accKeys[(i+1)%len(A.accKeys)].PublicKey().Address()
		memo := strings.Repeat("m", []int{0, 5, 60, 150, 200}[m.rng.Intn(5)])
		if extra == 300 {
			memo = ""
		}
		tx, e := fsm.NewSendTransaction(from, to, uint64(1+i), 1, 1, 100+uint64(m.rng.Intn(3))*50, h, memo)
		if e != nil {
			continue
		}
		bz, _ := lib.Marshal(tx)
		raws = append(raws, bz)
	}
	// a transfer signed with an Ethereum wallet (RLP.V2 wrapper) whose protobuf wrapper is NOT in canonical form: the account is
	// funded at height 2; from height 4 on the re-encoded wrapper is offered to the proposer's mempool every few heights
	if h == 2 {
		if tx, e := fsm.NewSendTransaction(A.valKeys[3], ethAccount(), 60000, 1, 1, 100, h, "eth"); e == nil {
			bz, _ := lib.Marshal(tx)
			raws = append(raws, bz)
		}
	}
	if h >= 4 && m.rng.Intn(3) == 0 {
		if w := ethWrapped(A.accKeys[1].PublicKey().Address(), uint64(7+m.rng.Intn(5)), m.ethNonce, true); w != nil {
			raws = append(raws, nonCanonical(w))
			if m.rng.Intn(2) == 0 { // and sometimes the canonical one as well: it executes and moves the nonce
				raws = append(raws, w)
				m.ethNonce++
			}
		}
	}
	// governance: a parameter change whose value the parameter check refuses (it fails on delivery, after the handler has
	// touched the parameters), or a legal one; an unstake behind it reads the parameter
	if m.rng.Intn(3) == 0 {
		val := uint64(0) // illegal
		if m.rng.Intn(3) == 0 {
			val = uint64(2 + m.rng.Intn(4))
		}
		if tx, e := fsm.NewChangeParamTxUint64(A.accKeys[m.rng.Intn(len(A.accKeys))], fsm.ParamSpaceVal, fsm.ParamUnstakingBlocks, val, 1, 5000, 1, 1, 20000, h, ""); e == nil {
			bz, _ := lib.Marshal(tx)
			raws = append(raws, bz)
			if m.rng.Intn(4) != 0 { // mostly approved by the operators: the change is then decided by the parameter check alone
				m.approve(crypto.HashString(bz))
			}
			if os.Getenv("NODEX_DEBUG") != "" {
				fmt.Fprintf(os.Stderr, "param tx at height %d value %d: mempool says %v\n", h, val, A.c.Mempool.HandleTransactions(bz))
			}
			// an unstake of a validator that is still staked reads the parameter the refused change touched
			for w := 1; w <= 3; w++ {
				if m.v2 && w < 3 {
					continue // v1 and v2 stay in the committee in protocol 2 runs: they are the double signers
				}
				if v, e := A.c.FSM.GetValidator(A.valKeys[w].PublicKey().Address()); e == nil && v.UnstakingHeight == 0 {
					b.Ops = append(b.Ops, Op{Op: "unstake", Who: w})
					break
				}
			}
		}
	}
	for _, o := range b.Ops {
		if m.v2 && o.Who < 3 && (o.Op == "unstake" || o.Op == "pause" || o.Op == "edit") {
			continue
		}
		tx, err := m.sim.txFor(o)
		if err != nil {
			continue
		}
		bz, err := lib.Marshal(tx)
		if err != nil {
			continue
		}
		raws = append(raws, bz)
		if m.rng.Intn(5) == 0 {
			raws = append(raws, nonCanonical(bz))
		}
		if m.rng.Intn(6) == 0 {
			raws = append(raws, bz) // exact duplicate
		}
	}
	for _, bz := range raws {
		line.Txs++
		_ = A.c.Mempool.HandleTransactions(bz)
	}
	// byzantine evidence circulated to the leader and to every replica for this height: a fresh double sign, one that was
	// reported before (must not slash again) or one older than the evidence window (the whole report is dropped)
	be := func() *bft.ByzantineEvidence { return &bft.ByzantineEvidence{DSE: bft.NewDSE()} }
	var evs []*bft.DoubleSignEvidence
	if h > 3 && (m.rng.Intn(3) == 0 || (m.v2 && h%2 == 0)) {
		target := h - 1 - uint64(m.rng.Intn(2))
		if m.rng.Intn(6) == 0 && h > 6 {
			target = 1 + uint64(m.rng.Intn(2)) // expired
		}
		for _, who := range m.rng.Perm(3)[:1+m.rng.Intn(2)] {
			if ev := m.evidence(A, target, who+1); ev != nil {
				evs = append(evs, ev)
			}
		}
		if len(m.oldEvidence) > 0 && m.rng.Intn(2) == 0 {
			evs = append(evs, m.oldEvidence[m.rng.Intn(len(m.oldEvidence))]) // replayed
		}
		m.oldEvidence = append(m.oldEvidence, evs...)
		be = func() *bft.ByzantineEvidence { return &bft.ByzantineEvidence{DSE: bft.NewDSE(evs)} }
		line.Note = fmt.Sprintf("evidence:%d", len(evs))
	}
	// P: proposer
	p, err := A.proposeWith(be())
	if err != nil {
		line.Hdrs = append(line.Hdrs, hdrRec("A", "P", nil, nil, err))
		_ = m.out.Encode(line)
		return false
	}
	blk := new(lib.Block)
	_ = lib.Unmarshal(p.block, blk)
	line.Included = len(blk.Transactions)
	line.Hdrs = append(line.Hdrs, hdrRec("A", "P", blk.BlockHeader, p.results, nil))
	msg, err := A.certify(p, []int{0, 1, 2, 3}, nil)
	if err != nil {
		line.Hdrs = append(line.Hdrs, hdrRec("A", "certify", nil, nil, err))
		_ = m.out.Encode(line)
		return false
	}
	qc := msg.BlockAndCertificate
	slashNext := p.results != nil && p.results.SlashRecipients != nil && len(p.results.SlashRecipients.DoubleSigners) > 0
	defer func() { m.slashPending = slashNext }()
	// F: the atomicity control only ever sees the transactions that were included; its own proposal must have the same roots
	for _, tx := range blk.Transactions {
		_ = F.c.Mempool.HandleTransactions(tx)
	}
	if pf, e := F.proposeWith(be()); e != nil {
		line.Hdrs = append(line.Hdrs, hdrRec("F", "F", nil, nil, e))
	} else {
		fb := new(lib.Block)
		_ = lib.Unmarshal(pf.block, fb)
		line.Hdrs = append(line.Hdrs, hdrRec("F", "F", fb.BlockHeader, pf.results, nil))
	}
	// V: replica validation on B (speculative execution; leaves a cached result)
	br, e := B.c.ValidateProposal(p.rcBuild, qc, be())
	if e != nil {
		line.Hdrs = append(line.Hdrs, hdrRec("B", "V", nil, nil, e))
	} else {
		line.Hdrs = append(line.Hdrs, hdrRec("B", "V", br.BlockHeader, nil, nil))
		B.c.Consensus.BlockResult = br
	}
	// C: a discarded speculative execution of ANOTHER proposal first (F's block), RPC-style reads, then replay
	if m.rng.Intn(2) == 0 || m.slashPending { // always when this block begins with a slash (the slash budget is kept outside the store)
		if pf, e2 := F.proposeWith(be()); e2 == nil {
			if mf, e3 := F.certify(pf, []int{0, 1, 2, 3}, nil); e3 == nil {
				_, _ = C.c.ValidateProposal(pf.rcBuild, mf.BlockAndCertificate, be())
				C.c.FSM.Reset()
			}
		}
	}
	if h > 2 && m.rng.Intn(2) == 0 {
		_, _ = C.st.GetBlockHeaderByHeight(1 + uint64(m.rng.Intn(int(h-1))))
		_, _ = C.c.FSM.LoadCommittee(1, 1+uint64(m.rng.Intn(int(h-1))))
	}
	// commit everywhere
	commit := func(name, path string, n *node) {
		store.VerifPurgeBlockCache() // every node is its own process: the block cache is process-wide
		err := n.commit(&lib.BlockMessage{ChainId: 1, BlockAndCertificate: qc, Time: msg.Time})
		var hdr *lib.BlockHeader
		if err == nil {
			if bres, e := n.c.FSM.LoadBlock(h); e == nil && bres != nil {
				hdr = bres.BlockHeader
			}
		}
		var ge error
		if err != nil {
			ge = err
		}
		rec := hdrRec(name, path, hdr, nil, ge)
		if err == nil {
			rec.Digest = n.digest()
		}
		line.Hdrs = append(line.Hdrs, rec)
	}
	commit("A", "commit-proposer", A)
	commit("B", "commit-cached", B)
	commit("C", "commit-replay", C)
	commit("D", "commit-replay-disk", D)
	commit("F", "commit-replay", F)
	_ = m.out.Encode(line)
	for _, r := range line.Hdrs {
		if r.Err != "" {
			return false
		}
	}
	return true
}

// rejections: invalid inputs handed to B must be refused and must leave no trace (C07, second sentence)
func (m *multiSim) rejections() {
	A, B := m.nodes["A"], m.nodes["B"]
	h := A.height()
	// a valid next block (not yet committed anywhere)
	for i := 0; i < 3; i++ {
		tx, err := m.sim.txFor(Op{Op: "send", Who: i % 3, To: (i + 1) % 3, Amt: uint64(10 + i)})
		if err == nil {
			bz, _ := lib.Marshal(tx)
			_ = A.c.Mempool.HandleTransactions(bz)
		}
	}
	p, err := A.propose()
	if err != nil {
		return
	}
	good, err := A.certify(p, []int{0, 1, 2, 3}, nil)
	if err != nil {
		return
	}
	blk := new(lib.Block)
	_ = lib.Unmarshal(p.block, blk)
	mutations := map[string]func() *lib.BlockMessage{
		"tx-dropped": func() *lib.BlockMessage { // block with one transaction removed under the same certificate
			if len(blk.Transactions) == 0 {
				return nil
			}
			b2 := &lib.Block{BlockHeader: blk.BlockHeader, Transactions: blk.Transactions[1:]}
			bz, _ := lib.Marshal(b2)
			q := *good.BlockAndCertificate
			q.Block = bz
			return &lib.BlockMessage{ChainId: 1, BlockAndCertificate: &q}
		},
		"failing-tx-added": func() *lib.BlockMessage { // an unfunded send appended, re-certified by everyone (header no longer matches execution)
			tx, e := m.sim.txFor(Op{Op: "send", Who: 0, To: 1, Amt: 1 << 40})
			if e != nil {
				return nil
			}
			bz, _ := lib.Marshal(tx)
			b2 := &lib.Block{BlockHeader: blk.BlockHeader, Transactions: append(append([][]byte{}, blk.Transactions...), bz)}
			raw, _ := lib.Marshal(b2)
			mm, e2 := A.certify(&proposal{rcBuild: p.rcBuild, block: raw, results: p.results}, []int{0, 1, 2, 3}, nil)
			if e2 != nil {
				return nil
			}
			return mm
		},
		"state-root-forged": func() *lib.BlockMessage { // header claims another state root, re-hashed and re-certified
			hd := *blk.BlockHeader
			hd.StateRoot = bytes.Repeat([]byte{7}, len(hd.StateRoot))
			hd.Hash = nil
			b2 := &lib.Block{BlockHeader: &hd, Transactions: blk.Transactions}
			if _, e := b2.BlockHeader.SetHash(); e != nil {
				return nil
			}
			raw, _ := lib.Marshal(b2)
			mm, e2 := A.certify(&proposal{rcBuild: p.rcBuild, block: raw, results: p.results}, []int{0, 1, 2, 3}, nil)
			if e2 != nil {
				return nil
			}
			return mm
		},
		"partial-certificate": func() *lib.BlockMessage { // only the three small validators sign
			mm, e := A.certify(p, []int{1, 2, 3}, nil)
			if e != nil {
				return nil
			}
			return mm
		},
	}
	for _, name := range []string{"tx-dropped", "failing-tx-added", "state-root-forged", "partial-certificate"} {
		bad := mutations[name]()
		if bad == nil {
			continue
		}
		v0, d0 := B.st.Version(), B.digest()
		_, e := B.c.HandlePeerBlock(bad, false)
		line := ChainLine{Kind: "reject", Run: m.run, Height: h, Mutation: name, Hdrs: []HdrRec{}, Rejected: e != nil}
		line.VersionSame = B.st.Version() == v0
		line.DigestSame = B.digest() == d0
		line.WorkingClean = true
		_ = m.out.Encode(line)
		if e == nil {
			return // the node committed a bad block: the run cannot continue on B
		}
	}
	// also a refused PROPOSAL (speculative path): the forged header through ValidateProposal
	if bad := mutations["state-root-forged"](); bad != nil {
		v0, d0 := B.st.Version(), B.digest()
		_, e := B.c.ValidateProposal(p.rcBuild, bad.BlockAndCertificate, &bft.ByzantineEvidence{DSE: bft.DoubleSignEvidences{}})
		B.c.ResetFSM() // what bft.RoundInterrupt does after a refused proposal
		line := ChainLine{Kind: "reject", Run: m.run, Height: h, Mutation: "proposal-state-root-forged", Hdrs: []HdrRec{}, Rejected: e != nil,
			VersionSame: B.st.Version() == v0, DigestSame: B.digest() == d0, WorkingClean: true}
		_ = m.out.Encode(line)
	}
	// now the good block everywhere; B (which saw the refused inputs) must end up exactly like the others
	line := ChainLine{Kind: "height", Run: m.run, Height: h, Included: len(blk.Transactions), Note: "after-rejections", Hdrs: []HdrRec{hdrRec("A", "P", blk.BlockHeader, p.results, nil)}}
	for _, name := range []string{"A", "B", "C", "D", "F"} {
		n := m.nodes[name]
		store.VerifPurgeBlockCache()
		e := n.commit(&lib.BlockMessage{ChainId: 1, BlockAndCertificate: good.BlockAndCertificate, Time: good.Time})
		var hdr *lib.BlockHeader
		var ge error
		if e != nil {
			ge = e
		} else if bres, e2 := n.c.FSM.LoadBlock(h); e2 == nil && bres != nil {
			hdr = bres.BlockHeader
		}
		rec := hdrRec(name, "commit-replay", hdr, nil, ge)
		if e == nil {
			rec.Digest = n.digest()
		}
		line.Hdrs = append(line.Hdrs, rec)
	}
	_ = m.out.Encode(line)
}

// rollbackD: the operator of the disk node stops it, rolls the store back a few heights (offline maintenance), starts it again
// and lets it catch up from A's archive: the replayed blocks must come out with the certified headers
func (m *multiSim) rollbackD() {
	A, D := m.nodes["A"], m.nodes["D"]
	top := A.height()
	ver := D.st.Version()
	if ver < 5 {
		return
	}
	target := ver - 2 - uint64(m.rng.Intn(2))
	line := ChainLine{Kind: "sync", Run: m.run, Height: target, Note: fmt.Sprintf("rollback %d -> %d", ver, target), Hdrs: []HdrRec{}}
	if e := D.st.Rollback(target); e != nil {
		line.Hdrs = append(line.Hdrs, hdrRec("D", "rollback", nil, nil, e))
		_ = m.out.Encode(line)
		return
	}
	if e := m.restartD(); e != nil {
		line.Hdrs = append(line.Hdrs, hdrRec("D", "restart-after-rollback", nil, nil, e))
		_ = m.out.Encode(line)
		return
	}
	D = m.nodes["D"]
	for h := D.height(); h < top; h++ {
		store.VerifPurgeBlockCache()
		line := ChainLine{Kind: "sync", Run: m.run, Height: h, Note: "after-rollback", Hdrs: []HdrRec{}}
		qc, e := A.st.GetQCByHeight(h)
		if e != nil {
			return
		}
		orig, _ := A.c.FSM.LoadBlock(h)
		store.VerifPurgeBlockCache()
		_, e = D.c.HandlePeerBlock(&lib.BlockMessage{ChainId: 1, BlockAndCertificate: qc}, false)
		var ge error
		var hdr *lib.BlockHeader
		if e != nil {
			ge = e
		} else if bres, e2 := D.c.FSM.LoadBlock(h); e2 == nil && bres != nil {
			hdr = bres.BlockHeader
		}
		if orig != nil {
			ra := hdrRec("A", "commit-proposer", orig.BlockHeader, nil, nil)
			if h+1 == top { // back at the tip: the whole state must be the proposer's again
				ra.Digest = A.digest()
			}
			line.Hdrs = append(line.Hdrs, ra)
		}
		rec := hdrRec("D", "replay-after-rollback", hdr, nil, ge)
		if e == nil {
			rec.Digest = D.digest()
		}
		line.Hdrs = append(line.Hdrs, rec)
		_ = m.out.Encode(line)
		if e != nil {
			return
		}
	}
}

// syncFresh: a fresh node replays A's archive from genesis
func (m *multiSim) syncFresh() {
	A := m.nodes["A"]
	dir, err := os.MkdirTemp("", "nodex-")
	if err != nil {
		return
	}
	E, err := newNodeFromGenesis(A.gen, A.valKeys, A.accKeys, A.names, 0, dir)
	if err != nil {
		return
	}
	tune(E)
	defer E.close()
	top := A.height()
	for h := uint64(1); h < top; h++ {
		store.VerifPurgeBlockCache() // the archive read must not be served from the proposer's own cache
		line := ChainLine{Kind: "sync", Run: m.run, Height: h, Hdrs: []HdrRec{}}
		qc, e := A.st.GetQCByHeight(h)
		if e != nil {
			line.Hdrs = append(line.Hdrs, hdrRec("A", "archive", nil, nil, e))
			_ = m.out.Encode(line)
			return
		}
		orig, _ := A.c.FSM.LoadBlock(h)
		store.VerifPurgeBlockCache()
		// any +2/3 certificate of a block is valid: the peer that serves height h may hold another version than the one the next
		// leader put into its header (here: without validator 2's signature). The node is syncing until the last block.
		syncing := h+1 < top
		E.c.Syncing().Store(syncing)
		if syncing && m.rng.Intn(2) == 0 {
			if alt := m.recertify(A, qc, []int{0, 1, 3}); alt != nil {
				qc = alt
				line.Note = "alternate-certificate"
			}
		}
		_, e = E.c.HandlePeerBlock(&lib.BlockMessage{ChainId: 1, BlockAndCertificate: qc}, syncing)
		var ge error
		var hdr *lib.BlockHeader
		if e != nil {
			ge = e
		} else if bres, e2 := E.c.FSM.LoadBlock(h); e2 == nil && bres != nil {
			hdr = bres.BlockHeader
		}
		if orig != nil {
			line.Hdrs = append(line.Hdrs, hdrRec("A", "commit-proposer", orig.BlockHeader, nil, nil))
		}
		line.Hdrs = append(line.Hdrs, hdrRec("E", "sync-from-archive", hdr, nil, ge))
		_ = m.out.Encode(line)
		if e != nil {
			return
		}
	}
}

func multiRandom(seed int64, runs, blocks int, out *json.Encoder) error {
	for r := 0; r < runs; r++ {
		m, err := newMultiSim(r, seed+int64(r)*7919, out)
		if err != nil {
			return err
		}
		ok := true
		for b := 0; b < blocks && ok; b++ {
			ok = m.oneHeight()
			if ok && m.rng.Intn(3) == 0 {
				if e := m.restartD(); e != nil {
					_ = out.Encode(ChainLine{Kind: "height", Run: r, Height: m.nodes["A"].height(), Hdrs: []HdrRec{hdrRec("D", "restart", nil, nil, e)}})
					ok = false
				}
			}
			if ok && b == blocks/2 {
				m.rejections()
			}
		}
		if ok {
			m.rollbackD()
			m.syncFresh()
		}
		_ = out.Encode(ChainLine{Kind: "end", Run: r, Hdrs: []HdrRec{}})
		m.close()
	}
	return nil
}

var _ = fmt.Sprint
