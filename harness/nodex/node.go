// nodex runs real canopy nodes in-process: real controller.Controller + fsm.StateMachine + store.Store, a scripted
// root-chain manager (the chain is its own root), blocks produced by ProduceProposal from the real mempool, certified
// with real BLS keys and committed through HandlePeerBlock. After every block the whole state is scanned raw
// (prefix iteration, not the cached getters) and projected for the TLA+ trace specs.
package main

import (
	"bytes"
	"crypto/ed25519"
	"encoding/binary"
	"encoding/hex"
	"encoding/json"
	"fmt"
	"os"
	"path/filepath"
	"slices"
	"sort"
	"time"

	"github.com/canopy-network/canopy/bft"
	"github.com/canopy-network/canopy/controller"
	"github.com/canopy-network/canopy/fsm"
	"github.com/canopy-network/canopy/lib"
	"github.com/canopy-network/canopy/lib/crypto"
	"github.com/canopy-network/canopy/store"
)

var valKeyHex = []string{
	"00453a101301cd7019b78ffa1186842dd93923e563b8ae22e2ab33ae889b23ee",
	"1b6b244fbdf614acb5f0d00a2b56ffcbe2aa23dabd66365dffcd3f06491ae50a",
	"2ee868f74134032eacba191ca529115c64aa849ac121b75ca79b37420a623036",
	"3e3ab94c10159d63a12cb26aca4b0e76070a987d49dd10fc5f526031e05801da",
	"4a5b244fbdf614acb5f0d00a2b56ffcbe2aa23dabd66365dffcd3f06491ae511",
	"5cc868f74134032eacba191ca529115c64aa849ac121b75ca79b37420a623077",
}

// rcm: the node is its own root chain
type rcm struct{ c *controller.Controller }

func (r *rcm) Publish(chainId uint64, info *lib.RootChainInfo) {}
func (r *rcm) ChainIds() []uint64                              { return nil }
func (r *rcm) GetHeight(rc uint64) uint64                      { return r.c.FSM.Height() }
func (r *rcm) GetRootChainInfo(rc, id uint64) (*lib.RootChainInfo, lib.ErrorI) {
	return r.c.FSM.LoadRootChainInfo(id, 0)
}

// NOTE: the interface names its parameters (rootChainId, height, id) but every caller and the real implementation
// (cmd/rpc/sock.go) use (rootChainId, chainId, rootHeight)
func (r *rcm) GetValidatorSet(rc, id, rootHeight uint64) (lib.ValidatorSet, lib.ErrorI) {
	return r.c.FSM.LoadCommittee(id, rootHeight)
}
func (r *rcm) GetLotteryWinner(rc, h, id uint64) (*lib.LotteryWinner, lib.ErrorI) {
	sm, err := r.c.FSM.TimeMachine(h)
	if err != nil {
		return nil, err
	}
	if sm != r.c.FSM {
		defer sm.Discard()
	}
	return sm.LotteryWinner(id)
}
func (r *rcm) GetOrders(rc, h, id uint64) (*lib.OrderBook, lib.ErrorI) {
	return r.c.FSM.GetOrderBook(id)
}
func (r *rcm) GetOrder(rc, h uint64, o string, id uint64) (*lib.SellOrder, lib.ErrorI) {
	return nil, lib.ErrOrderNotFound()
}
func (r *rcm) GetDexBatch(rc, h, id uint64, wp bool) (*lib.DexBatch, lib.ErrorI) { return nil, nil }

// IsValidDoubleSigner / GetMinimumEvidenceHeight mirror the root chain's RPC handlers (cmd/rpc/query.go, which cannot be
// linked here: its web assets are not in the tree): the last certificate's not yet indexed double signers count as
// already used, then the indexer decides; the evidence window is the state machine's own computation at that height
func (r *rcm) IsValidDoubleSigner(rc, h uint64, a string) (*bool, lib.ErrorI) {
	st := r.c.FSM.Store().(lib.StoreI)
	addr, e := lib.StringToBytes(a)
	if e != nil {
		return nil, e
	}
	if h == 0 {
		h = st.Version() - 1
	}
	no := false
	if qc, err := st.GetQCByHeight(st.Version() - 1); err != nil {
		return nil, err
	} else if qc != nil && qc.Results != nil && qc.Results.SlashRecipients != nil {
		for _, ds := range qc.Results.SlashRecipients.DoubleSigners {
			pk, e2 := crypto.NewPublicKeyFromBytes(ds.Id)
			if e2 != nil {
				continue
			}
			if bytes.Equal(pk.Address().Bytes(), addr) && slices.Contains(ds.Heights, h) {
				return &no, nil
			}
		}
	}
	ok, err := st.IsValidDoubleSigner(addr, h)
	return &ok, err
}
func (r *rcm) GetMinimumEvidenceHeight(rc, h uint64) (*uint64, lib.ErrorI) {
	sm := r.c.FSM
	if h != 0 && h < sm.Height() {
		tm, err := sm.TimeMachine(h)
		if err != nil {
			return nil, err
		}
		defer tm.Discard()
		sm = tm
	}
	z, err := sm.LoadMinimumEvidenceHeight()
	return &z, err
}
func (r *rcm) GetCheckpoint(rc, h, id uint64) (lib.HexBytes, lib.ErrorI) { return nil, nil }
func (r *rcm) Transaction(rc uint64, tx lib.TransactionI) (*string, lib.ErrorI) {
	s := ""
	return &s, nil
}

// GenesisSpec describes the initial population
type GenesisSpec struct {
	Stakes     []uint64 // per validator key index; 0 = not a validator at genesis
	Delegate   []bool
	Committees [][]uint64
	Compound   []bool
	Accounts   int    // number of funded accounts (ed25519 keys derived from the index)
	Balance    uint64 // balance of each account and of each validator's own account
	Params     func(*fsm.Params)
}

type node struct {
	c        *controller.Controller
	st       *store.Store
	dir      string
	valKeys  []crypto.PrivateKeyI
	accKeys  []crypto.PrivateKeyI
	names    map[string]string // hex address -> short name
	gen      *fsm.GenesisState
	cfg      lib.Config
	approved map[string]json.RawMessage
	scanFSM  *fsm.StateMachine // when set, scan() reads this state machine (e.g. the mempool's working copy) instead of the committed one
}

func addrName(names map[string]string, a []byte) string {
	if n, ok := names[hex.EncodeToString(a)]; ok {
		return n
	}
	return "x" + hex.EncodeToString(a)[:6]
}

func accountKey(i int) crypto.PrivateKeyI {
	seed := make([]byte, 32)
	binary.BigEndian.PutUint64(seed[24:], uint64(i+1))
	seed[0] = 0xAC
	full := ed25519.NewKeyFromSeed(seed) // 64 bytes: an ed25519 key
	k, err := crypto.StringToED25519Private(hex.EncodeToString(full))
	if err != nil {
		panic(err)
	}
	return k
}

func buildGenesis(gs GenesisSpec) (*fsm.GenesisState, []crypto.PrivateKeyI, []crypto.PrivateKeyI, map[string]string) {
	g := &fsm.GenesisState{Params: fsm.DefaultParams(), Time: 1}
	names := map[string]string{}
	var vk, ak []crypto.PrivateKeyI
	for i, h := range valKeyHex {
		if i >= len(gs.Stakes) {
			break
		}
		k, _ := crypto.StringToBLS12381PrivateKey(h)
		vk = append(vk, k)
		addr := k.PublicKey().Address().Bytes()
		names[hex.EncodeToString(addr)] = fmt.Sprintf("v%d", i)
		if gs.Stakes[i] != 0 {
			v := &fsm.Validator{Address: addr, PublicKey: k.PublicKey().Bytes(), StakedAmount: gs.Stakes[i], Committees: []uint64{1}, Output: addr, NetAddress: "tcp://localhost"}
			if gs.Committees != nil && gs.Committees[i] != nil {
				v.Committees = gs.Committees[i]
			}
			if gs.Delegate != nil {
				v.Delegate = gs.Delegate[i]
			}
			if gs.Compound != nil {
				v.Compound = gs.Compound[i]
			}
			g.Validators = append(g.Validators, v)
		}
		g.Accounts = append(g.Accounts, &fsm.Account{Address: addr, Amount: gs.Balance})
	}
	for i := 0; i < gs.Accounts; i++ {
		k := accountKey(i)
		ak = append(ak, k)
		addr := k.PublicKey().Address().Bytes()
		names[hex.EncodeToString(addr)] = fmt.Sprintf("a%d", i)
		g.Accounts = append(g.Accounts, &fsm.Account{Address: addr, Amount: gs.Balance})
	}
	if gs.Params != nil {
		gs.Params(g.Params)
	}
	return g, vk, ak, names
}

func newNodeFromGenesis(g *fsm.GenesisState, vk, ak []crypto.PrivateKeyI, names map[string]string, self int, dir string) (*node, error) {
	log := lib.NewNullLogger()
	if os.Getenv("NODEX_LOG") != "" {
		log = lib.NewDefaultLogger()
	}
	cfg := lib.DefaultConfig()
	cfg.DataDirPath = dir
	cfg.ChainId = 1
	cfg.RunVDF = false
	bz, _ := lib.MarshalJSONIndent(g)
	if err := os.WriteFile(filepath.Join(dir, lib.GenesisFilePath), bz, 0o644); err != nil {
		return nil, err
	}
	_ = os.WriteFile(filepath.Join(dir, "proposals.json"), []byte("{}"), 0o644)
	_ = os.WriteFile(filepath.Join(dir, "polls.json"), []byte("{}"), 0o644)
	db, err := store.NewStoreInMemory(log, cfg)
	if err != nil {
		return nil, err
	}
	sm, err := fsm.New(cfg, db, nil, nil, log)
	if err != nil {
		return nil, err
	}
	c, err := controller.New(sm, cfg, vk[self], nil, log)
	if err != nil {
		return nil, err
	}
	c.RCManager = &rcm{c: c}
	_ = c.Mempool.CheckMempool() // as Controller.Start() does: initialises the mempool's proposal cache and cancel function
	return &node{c: c, st: db.(*store.Store), dir: dir, valKeys: vk, accKeys: ak, names: names, gen: g, cfg: cfg}, nil
}

func newNode(gs GenesisSpec, self int) (*node, error) {
	dir, err := os.MkdirTemp("", "nodex-")
	if err != nil {
		return nil, err
	}
	g, vk, ak, names := buildGenesis(gs)
	return newNodeFromGenesis(g, vk, ak, names, self, dir)
}

func (n *node) close() {
	if n.st != nil {
		_ = n.st.Close()
	}
	_ = os.RemoveAll(n.dir)
}

// approve puts a governance proposal transaction on this node's approve list (proposals.json in its data directory)
func (n *node) approve(tx lib.TransactionI) {
	bz, err := lib.Marshal(tx)
	if err != nil {
		return
	}
	if n.approved == nil {
		n.approved = map[string]json.RawMessage{}
	}
	n.approved[crypto.HashString(bz)] = json.RawMessage(`{"proposal":{},"approve":true}`)
	out, _ := json.Marshal(n.approved)
	_ = os.WriteFile(filepath.Join(n.dir, lib.ProposalsFilePath), out, 0o644)
}

func (n *node) height() uint64 { return n.c.FSM.Height() }

// proposal = what ProduceProposal returned
type proposal struct {
	rcBuild uint64
	block   []byte
	results *lib.CertificateResult
}

func (n *node) propose() (*proposal, lib.ErrorI) {
	rc, blk, res, err := n.c.ProduceProposal(&bft.ByzantineEvidence{DSE: bft.DoubleSignEvidences{}}, nil)
	if err != nil {
		return nil, err
	}
	return &proposal{rcBuild: rc, block: blk, results: res}, nil
}

// certify builds the PRECOMMIT_VOTE certificate for the proposal signed by the listed validators (indices)
func (n *node) certify(p *proposal, signers []int, proposerKey []byte) (*lib.BlockMessage, lib.ErrorI) {
	c := n.c
	h := c.FSM.Height()
	// the chain is its own root: the root height of a certificate is the height being decided (never 0 = "latest")
	vs, err := c.FSM.LoadCommittee(1, h)
	if err != nil {
		return nil, err
	}
	hash, _ := new(lib.Block).BytesToBlockHash(p.block)
	if proposerKey == nil {
		proposerKey = c.PublicKey
	}
	qc := &lib.QuorumCertificate{Header: &lib.View{NetworkId: c.Config.NetworkID, ChainId: 1, Height: h, RootHeight: h, Phase: lib.Phase_PRECOMMIT_VOTE},
		BlockHash: hash, ResultsHash: p.results.Hash(), ProposerKey: proposerKey}
	mk := vs.MultiKey.Copy()
	sb := qc.SignBytes()
	for _, i := range signers {
		_, idx, e := vs.GetValidatorAndIdx(n.valKeys[i].PublicKey().Bytes())
		if e != nil {
			continue // not in the committee (paused, unstaking, ...)
		}
		_ = mk.AddSigner(n.valKeys[i].Sign(sb), idx)
	}
	sig, e := mk.AggregateSignatures()
	if e != nil {
		return nil, lib.ErrInvalidArgument()
	}
	qc.Signature = &lib.AggregateSignature{Signature: sig, Bitmap: mk.Bitmap()}
	qc.Block, qc.Results = p.block, p.results
	return &lib.BlockMessage{ChainId: 1, BlockAndCertificate: qc, Time: uint64(time.Now().UnixMicro())}, nil
}

func (n *node) commit(m *lib.BlockMessage) lib.ErrorI {
	_, err := n.c.HandlePeerBlock(m, false)
	return err
}

func (n *node) submit(tx lib.TransactionI) ([]byte, lib.ErrorI) {
	bz, err := lib.Marshal(tx)
	if err != nil {
		return nil, err
	}
	return bz, n.c.Mempool.HandleTransactions(bz)
}

// ---- raw state scan ----------------------------------------------------------------------------------------

type ValRec struct {
	Name       string   `json:"name"`
	Stake      uint64   `json:"stake"`
	Unstaking  uint64   `json:"unstaking"`
	Paused     uint64   `json:"paused"`
	Delegate   bool     `json:"delegate"`
	Compound   bool     `json:"compound"`
	Committees []uint64 `json:"committees"`
	Output     string   `json:"output"`
	Rank       int      `json:"rank"` // rank of the address among all known addresses (byte order), for the tie-break
}

// CommRec is what the node answers for the committee / delegate set of one chain
type CommRec struct {
	Chain     uint64 `json:"chain"`
	Members   []KVu  `json:"members"` // in the order the node returns them
	Total     uint64 `json:"total"`
	Maj23     uint64 `json:"maj23"`
	Delegates []KVu  `json:"delegates"`
	Err       string `json:"err"`
}

type Marker struct {
	H    uint64 `json:"h"`
	Name string `json:"name"`
}

type KVu struct {
	K string `json:"k"`
	V uint64 `json:"v"`
}

type Scan struct {
	Height    uint64   `json:"height"`
	Accounts  []KVu    `json:"accounts"`
	Pools     []KVu    `json:"pools"`
	Vals      []ValRec `json:"vals"`
	Total     uint64   `json:"total"`
	Staked    uint64   `json:"staked"`
	Delegated uint64   `json:"delegated"`
	CStaked   []KVu    `json:"cstaked"`
	CDeleg    []KVu    `json:"cdeleg"`
	Unstaking []Marker `json:"unstakingIdx"`
	Paused    []Marker `json:"pausedIdx"`
	// derived by the driver with big integers so that TLC (32-bit ints) only compares: sum(accounts)+sum(pools)+sum(stakes) - total
	Comm         []CommRec `json:"comm"`
	MaxCommSize  uint64    `json:"maxCommSize"`
	MaxDelegSize uint64    `json:"maxDelegSize"`
	HistOK       bool      `json:"histOK"`      // every past committee re-queried now equals what was answered when it was current
	HistChecked  int       `json:"histChecked"` // how many (chain, height) pairs were re-queried
	SumResidual  string    `json:"sumResidual"`
	NoWrap       bool      `json:"noWrap"` // no account, pool or stake exceeds the total supply
	SumAcc       uint64    `json:"sumAcc"`
	SumPool      uint64    `json:"sumPool"`
	SumStake     uint64    `json:"sumStake"`
}

func (n *node) iterate(prefix []byte, f func(k, v []byte) error) error {
	sm := n.c.FSM
	if n.scanFSM != nil {
		sm = n.scanFSM
	}
	it, err := sm.Iterator(prefix)
	if err != nil {
		return err
	}
	defer it.Close()
	for ; it.Valid(); it.Next() {
		if e := f(bytes.Clone(it.Key()), bytes.Clone(it.Value())); e != nil {
			return e
		}
	}
	return nil
}

func keySegments(k []byte) [][]byte {
	var segs [][]byte
	for len(k) > 0 {
		l := int(k[0])
		if 1+l > len(k) {
			return segs
		}
		segs = append(segs, k[1:1+l])
		k = k[1+l:]
	}
	return segs
}

// scanProposal scans the proposer's working state: the state its proposed header commits to
func (n *node) scanProposal() (*Scan, error) {
	n.scanFSM = n.c.Mempool.FSM
	defer func() { n.scanFSM = nil }()
	return n.scan()
}

func (n *node) scan() (*Scan, error) {
	s := &Scan{Height: n.c.FSM.Height(), Accounts: []KVu{}, Pools: []KVu{}, Vals: []ValRec{}, CStaked: []KVu{}, CDeleg: []KVu{}, Unstaking: []Marker{}, Paused: []Marker{}}
	if err := n.iterate(fsm.AccountPrefix(), func(k, v []byte) error {
		a := new(fsm.Account)
		if e := lib.Unmarshal(v, a); e != nil {
			return e
		}
		segs := keySegments(k)
		s.Accounts = append(s.Accounts, KVu{K: addrName(n.names, segs[len(segs)-1]), V: a.Amount})
		return nil
	}); err != nil {
		return nil, err
	}
	if err := n.iterate(fsm.PoolPrefix(), func(k, v []byte) error {
		p := new(fsm.Pool)
		if e := lib.Unmarshal(v, p); e != nil {
			return e
		}
		segs := keySegments(k)
		id := binary.BigEndian.Uint64(segs[len(segs)-1])
		s.Pools = append(s.Pools, KVu{K: fmt.Sprintf("p%d", id), V: p.Amount})
		return nil
	}); err != nil {
		return nil, err
	}
	if err := n.iterate(fsm.ValidatorPrefix(), func(k, v []byte) error {
		val := new(fsm.Validator)
		if e := lib.Unmarshal(v, val); e != nil {
			return e
		}
		cm := val.Committees
		if cm == nil {
			cm = []uint64{}
		}
		s.Vals = append(s.Vals, ValRec{Name: addrName(n.names, val.Address), Stake: val.StakedAmount, Unstaking: val.UnstakingHeight, Paused: val.MaxPausedHeight,
			Delegate: val.Delegate, Compound: val.Compound, Committees: cm, Output: addrName(n.names, val.Output)})
		return nil
	}); err != nil {
		return nil, err
	}
	if err := n.iterate(fsm.SupplyPrefix(), func(k, v []byte) error {
		sp := new(fsm.Supply)
		if e := lib.Unmarshal(v, sp); e != nil {
			return e
		}
		s.Total, s.Staked, s.Delegated = sp.Total, sp.Staked, sp.DelegatedOnly
		for _, p := range sp.CommitteeStaked {
			s.CStaked = append(s.CStaked, KVu{K: fmt.Sprintf("c%d", p.Id), V: p.Amount})
		}
		for _, p := range sp.CommitteeDelegatedOnly {
			s.CDeleg = append(s.CDeleg, KVu{K: fmt.Sprintf("c%d", p.Id), V: p.Amount})
		}
		return nil
	}); err != nil {
		return nil, err
	}
	marker := func(prefix byte, dst *[]Marker) error {
		return n.iterate(lib.JoinLenPrefix([]byte{prefix}), func(k, v []byte) error {
			segs := keySegments(k)
			if len(segs) < 3 {
				return fmt.Errorf("malformed marker key %x", k)
			}
			*dst = append(*dst, Marker{H: binary.BigEndian.Uint64(segs[1]), Name: addrName(n.names, segs[2])})
			return nil
		})
	}
	if err := marker(5, &s.Unstaking); err != nil {
		return nil, err
	}
	if err := marker(6, &s.Paused); err != nil {
		return nil, err
	}
	// committees and delegates as the node answers them (this is what C13 compares with the definition)
	s.Comm = []CommRec{}
	chains := []uint64{1, 2, 3}
	if n.scanFSM != nil {
		chains = nil // committees are a question to the committed state
	}
	for _, chain := range chains {
		cr := CommRec{Chain: chain, Members: []KVu{}, Delegates: []KVu{}}
		if vs, err := n.c.FSM.GetCommitteeMembers(chain); err == nil {
			for _, m := range vs.ValidatorSet.ValidatorSet {
				pk, _ := crypto.NewPublicKeyFromBytes(m.PublicKey)
				cr.Members = append(cr.Members, KVu{K: addrName(n.names, pk.Address().Bytes()), V: m.VotingPower})
			}
			cr.Total, cr.Maj23 = vs.TotalPower, vs.MinimumMaj23
		} else if err.Code() != lib.CodeNoValidators {
			cr.Err = err.Error()
		}
		if vs, err := n.c.FSM.GetDelegates(chain); err == nil {
			for _, m := range vs.ValidatorSet.ValidatorSet {
				pk, _ := crypto.NewPublicKeyFromBytes(m.PublicKey)
				cr.Delegates = append(cr.Delegates, KVu{K: addrName(n.names, pk.Address().Bytes()), V: m.VotingPower})
			}
		}
		s.Comm = append(s.Comm, cr)
	}
	if p, err := n.c.FSM.GetParamsVal(); err == nil {
		s.MaxCommSize, s.MaxDelegSize = p.MaxCommitteeSize, p.MaximumDelegatesPerCommittee
	}
	// address ranks for the (stake desc, address desc) tie-break
	var addrs []string
	for a := range n.names {
		addrs = append(addrs, a)
	}
	sort.Strings(addrs) // hex strings of equal length: same order as the bytes
	rank := map[string]int{}
	for i, a := range addrs {
		rank[n.names[a]] = i + 1
	}
	for i := range s.Vals {
		s.Vals[i].Rank = rank[s.Vals[i].Name]
	}
	s.HistOK = true
	sort.Slice(s.Accounts, func(i, j int) bool { return s.Accounts[i].K < s.Accounts[j].K })
	sort.Slice(s.Vals, func(i, j int) bool { return s.Vals[i].Name < s.Vals[j].Name })
	return s, nil
}
