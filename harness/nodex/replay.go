package main

import (
	"encoding/json"
	"fmt"
	"math/big"
	"math/rand"
	"sort"

	"github.com/canopy-network/canopy/fsm"
	"github.com/canopy-network/canopy/lib"
	"github.com/canopy-network/canopy/lib/crypto"
	"github.com/canopy-network/canopy/store"
	"github.com/ethereum/go-ethereum/common"
	ethTypes "github.com/ethereum/go-ethereum/core/types"
	ethCrypto "github.com/ethereum/go-ethereum/crypto"
	"google.golang.org/protobuf/encoding/protowire"
	"google.golang.org/protobuf/proto"
)

// replay mode (specs/Replay.tla, property C06): a signed transfer is included once; afterwards every other byte string
// that carries the same signed content is offered again, in its own block, and the recipient's balance tells whether it
// executed. Also: content signed for another chain / network, and creation heights outside the window.

type ReplayLine struct {
	Kind     string `json:"kind"` // "start" | "offer"
	Run      int    `json:"run"`
	Content  int    `json:"content"`  // identity of the signed content (one per original transaction)
	Variant  string `json:"variant"`  // how the offered bytes were derived
	Legit    bool   `json:"legit"`    // the first, canonical submission of a content that is meant for this chain and window
	Mempool  bool   `json:"mempool"`  // accepted by the mempool
	Included bool   `json:"included"` // present in the produced block
	Executed bool   `json:"executed"` // the recipient's balance moved by the content's amount
	Height   uint64 `json:"height"`
	Err      string `json:"err"`
}

// protobuf re-encodings that decode to the same message
type field struct {
	num protowire.Number
	typ protowire.Type
	raw []byte // value bytes as they appear (without tag)
	v   uint64 // varint value
}

func parseFields(b []byte) ([]field, bool) {
	var out []field
	for len(b) > 0 {
		num, typ, n := protowire.ConsumeTag(b)
		if n < 0 {
			return nil, false
		}
		b = b[n:]
		var m int
		f := field{num: num, typ: typ}
		switch typ {
		case protowire.VarintType:
			f.v, m = protowire.ConsumeVarint(b)
		case protowire.BytesType:
			_, m = protowire.ConsumeBytes(b)
		case protowire.Fixed32Type:
			_, m = protowire.ConsumeFixed32(b)
		case protowire.Fixed64Type:
			_, m = protowire.ConsumeFixed64(b)
		default:
			return nil, false
		}
		if m < 0 {
			return nil, false
		}
		f.raw = b[:m]
		b = b[m:]
		out = append(out, f)
	}
	return out, true
}

func emit(fs []field, nonMinimal bool) []byte {
	var out []byte
	for _, f := range fs {
		out = protowire.AppendTag(out, f.num, f.typ)
		if f.typ == protowire.VarintType && nonMinimal {
			// the same value with one redundant continuation byte
			v := protowire.AppendVarint(nil, f.v)
			v[len(v)-1] |= 0x80
			out = append(out, v...)
			out = append(out, 0x00)
			continue
		}
		out = append(out, f.raw...)
	}
	return out
}

func variants(tx []byte) map[string][]byte {
	v := map[string][]byte{"exact": tx}
	z := append([]byte{}, tx...)
	z = protowire.AppendTag(z, 10, protowire.VarintType)
	v["explicit-zero-field"] = protowire.AppendVarint(z, 0)
	if fs, ok := parseFields(tx); ok {
		rev := make([]field, len(fs))
		for i := range fs {
			rev[len(fs)-1-i] = fs[i]
		}
		v["fields-reversed"] = emit(rev, false)
		v["non-minimal-varints"] = emit(fs, true)
		// a scalar field repeated with the same value (last one wins when decoding)
		for _, f := range fs {
			if f.typ == protowire.VarintType {
				v["scalar-repeated"] = emit(append(append([]field{}, fs...), f), false)
				break
			}
		}
		// the bytes field of the message (Any) split is not attempted; an unknown field must be refused outright
		u := append([]byte{}, tx...)
		u = protowire.AppendTag(u, 99, protowire.VarintType)
		v["unknown-field"] = protowire.AppendVarint(u, 7)
	}
	return v
}

// equivalent representations of the public key and of the signature inside the transaction (the signed content is the same:
// the sign bytes do not cover the Signature field)
var (
	secpN, _ = new(big.Int).SetString("fffffffffffffffffffffffffffffffebaaedce6af48a03bbfd25e8cd0364141", 16)
	edL, _   = new(big.Int).SetString("1000000000000000000000000000000014def9dea2f79cd65812631a5cf5d3ed", 16)
)

func sigVariants(txBz []byte, keyType string) map[string][]byte {
	out := map[string][]byte{}
	with := func(name string, f func(t *lib.Transaction) bool) {
		t := new(lib.Transaction)
		if lib.Unmarshal(txBz, t) != nil || t.Signature == nil {
			return
		}
		t.Signature = &lib.Signature{PublicKey: append([]byte{}, t.Signature.PublicKey...), Signature: append([]byte{}, t.Signature.Signature...)}
		if !f(t) {
			return
		}
		if bz, e := lib.Marshal(t); e == nil && string(bz) != string(txBz) {
			out[name] = bz
		}
	}
	switch keyType {
	case "ethsecp256k1":
		with("pubkey-sec1-prefixed", func(t *lib.Transaction) bool { // 64 raw bytes <-> 0x04 || X || Y
			if len(t.Signature.PublicKey) != 64 {
				return false
			}
			t.Signature.PublicKey = append([]byte{0x04}, t.Signature.PublicKey...)
			return true
		})
		fallthrough
	case "secp256k1":
		with("signature-high-s", func(t *lib.Transaction) bool { // (r, s) -> (r, n - s)
			sg := t.Signature.Signature
			if len(sg) != 64 {
				return false
			}
			sNew := new(big.Int).Sub(secpN, new(big.Int).SetBytes(sg[32:]))
			sNew.FillBytes(sg[32:])
			return true
		})
		with("signature-with-recovery-id", func(t *lib.Transaction) bool {
			t.Signature.Signature = append(t.Signature.Signature, 0)
			return true
		})
	case "ed25519":
		with("signature-s-plus-l", func(t *lib.Transaction) bool { // S -> S + L (little endian scalar)
			sg := t.Signature.Signature
			if len(sg) != 64 {
				return false
			}
			le := make([]byte, 32)
			for i := range le {
				le[i] = sg[63-i]
			}
			sNew := new(big.Int).Add(new(big.Int).SetBytes(le), edL)
			if sNew.BitLen() > 256 {
				return false
			}
			sNew.FillBytes(le)
			for i := range le {
				sg[63-i] = le[i]
			}
			return true
		})
	}
	with("signature-trailing-byte", func(t *lib.Transaction) bool {
		t.Signature.Signature = append(t.Signature.Signature, 0)
		return keyType == "bls" || keyType == "ed25519"
	})
	return out
}

// an Ethereum wallet of the harness and a transfer signed with it, wrapped the way the RPC layer wraps raw transactions
var ethPriv, _ = ethCrypto.ToECDSA(append(make([]byte, 31), 0x77))

func ethAccount() crypto.AddressI {
	return crypto.NewAddressFromBytes(ethCrypto.PubkeyToAddress(ethPriv.PublicKey).Bytes())
}

func ethWrapped(recipient crypto.AddressI, amt, nonce uint64, v2 bool) []byte {
	to := common.BytesToAddress(recipient.Bytes())
	var wrapped *lib.Transaction
	if !v2 {
		chainID := new(big.Int).SetUint64(fsm.CanopyIdsToEVMChainId(1, 1))
		etx := ethTypes.NewTransaction(nonce, to, fsm.UpscaleTo18Decimals(amt), 21000, big.NewInt(100_000_000_000), nil)
		if signed, e := ethTypes.SignTx(etx, ethTypes.NewEIP155Signer(chainID), ethPriv); e == nil {
			raw, _ := signed.MarshalBinary()
			wrapped, _ = fsm.RLPToCanopyTransaction(raw)
		}
	} else if id, ok := fsm.CanopyIdsToEVMChainIdV2(1, 1); ok {
		chainID := new(big.Int).SetUint64(id)
		if signed, e := ethTypes.SignNewTx(ethPriv, ethTypes.LatestSignerForChainID(chainID), &ethTypes.DynamicFeeTx{ChainID: chainID, Nonce: nonce,
			GasTipCap: big.NewInt(1e9), GasFeeCap: big.NewInt(100_000_000_000), Gas: 21000, To: &to, Value: fsm.UpscaleTo18Decimals(amt)}); e == nil {
			raw, _ := signed.MarshalBinary()
			wrapped, _ = fsm.RLPToCanopyTransactionV2(raw)
		}
	}
	if wrapped == nil {
		return nil
	}
	bz, _ := lib.Marshal(wrapped)
	return bz
}

func replayMode(seed int64, runs int, out *json.Encoder) error {
	rng := rand.New(rand.NewSource(seed))
	for r := 0; r < runs; r++ {
		store.VerifPurgeBlockCache()
		n, err := newNode(ledgerGenesis(false, false), 0)
		if err != nil {
			return err
		}
		tune(n)
		_ = out.Encode(ReplayLine{Kind: "start", Run: r})
		recip := n.accKeys[1].PublicKey().Address()
		bal := func() uint64 { b, _ := n.c.FSM.GetAccountBalance(recip); return b }
		// offer: put bytes into the mempool, build + commit a block, see whether the recipient got `amt`
		offer := func(content int, variant string, legit bool, bz []byte, amt uint64) {
			line := ReplayLine{Kind: "offer", Run: r, Content: content, Variant: variant, Legit: legit, Height: n.height()}
			before := bal()
			line.Mempool = n.c.Mempool.HandleTransactions(bz) == nil
			p, e := n.propose()
			if e != nil {
				line.Err = e.Error()
				_ = out.Encode(line)
				return
			}
			blk := new(lib.Block)
			_ = lib.Unmarshal(p.block, blk)
			for _, t := range blk.Transactions {
				if string(t) == string(bz) {
					line.Included = true
				}
			}
			m, e := n.certify(p, []int{0, 1, 2, 3}, nil)
			if e == nil {
				e = n.commit(m)
			}
			if e != nil {
				line.Err = e.Error()
			}
			line.Executed = bal() == before+amt && amt != 0
			if bal() != before && !line.Executed {
				line.Err += fmt.Sprintf(" recipient moved by %d instead of %d", bal()-before, amt)
			}
			_ = out.Encode(line)
		}
		// offerPair: a transaction and another encoding of it in the mempool of ONE block (nothing is indexed yet when the
		// second one is checked)
		offerPair := func(content int, variant string, orig, alt []byte, amt uint64) {
			before, h := bal(), n.height()
			l1 := ReplayLine{Kind: "offer", Run: r, Content: content, Variant: "original-same-block", Legit: true, Height: h}
			l2 := ReplayLine{Kind: "offer", Run: r, Content: content, Variant: variant + "-same-block", Height: h}
			l1.Mempool = n.c.Mempool.HandleTransactions(orig) == nil
			l2.Mempool = n.c.Mempool.HandleTransactions(alt) == nil
			p, e := n.propose()
			if e == nil {
				blk := new(lib.Block)
				_ = lib.Unmarshal(p.block, blk)
				for _, t := range blk.Transactions {
					l1.Included = l1.Included || string(t) == string(orig)
					l2.Included = l2.Included || string(t) == string(alt)
				}
				var m *lib.BlockMessage
				if m, e = n.certify(p, []int{0, 1, 2, 3}, nil); e == nil {
					e = n.commit(m)
				}
			}
			if e != nil {
				l1.Err = e.Error()
			}
			d := bal() - before
			l1.Executed, l2.Executed = d >= amt, d == 2*amt
			if d != 0 && d != amt && d != 2*amt {
				l1.Err += fmt.Sprintf(" recipient moved by %d (amount %d)", d, amt)
			}
			_ = out.Encode(l1)
			_ = out.Encode(l2)
		}
		// two empty blocks first (replay protection only starts at height 2)
		offer(-1, "none", false, nil, 0)
		offer(-1, "none", false, nil, 0)
		content := 0
		memo := ""
		mk := func(net, chain, created uint64, amt uint64) []byte {
			tx, e := fsm.NewSendTransaction(n.accKeys[0], recip, amt, net, chain, 100, created, memo)
			if e != nil {
				return nil
			}
			bz, _ := lib.Marshal(tx)
			return bz
		}
		for k := 0; k < 4; k++ {
			content++
			amt := uint64(1000 + 17*content + rng.Intn(5))
			created := n.height()
			if k == 1 {
				created = n.height() + 50 // stamped in the future, inside the window
			}
			memo = ""
			if k == 3 {
				memo = "RLP" // for a key that is not an Ethereum key this is an ordinary memo
			}
			orig := mk(1, 1, created, amt)
			offer(content, "original", true, orig, amt)
			vs := variants(orig)
			names := []string{"exact", "explicit-zero-field", "fields-reversed", "non-minimal-varints", "scalar-repeated", "unknown-field"}
			rng.Shuffle(len(names), func(i, j int) { names[i], names[j] = names[j], names[i] })
			for _, name := range names {
				if bz, ok := vs[name]; ok {
					offer(content, name, false, bz, amt)
				}
			}
			// after a few more blocks the exact bytes again (later heights inside the window)
			offer(-1, "none", false, nil, 0)
			offer(content, "exact-later", false, orig, amt)
		}
		// senders with the other key types: besides the protobuf re-encodings, equivalent key / signature representations
		seedKey := func(tag byte) []byte { b := make([]byte, 32); b[0], b[31] = tag, byte(1+r); return b }
		secp, _ := crypto.BytesToSECP256K1Private(seedKey(0x51))
		eth, _ := crypto.BytesToEthSECP256K1Private(seedKey(0x52))
		alt := []struct {
			typ string
			key crypto.PrivateKeyI
		}{{"ed25519", n.accKeys[2]}, {"secp256k1", secp}, {"ethsecp256k1", eth}, {"bls", n.valKeys[2]}}
		for _, a := range alt {
			if a.key == nil {
				continue
			}
			if a.typ == "secp256k1" || a.typ == "ethsecp256k1" { // fund the new account
				if tx, e := fsm.NewSendTransaction(n.accKeys[0], a.key.PublicKey().Address(), 20000, 1, 1, 100, n.height(), a.typ); e == nil {
					bz, _ := lib.Marshal(tx)
					offer(-1, "none", false, bz, 0)
				}
			}
			content++
			amt := uint64(1500 + 13*content + rng.Intn(5))
			tx, e := fsm.NewSendTransaction(a.key, recip, amt, 1, 1, 100, n.height(), "")
			if e != nil {
				continue
			}
			orig, _ := lib.Marshal(tx)
			offer(content, "original-"+a.typ, true, orig, amt)
			vs := sigVariants(orig, a.typ)
			pv := variants(orig)
			vs["fields-reversed"], vs["exact"] = pv["fields-reversed"], pv["exact"]
			var names []string
			for name := range vs {
				names = append(names, name)
			}
			sort.Strings(names)
			rng.Shuffle(len(names), func(i, j int) { names[i], names[j] = names[j], names[i] })
			for _, name := range names {
				if vs[name] != nil {
					offer(content, name, false, vs[name], amt)
				}
			}
		}
		// transactions signed with an Ethereum wallet (raw RLP inside the Signature field), legacy wrapper and RLP.V2
		if priv, e := ethCrypto.ToECDSA(seedKey(0x53)); e == nil {
			from := crypto.NewAddressFromBytes(ethCrypto.PubkeyToAddress(priv.PublicKey).Bytes())
			if tx, e := fsm.NewSendTransaction(n.valKeys[3], from, 90000, 1, 1, 100, n.height(), "eth"); e == nil {
				bz, _ := lib.Marshal(tx)
				offer(-1, "none", false, bz, 0)
			}
			to := common.BytesToAddress(recip.Bytes())
			for _, v2 := range []bool{false, true} {
				content++
				amt := uint64(1500 + 13*content + rng.Intn(5))
				var wrapped *lib.Transaction
				if !v2 {
					chainID := new(big.Int).SetUint64(fsm.CanopyIdsToEVMChainId(1, 1))
					etx := ethTypes.NewTransaction(n.height(), to, fsm.UpscaleTo18Decimals(amt), 21000, big.NewInt(1_000_000_000_000), nil)
					if signed, e := ethTypes.SignTx(etx, ethTypes.NewEIP155Signer(chainID), priv); e == nil {
						raw, _ := signed.MarshalBinary()
						wrapped, _ = fsm.RLPToCanopyTransaction(raw)
					}
				} else if id, ok := fsm.CanopyIdsToEVMChainIdV2(1, 1); ok {
					chainID := new(big.Int).SetUint64(id)
					if signed, e := ethTypes.SignNewTx(priv, ethTypes.LatestSignerForChainID(chainID), &ethTypes.DynamicFeeTx{ChainID: chainID, Nonce: 0,
						GasTipCap: big.NewInt(1e9), GasFeeCap: big.NewInt(1_000_000_000_000), Gas: 21000, To: &to, Value: fsm.UpscaleTo18Decimals(amt)}); e == nil {
						raw, _ := signed.MarshalBinary()
						wrapped, _ = fsm.RLPToCanopyTransactionV2(raw)
					}
				}
				if wrapped == nil {
					continue
				}
				orig, _ := lib.Marshal(wrapped)
				kind := map[bool]string{false: "rlp", true: "rlp-v2"}[v2]
				if !v2 && r%2 == 1 { // both encodings in one block
					offerPair(content, "fields-reversed", orig, variants(orig)["fields-reversed"], amt)
					continue
				}
				offer(content, "original-"+kind, true, orig, amt)
				vs := sigVariants(orig, "ethsecp256k1")
				for name, bz := range variants(orig) {
					vs[name] = bz
				}
				delete(vs, "signature-high-s") // the Signature field holds the raw Ethereum transaction here, not (r, s)
				delete(vs, "signature-with-recovery-id")
				var names []string
				for name := range vs {
					names = append(names, name)
				}
				sort.Strings(names)
				for _, name := range names {
					if vs[name] != nil {
						offer(content, name, false, vs[name], amt)
					}
				}
			}
		}
		// a 2-of-3 multisig account: what a third party can derive from an included transaction without any key
		{
			ms := newMulti()
			msAddr := crypto.NewAddressFromBytes(ms.address(2))
			if tx, e := fsm.NewSendTransaction(n.accKeys[0], msAddr, 20000, 1, 1, 100, n.height(), "multisig"); e == nil {
				bz, _ := lib.Marshal(tx)
				offer(-1, "none", false, bz, 0)
			}
			content++
			amt := uint64(1500 + 13*content + rng.Intn(5))
			if txI, e := fsm.NewSendTransaction(n.accKeys[0], recip, amt, 1, 1, 100, n.height(), ""); e == nil {
				tx := txI.(*lib.Transaction)
				msg := new(fsm.MessageSend)
				_ = tx.Msg.UnmarshalTo(msg)
				msg.FromAddress = msAddr.Bytes()
				tx.Msg, _ = lib.NewAny(msg)
				ms.signWith(tx, []int{0, 2}, 2, nil)
				orig, _ := lib.Marshal(tx)
				offer(content, "original-multisig", true, orig, amt)
				vs := map[string][]byte{"exact": orig}
				mpk := new(crypto.MultiPublicKey)
				if proto.Unmarshal(tx.Signature.PublicKey, mpk) == nil && len(mpk.PublicKeys) == 3 {
					re := func(name string, f func(m *crypto.MultiPublicKey)) {
						m2 := proto.Clone(mpk).(*crypto.MultiPublicKey)
						f(m2)
						pk, _ := proto.Marshal(m2)
						t2 := proto.Clone(tx).(*lib.Transaction)
						t2.Signature.PublicKey = pk
						if bz, e := lib.Marshal(t2); e == nil {
							vs[name] = bz
						}
					}
					// keys 0 and 2 signed (bits 0 and 2): swap the positions of keys 0 and 2 - the bitmap stays the same
					re("multisig-keys-permuted", func(m *crypto.MultiPublicKey) { m.PublicKeys[0], m.PublicKeys[2] = m.PublicKeys[2], m.PublicKeys[0] })
					re("multisig-bitmap-padded", func(m *crypto.MultiPublicKey) { m.Bitmap = append(m.Bitmap, 0) })
					re("multisig-nonsigner-moved", func(m *crypto.MultiPublicKey) { // signers to the front, bitmap rewritten
						m.PublicKeys[1], m.PublicKeys[2] = m.PublicKeys[2], m.PublicKeys[1]
						m.Bitmap = []byte{m.Bitmap[0]&^0b101 | 0b011}
					})
				}
				var names []string
				for name := range vs {
					names = append(names, name)
				}
				sort.Strings(names)
				for _, name := range names {
					offer(content, name, false, vs[name], amt)
				}
			}
		}
		memo = ""
		for _, mm := range []string{"", "RLP"} {
			memo = mm
			content++
			amt := uint64(1000 + 17*content)
			orig := mk(1, 1, n.height(), amt)
			offerPair(content, "fields-reversed", orig, variants(orig)["fields-reversed"], amt)
		}
		memo = ""
		// content signed for another chain / another network, and outside the creation-height window: never executes,
		// also not when somebody rewrites the chain / network field of the signed transaction to this chain's
		rewrite := func(bz []byte, f func(t *lib.Transaction)) []byte {
			t := new(lib.Transaction)
			if lib.Unmarshal(bz, t) != nil {
				return nil
			}
			f(t)
			out, _ := lib.Marshal(t)
			return out
		}
		content++
		other := mk(1, 2, n.height(), 2001)
		offer(content, "other-chain", false, other, 2001)
		offer(content, "chain-id-rewritten", false, rewrite(other, func(t *lib.Transaction) { t.ChainId = 1 }), 2001)
		content++
		other = mk(2, 1, n.height(), 2002)
		offer(content, "other-network", false, other, 2002)
		offer(content, "network-id-rewritten", false, rewrite(other, func(t *lib.Transaction) { t.NetworkId = 1 }), 2002)
		content++
		offer(content, "created-beyond-window", false, mk(1, 1, n.height()+fsm.BlockAcceptanceRange+5, 2003), 2003)
		n.close()
	}
	return nil
}
