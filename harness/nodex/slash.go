package main

import (
	"encoding/json"
	"fmt"
	"math/rand"
	"sort"
	"strings"

	"github.com/canopy-network/canopy/fsm"
	"github.com/canopy-network/canopy/lib"
	"github.com/canopy-network/canopy/lib/crypto"
	"github.com/canopy-network/canopy/store"
)

// slash mode (specs/Slash.tla): one real node, protocol version 2 in most runs. Validators v1..v3 are reported as double
// signers (a) by the certificate of the own chain (committee 1), applied at the beginning of the next block, and (b) by
// certificate-results transactions of a nested chain (committee 2) inside the block, with transactions that pass the
// mempool's stateless checks but fail on delivery placed between them. Nothing else touches the victims' stake, so the
// stake and committees after a block are a function of the stake before it and of the slashes the block orders.
// Recorded per block: the victims before, the slashes in the order the block applies them, the victims in the state
// the proposer's header commits to ("proposal") and in the committed state ("block").

type SlVal struct {
	Name       string   `json:"name"`
	Stake      uint64   `json:"stake"`
	Committees []uint64 `json:"committees"`
}
type SlOrder struct {
	Name  string `json:"name"`
	Chain uint64 `json:"chain"`
	Pct   uint64 `json:"pct"`
}
type SlashLine struct {
	Kind     string    `json:"kind"` // "proposal" | "block" | "wedge"
	Run      int       `json:"run"`
	Height   uint64    `json:"height"`
	CapOn    bool      `json:"capOn"`
	Max      uint64    `json:"max"`
	Before   []SlVal   `json:"before"`
	Slashes  []SlOrder `json:"slashes"`
	After    []SlVal   `json:"after"`
	Failing  int       `json:"failing"`  // transactions submitted that fail on delivery
	Included int       `json:"included"` // transactions in the block
	// certificate-results transactions whose every reported (validator, height) pair is new and whose chain height is new:
	// nothing allows refusing them. Submitted to the pool for this block / found in the block.
	ValidSubmitted int    `json:"validSubmitted"`
	ValidIncluded  int    `json:"validIncluded"`
	Replayed       int    `json:"replayed"` // submitted: transactions that only repeat pairs already slashed (must fail on delivery)
	Err            string `json:"err"`
}

func victims(sc *Scan) []SlVal {
	out := []SlVal{}
	for _, v := range sc.Vals {
		if v.Name == "v0" {
			continue
		}
		cm := append([]uint64{}, v.Committees...)
		sort.Slice(cm, func(i, j int) bool { return cm[i] < cm[j] })
		out = append(out, SlVal{Name: v.Name, Stake: v.Stake, Committees: cm})
	}
	sort.Slice(out, func(i, j int) bool { return out[i].Name < out[j].Name })
	return out
}

type slashSim struct {
	n           *node
	run         int
	out         *json.Encoder
	rng         *rand.Rand
	capOn       bool
	pct, max    uint64
	reported    map[string]bool // "validator/height" pairs already used as evidence heights
	nestedH     uint64          // chain height of the nested chain's last certificate
	pending     []SlOrder       // slashes ordered by the last own-chain certificate: applied when the next block begins
	salt        int
	applied     map[string]bool     // "validator/height" pairs whose slash is in a committed block
	pendingKeys map[string]bool     // the pairs behind `pending`
	validTx     map[string]bool     // hashes of the valid certificate-results transactions submitted for the current block
	retry       []*lib.DoubleSigner // pairs that were only ever offered inside a transaction that had to fail: still unreported
}

func newSlashSim(run int, seed int64, out *json.Encoder) (*slashSim, error) {
	store.VerifPurgeBlockCache()
	rng := rand.New(rand.NewSource(seed))
	s := &slashSim{run: run, out: out, rng: rng, capOn: run%4 != 3, reported: map[string]bool{}, applied: map[string]bool{}}
	s.pct, s.max = []uint64{10, 10, 7, 4}[rng.Intn(4)], []uint64{15, 15, 20, 10}[rng.Intn(4)]
	gs := GenesisSpec{Stakes: []uint64{10000000, 100000, 100000 + uint64(rng.Intn(5000)), 50000 + uint64(rng.Intn(999))}, Accounts: 3, Balance: 100000,
		Committees: [][]uint64{{1, 2}, {1, 2}, {2, 1}, {2}},
		Params: func(p *fsm.Params) {
			p.Validator.UnstakingBlocks = 30
			p.Validator.NonSignWindow = 1000000
			p.Validator.MaxNonSign = 1000000
			p.Validator.DoubleSignSlashPercentage = s.pct
			p.Validator.MaxSlashPerCommittee = s.max
			p.Validator.MinimumStakeForValidators = 0
			p.Validator.MaxCommitteeSize = 10
			p.Fee.SendFee = 100
			if s.capOn {
				p.Consensus.ProtocolVersion = fsm.NewProtocolVersion(0, 2)
			} else {
				p.Validator.MaxSlashPerCommittee = 100
			}
		}}
	n, err := newNode(gs, 0)
	if err != nil {
		return nil, err
	}
	s.n = n
	return s, nil
}

// certResultsTx: a +2/3 signed certificate of the nested chain 2 that reports double signers
func (s *slashSim) certResultsTx(dbl []*lib.DoubleSigner, fee uint64, stale bool) ([]byte, lib.ErrorI) {
	n := s.n
	h := n.height()
	committee, err := n.c.FSM.LoadCommittee(2, h-1)
	if err != nil {
		return nil, err
	}
	if !stale { // a stale certificate repeats the chain height of the previous one: it fails on delivery
		s.nestedH++
	}
	s.salt++
	results := &lib.CertificateResult{
		RewardRecipients: &lib.RewardRecipients{PaymentPercents: []*lib.PaymentPercents{{Address: n.valKeys[0].PublicKey().Address().Bytes(), Percent: 100, ChainId: 2}}},
		SlashRecipients:  &lib.SlashRecipients{DoubleSigners: dbl},
	}
	qc := &lib.QuorumCertificate{
		Header:      &lib.View{NetworkId: n.c.Config.NetworkID, ChainId: 2, Height: s.nestedH, RootHeight: h - 1},
		Results:     results,
		ResultsHash: results.Hash(),
		BlockHash:   crypto.Hash([]byte(fmt.Sprintf("nested block %d/%d", s.nestedH, s.salt))),
		ProposerKey: n.valKeys[0].PublicKey().Bytes(),
	}
	mk := committee.MultiKey.Copy()
	sb := qc.SignBytes()
	for _, k := range n.valKeys {
		if _, idx, e := committee.GetValidatorAndIdx(k.PublicKey().Bytes()); e == nil {
			_ = mk.AddSigner(k.Sign(sb), idx)
		}
	}
	sig, e := mk.AggregateSignatures()
	if e != nil {
		return nil, lib.ErrInvalidArgument()
	}
	qc.Signature = &lib.AggregateSignature{Signature: sig, Bitmap: mk.Bitmap()}
	tx, err := fsm.NewCertificateResultsTx(n.valKeys[0], qc, 1, n.c.Config.NetworkID, fee, h, "")
	if err != nil {
		return nil, err
	}
	return lib.Marshal(tx)
}

// report: double-sign heights for a validator that were not used before
func (s *slashSim) report(who int, count int) *lib.DoubleSigner {
	h := s.n.height()
	var hs []uint64
	for x := h - 1; x >= 1 && len(hs) < count; x-- {
		key := fmt.Sprintf("%d/%d", who, x)
		if !s.reported[key] {
			s.reported[key] = true
			hs = append(hs, x)
		}
	}
	if len(hs) == 0 {
		return nil
	}
	return &lib.DoubleSigner{Id: s.n.valKeys[who].PublicKey().Bytes(), Heights: hs}
}

// orders: the slashes a list of double signers orders; a (validator, height) pair counts once in the life of the chain
// oldPair: a (validator, height) pair whose slash is already in a committed block
func (s *slashSim) oldPair() *lib.DoubleSigner {
	var keys []string
	for k := range s.applied {
		keys = append(keys, k)
	}
	if len(keys) == 0 {
		return nil
	}
	sort.Strings(keys)
	var name string
	var x uint64
	k := keys[s.rng.Intn(len(keys))]
	if i := strings.Index(k, "/"); i > 0 {
		name = k[:i]
		fmt.Sscan(k[i+1:], &x)
	}
	for i, key := range s.n.valKeys {
		if addrName(s.n.names, key.PublicKey().Address().Bytes()) == name {
			return &lib.DoubleSigner{Id: s.n.valKeys[i].PublicKey().Bytes(), Heights: []uint64{x}}
		}
	}
	return nil
}

func (s *slashSim) orders(chain uint64, dbl []*lib.DoubleSigner, mark map[string]bool) (out []SlOrder) {
	for _, d := range dbl {
		pk, _ := crypto.NewPublicKeyFromBytes(d.Id)
		name := addrName(s.n.names, pk.Address().Bytes())
		for _, x := range d.Heights {
			key := fmt.Sprintf("%s/%d", name, x)
			if s.applied[key] || mark[key] {
				continue
			}
			mark[key] = true
			out = append(out, SlOrder{Name: name, Chain: chain, Pct: s.pct})
		}
	}
	return
}

func (s *slashSim) block() bool {
	n := s.n
	h := n.height()
	sc0, err0 := n.scan()
	if err0 != nil {
		return false
	}
	line := SlashLine{Run: s.run, Height: h, CapOn: s.capOn, Max: s.max, Before: victims(sc0), Slashes: append([]SlOrder{}, s.pending...), After: []SlVal{}}
	mark := map[string]bool{} // pairs whose slash this block applies (begin-block ones first)
	for k := range s.pendingKeys {
		mark[k] = true
	}
	s.validTx = map[string]bool{}
	submitValid := func(dbl []*lib.DoubleSigner, fee uint64) bool {
		bz, e := s.certResultsTx(dbl, fee, false)
		if e != nil || n.c.Mempool.HandleTransactions(bz) != nil {
			return false
		}
		s.validTx[crypto.HashString(bz)] = true
		line.ValidSubmitted++
		return true
	}
	// transactions: certificate results of the nested chain with failing ones between them (the pool keeps them in arrival order)
	fee := uint64(90000)
	ntx := s.rng.Intn(4)
	submitted := 0
	// pairs that so far only appeared inside a transaction that had to fail are reported properly now
	for _, d := range s.retry {
		if h > 2 && submitValid([]*lib.DoubleSigner{d}, fee) {
			submitted++
		}
	}
	s.retry = nil
	for i := 0; i < ntx && h > 2; i++ {
		var dbl []*lib.DoubleSigner
		for _, who := range s.rng.Perm(3)[:1+s.rng.Intn(2)] {
			if d := s.report(who+1, 1+s.rng.Intn(2)); d != nil {
				dbl = append(dbl, d)
			}
		}
		if len(dbl) == 0 {
			continue
		}
		if submitValid(dbl, fee) {
			submitted++
		}
		// transactions that pass the mempool's stateless checks and fail on delivery. The pool puts certificate results ahead
		// of everything else (in arrival order), so what can stand BETWEEN two of them is another certificate-results
		// transaction: one that repeats the chain height and the (by then indexed) evidence of the previous one, ...
		switch s.rng.Intn(4) {
		case 0, 1:
			if bz, e := s.certResultsTx(dbl, fee, true); e == nil && n.c.Mempool.HandleTransactions(bz) == nil {
				line.Failing++
			}
		case 2: // ... one with a new chain height that only repeats a pair slashed in an earlier block, ...
			if old := s.oldPair(); old != nil {
				if bz, e := s.certResultsTx([]*lib.DoubleSigner{old}, fee, false); e == nil && n.c.Mempool.HandleTransactions(bz) == nil {
					line.Failing++
					line.Replayed++
				}
			}
		case 3: // ... or one that reports a NEW pair first and a repeated one behind it: it fails after having indexed the new pair
			if old := s.oldPair(); old != nil {
				if fresh := s.report(1+s.rng.Intn(3), 1); fresh != nil {
					if bz, e := s.certResultsTx([]*lib.DoubleSigner{fresh, old}, fee, false); e == nil && n.c.Mempool.HandleTransactions(bz) == nil {
						line.Failing++
						// the new pair is reported properly right behind it (same block: the proposer executes both in one pass) or in the next block
						if s.rng.Intn(3) != 0 {
							if submitValid([]*lib.DoubleSigner{fresh}, fee) {
								submitted++
							}
						} else {
							s.retry = append(s.retry, fresh)
						}
					}
				}
			}
		}
		if s.rng.Intn(3) == 0 { // and an ordinary one behind them: the account cannot pay the amount
			if tx, e := fsm.NewSendTransaction(n.accKeys[s.rng.Intn(3)], n.accKeys[0].PublicKey().Address(), 1<<40, n.c.Config.NetworkID, 1, fee, h, ""); e == nil {
				if bz, e2 := lib.Marshal(tx); e2 == nil && n.c.Mempool.HandleTransactions(bz) == nil {
					line.Failing++
				}
			}
		}
	}
	p, err := n.propose()
	if err != nil {
		line.Kind, line.Err = "wedge", "propose: "+err.Error()
		_ = s.out.Encode(line)
		return false
	}
	blk := new(lib.Block)
	_ = lib.Unmarshal(p.block, blk)
	line.Included = len(blk.Transactions)
	for _, raw := range blk.Transactions {
		tx := new(lib.Transaction)
		if lib.Unmarshal(raw, tx) != nil || tx.MessageType != fsm.MessageCertificateResultsName {
			continue
		}
		msg := new(fsm.MessageCertificateResults)
		if e := tx.Msg.UnmarshalTo(msg); e == nil && msg.Qc != nil && msg.Qc.Results != nil && msg.Qc.Results.SlashRecipients != nil {
			line.Slashes = append(line.Slashes, s.orders(msg.Qc.Header.ChainId, msg.Qc.Results.SlashRecipients.DoubleSigners, mark)...)
		}
		if s.validTx[crypto.HashString(raw)] {
			line.ValidIncluded++
		}
	}
	// the state the proposed header commits to: the mempool's working copy, rebuilt by ProduceProposal when transactions arrived
	// since the last build (otherwise the cached proposal is reused and the working copy has been reset)
	if ps, e := n.scanProposal(); e == nil && submitted > 0 {
		pl := line
		pl.Kind, pl.After = "proposal", victims(ps)
		_ = s.out.Encode(pl)
	}
	// the own chain's certificate reports double signers too: applied when the NEXT block begins
	var own []*lib.DoubleSigner
	if h > 2 && s.rng.Intn(2) == 0 {
		for _, who := range s.rng.Perm(2)[:1+s.rng.Intn(2)] { // v1, v2 are members of committee 1
			if d := s.report(who+1, 1+s.rng.Intn(3)); d != nil {
				own = append(own, d)
			}
		}
	}
	if len(own) > 0 {
		p.results.SlashRecipients = &lib.SlashRecipients{DoubleSigners: own}
	}
	m, err := n.certify(p, []int{0, 1, 2, 3}, nil)
	if err == nil {
		err = n.commit(m)
	}
	if err != nil {
		line.Kind, line.Err = "wedge", fmt.Sprintf("height %d: block does not commit: %v", h, err)
		_ = s.out.Encode(line)
		return false
	}
	sc, e := n.scan()
	if e != nil {
		return false
	}
	line.Kind, line.After = "block", victims(sc)
	_ = s.out.Encode(line)
	for k := range mark {
		s.applied[k] = true
	}
	s.pendingKeys = map[string]bool{}
	s.pending = s.orders(1, own, s.pendingKeys)
	return true
}

func slashMode(seed int64, runs, blocks int, out *json.Encoder) error {
	for r := 0; r < runs; r++ {
		s, err := newSlashSim(r, seed*1000+int64(r), out)
		if err != nil {
			return err
		}
		for b := 0; b < blocks; b++ {
			if !s.block() {
				break
			}
		}
		s.n.close()
	}
	return nil
}
