package main

import (
	"encoding/json"
	"fmt"

	"github.com/canopy-network/canopy/lib"
	"github.com/canopy-network/canopy/store"
	"google.golang.org/protobuf/encoding/protowire"
	"google.golang.org/protobuf/reflect/protoreflect"
)

// wire mode (property C19, decoder clause): an honestly certified block message is re-encoded with an unknown field at
// every nesting position (the certificate, its header, its aggregate signature, its results ...). Each variant goes
// through the same decoder as gossip (lib.Unmarshal into lib.BlockMessage) and HandlePeerBlock on a fresh node. If the
// node commits, everything it stored must be readable again (certificate by height, block by height) and the next block
// must be producible: bytes that the critical decoders refuse must never get into the archive.

type WireLine struct {
	E         string `json:"e"` // "wire"
	Kind      string `json:"kind"`
	Position  int    `json:"position"`
	Where     string `json:"where"`
	Decoded   bool   `json:"decoded"`
	Accepted  bool   `json:"accepted"`
	ReadBack  bool   `json:"readBack"`  // certificate and block readable after the commit
	NextBlock bool   `json:"nextBlock"` // the node can produce the next proposal
	Err       string `json:"err"`
}

type unkVariant struct {
	where string
	bytes []byte
}

func unknownVariants(b []byte, md protoreflect.MessageDescriptor, where string, depth int) []unkVariant {
	unk := protowire.AppendVarint(protowire.AppendTag(nil, 1999, protowire.VarintType), 7)
	out := []unkVariant{{where, append(append([]byte{}, b...), unk...)}}
	if depth > 5 {
		return out
	}
	off := 0
	for off < len(b) {
		num, typ, n := protowire.ConsumeTag(b[off:])
		if n < 0 {
			return out
		}
		start := off
		off += n
		switch typ {
		case protowire.VarintType:
			_, m := protowire.ConsumeVarint(b[off:])
			off += m
		case protowire.Fixed32Type:
			off += 4
		case protowire.Fixed64Type:
			off += 8
		case protowire.BytesType:
			v, m := protowire.ConsumeBytes(b[off:])
			if m < 0 {
				return out
			}
			fd := md.Fields().ByNumber(num)
			if fd != nil && fd.Kind() == protoreflect.MessageKind {
				for _, inner := range unknownVariants(v, fd.Message(), where+"."+string(fd.Name()), depth+1) {
					nb := append([]byte{}, b[:start]...)
					nb = protowire.AppendTag(nb, num, protowire.BytesType)
					nb = protowire.AppendBytes(nb, inner.bytes)
					nb = append(nb, b[off+m:]...)
					out = append(out, unkVariant{inner.where, nb})
				}
			}
			off += m
		default:
			return out
		}
	}
	return out
}

func wireMode(seed int64, out *json.Encoder) error {
	mkNode := func() (*node, *lib.BlockMessage, error) {
		store.VerifPurgeBlockCache()
		n, err := newNode(ledgerGenesis(false, false), 0)
		if err != nil {
			return nil, nil, err
		}
		tune(n)
		all := []int{0, 1, 2, 3}
		for i := 0; i < 2; i++ {
			p, e := n.propose()
			if e != nil {
				return nil, nil, e
			}
			m, e := n.certify(p, all, nil)
			if e != nil {
				return nil, nil, e
			}
			if e = n.commit(m); e != nil {
				return nil, nil, e
			}
		}
		sim := &ledgerSim{n: n, fee: 100, small: true}
		tx, _ := sim.txFor(Op{Op: "send", Who: 0, To: 1, Amt: 11})
		if _, e := n.submit(tx); e != nil {
			return nil, nil, e
		}
		p, e := n.propose()
		if e != nil {
			return nil, nil, e
		}
		m, e := n.certify(p, all, nil)
		return n, m, e
	}
	n, m, err := mkNode()
	if err != nil {
		return err
	}
	honest, e := lib.Marshal(m)
	if e != nil {
		return e
	}
	variants := func(honest []byte) []unkVariant {
		return append([]unkVariant{{"(honest bytes)", honest}}, unknownVariants(honest, m.ProtoReflect().Descriptor(), "blockMessage", 0)...)
	}
	vars := variants(honest)
	for i := 0; i < len(vars); i++ {
		v := vars[i]
		line := WireLine{E: "wire", Kind: "wire", Position: i, Where: v.where}
		bm := new(lib.BlockMessage)
		if e := lib.Unmarshal(v.bytes, bm); e != nil {
			line.Err = e.Error()
			_ = out.Encode(line)
			continue
		}
		line.Decoded = true
		h := n.height()
		_, herr := n.c.HandlePeerBlock(bm, false)
		line.Accepted = herr == nil
		if herr != nil {
			line.Err = herr.Error()
			n.c.FSM.Reset()
			_ = out.Encode(line)
			continue
		}
		// read back what was archived, the way sync / the next proposal does (cold block cache)
		store.VerifPurgeBlockCache()
		st := n.c.FSM.Store().(lib.StoreI)
		qc, e1 := st.GetQCByHeight(h)
		_, e2 := st.GetBlockByHeight(h)
		line.ReadBack = e1 == nil && e2 == nil && qc != nil && qc.Header != nil
		if !line.ReadBack {
			line.Err = fmt.Sprintf("certificate: %v block: %v", e1, e2)
		}
		_, e3 := n.propose()
		line.NextBlock = e3 == nil
		if e3 != nil {
			line.Err += " next proposal: " + e3.Error()
		}
		_ = out.Encode(line)
		// the node is consumed: a fresh one at the same height
		n.close()
		if n, m, err = mkNode(); err != nil {
			return err
		}
		if honest, e = lib.Marshal(m); e != nil {
			return e
		}
		vars = variants(honest) // same positions, this node's keys
	}
	n.close()
	return nil
}
