// p2px drives the real encrypted transport (p2p.NewHandshake / EncryptedConn) for specs/Transport.tla (C17).
//
//	p2px record <seed> <cases> <out.ndjson>     two real endpoints, an adversary on the wire between them
//	p2px handshake <seed> <out.ndjson>          handshake scenarios: honest, other network / chain, impostor, man in the middle
package main

import (
	"bufio"
	"bytes"
	"crypto/cipher"
	"encoding/binary"
	"encoding/hex"
	"encoding/json"
	"fmt"
	"io"
	"math/rand"
	"net"
	"os"
	"strconv"
	"strings"
	"sync"
	"time"

	"github.com/canopy-network/canopy/lib"
	"github.com/canopy-network/canopy/lib/crypto"
	"github.com/canopy-network/canopy/p2p"
	"google.golang.org/protobuf/proto"
)

const frameSize = crypto.EncryptedFrameSize

// proxy forwards a->b; in frame mode it cuts the stream into ciphertext frames and applies the scripted faults
type proxy struct {
	mu        sync.Mutex
	frameMode bool
	faults    map[int]string // frame index (from the switch to frame mode) -> fault
	seen      [][]byte
	idx       int
	held      []byte // a frame held back for a swap
	base      int
}

func (p *proxy) run(src, dst net.Conn) {
	// the plaintext key swap: one length prefixed message
	lp := make([]byte, 4)
	if _, err := io.ReadFull(src, lp); err != nil {
		_ = dst.Close()
		return
	}
	body := make([]byte, binary.BigEndian.Uint32(lp))
	if _, err := io.ReadFull(src, body); err != nil {
		_ = dst.Close()
		return
	}
	if _, err := dst.Write(append(lp, body...)); err != nil {
		return
	}
	// everything afterwards is ciphertext frames; faults are indexed from `base` (set when the handshake is over)
	for {
		_ = src.SetReadDeadline(time.Time{})
		frame := make([]byte, frameSize)
		if _, err := io.ReadFull(src, frame); err != nil {
			_ = dst.Close()
			return
		}
		p.mu.Lock()
		i := p.idx
		p.idx++
		fault := ""
		if p.frameMode {
			fault = p.faults[i-p.base]
		}
		p.seen = append(p.seen, bytes.Clone(frame))
		var outFrames [][]byte
		switch fault {
		case "":
			outFrames = [][]byte{frame}
		case "flip":
			frame[7+(i*131)%(frameSize-8)] ^= 0x10
			outFrames = [][]byte{frame}
		case "drop":
		case "dup":
			outFrames = [][]byte{frame, bytes.Clone(frame)}
		case "swap": // hold this frame, send it after the next one
			p.held = frame
		case "truncate":
			outFrames = [][]byte{frame[:frameSize/2]}
		case "replay":
			old := p.seen[p.base]
			outFrames = [][]byte{bytes.Clone(old), frame}
		case "inject":
			junk := make([]byte, frameSize)
			for j := range junk {
				junk[j] = byte(j * 7)
			}
			outFrames = [][]byte{junk, frame}
		}
		if fault != "swap" && p.held != nil {
			outFrames = append(outFrames, p.held)
			p.held = nil
		}
		p.mu.Unlock()
		for _, f := range outFrames {
			if _, err := dst.Write(f); err != nil {
				return
			}
		}
		if fault == "truncate" {
			_ = dst.Close()
			return
		}
	}
}

type pairResult struct {
	a, b   *p2p.EncryptedConn
	ea, eb lib.ErrorI
	ab     *proxy
}

func meta(net_, chain uint64) *lib.PeerMeta { return &lib.PeerMeta{NetworkId: net_, ChainId: chain} }

// connect: A <-> proxy <-> B, real handshakes on both ends
func connect(ka, kb crypto.PrivateKeyI, ma, mb *lib.PeerMeta) *pairResult {
	a1, a2 := net.Pipe()
	b1, b2 := net.Pipe()
	ab, ba := &proxy{faults: map[int]string{}}, &proxy{faults: map[int]string{}}
	go ab.run(a2, b1)
	go ba.run(b1, a2)
	r := &pairResult{ab: ab}
	var wg sync.WaitGroup
	wg.Add(2)
	go func() { defer wg.Done(); r.a, r.ea = p2p.NewHandshake(a1, ma, ka) }()
	go func() { defer wg.Done(); r.b, r.eb = p2p.NewHandshake(b2, mb, kb) }()
	wg.Wait()
	return r
}

// Ev is one line of the trace checked by specs/TransportTrace.tla
type Ev struct {
	E        string  `json:"e"` // case | write | fault | read | end | hs
	N        int     `json:"n"`
	B        int     `json:"b"`
	Err      bool    `json:"err"`
	Name     string  `json:"name"`
	At       int     `json:"at"`
	PrefixOK bool    `json:"prefixOK"`
	Msg      string  `json:"msg"`
	Hs       *HsLine `json:"hs"`
}

var noHs = &HsLine{}

func put(enc *json.Encoder, e Ev) {
	if e.Hs == nil {
		e.Hs = noHs
	}
	if len(e.Msg) > 200 {
		e.Msg = e.Msg[:200]
	}
	_ = enc.Encode(e)
}

func recordMode(seed int64, cases int, enc *json.Encoder) error {
	rng := rand.New(rand.NewSource(seed))
	ka, _ := crypto.NewBLS12381PrivateKey()
	kb, _ := crypto.NewBLS12381PrivateKey()
	sizes := []int{1, 2, 1023, 1024, 1025, 2047, 2048, 2049, 3000, 5000}
	bufsz := []int{1, 7, 500, 1023, 1024, 1025, 4096}
	faults := []string{"", "flip", "drop", "dup", "swap", "truncate", "replay", "inject"}
	for c := 0; c < cases; c++ {
		r := connect(ka, kb, meta(1, 1), meta(1, 1))
		if r.ea != nil || r.eb != nil {
			return fmt.Errorf("honest handshake failed: %v %v", r.ea, r.eb)
		}
		put(enc, Ev{E: "case"})
		if c%6 == 5 { // several goroutines write whole messages concurrently: every Write must stay contiguous and in nonce order
			concurrentCase(rng, r, enc)
			continue
		}
		nw := 1 + rng.Intn(4)
		var writes []int
		frames, total := 0, 0
		for i := 0; i < nw; i++ {
			n := sizes[rng.Intn(len(sizes))]
			if c%5 == 0 && i == 0 {
				n = 1 + rng.Intn(4000)
			}
			writes = append(writes, n)
			total += n
			frames += (n + 1023) / 1024
			put(enc, Ev{E: "write", N: n})
		}
		fault, at := faults[rng.Intn(len(faults))], -1
		if c < len(faults)*3 {
			fault = faults[c%len(faults)]
		}
		if fault != "" {
			at = rng.Intn(frames)
			if fault == "swap" && at == frames-1 {
				if frames == 1 {
					fault, at = "flip", 0
				} else {
					at = frames - 2
				}
			}
			if fault == "replay" && at == 0 {
				at = frames - 1
				if frames == 1 {
					fault, at = "dup", 0
				}
			}
			put(enc, Ev{E: "fault", Name: fault, At: at + 1})
		}
		r.ab.mu.Lock()
		r.ab.frameMode = true
		r.ab.base = r.ab.idx
		if fault != "" {
			r.ab.faults[at] = fault
		}
		r.ab.mu.Unlock()
		go func() {
			off := 0
			for _, n := range writes {
				chunk := make([]byte, n)
				for j := range chunk {
					chunk[j] = byte(off + j)
				}
				off += n
				_ = r.a.SetWriteDeadline(time.Now().Add(2 * time.Second))
				if _, err := r.a.Write(chunk); err != nil {
					return
				}
			}
		}()
		// reader with varying buffer sizes, until an error or silence; one more read after everything arrived
		var got []byte
		small := rng.Intn(3) == 0
		for reads := 0; reads < 400; reads++ {
			b := bufsz[rng.Intn(len(bufsz))]
			if small && total > 3000 && b < 500 {
				b = 500
			}
			buf := make([]byte, b)
			wait := 400 * time.Millisecond
			if len(got) >= total {
				wait = 120 * time.Millisecond
			}
			_ = r.b.SetReadDeadline(time.Now().Add(wait))
			n, err := r.b.Read(buf)
			got = append(got, buf[:n]...)
			if err != nil {
				if ne, ok := err.(net.Error); ok && ne.Timeout() && n == 0 {
					break // silence
				}
				put(enc, Ev{E: "read", B: b, N: n, Err: true, Msg: err.Error()})
				break
			}
			put(enc, Ev{E: "read", B: b, N: n})
		}
		want := make([]byte, len(got))
		for j := range want {
			want[j] = byte(j)
		}
		put(enc, Ev{E: "end", N: len(got), PrefixOK: bytes.Equal(got, want) && len(got) <= total})
		_ = r.a.Close()
		_ = r.b.Close()
	}
	return nil
}

// concurrentCase: W writers x M messages; message k of writer w is `len` bytes, all equal to the tag byte, preceded by a
// 3 byte header (tag, len hi, len lo). The reader splits the stream back into messages; the writes are logged in the order the
// reader saw them (the model's Write is atomic, so any order of whole messages is a behaviour of the model).
func concurrentCase(rng *rand.Rand, r *pairResult, enc *json.Encoder) {
	r.ab.mu.Lock()
	r.ab.frameMode = true
	r.ab.base = r.ab.idx
	r.ab.mu.Unlock()
	W, M := 2+rng.Intn(5), 6+rng.Intn(20)
	lens := []int{1, 500, 1021, 1022, 2000, 2045, 3069, 3500}
	total := 0
	plan := make([][]int, W)
	for w := range plan {
		for m := 0; m < M; m++ {
			n := lens[rng.Intn(len(lens))]
			plan[w] = append(plan[w], n)
			total += n + 3
		}
	}
	var wg sync.WaitGroup
	for w := 0; w < W; w++ {
		wg.Add(1)
		go func(w int) {
			defer wg.Done()
			for _, n := range plan[w] {
				msg := make([]byte, n+3)
				msg[0], msg[1], msg[2] = byte(w+1), byte(n>>8), byte(n)
				for j := 3; j < len(msg); j++ {
					msg[j] = byte(w + 1)
				}
				_ = r.a.SetWriteDeadline(time.Now().Add(3 * time.Second))
				if _, err := r.a.Write(msg); err != nil {
					return
				}
			}
		}(w)
	}
	var got []byte
	var reads []Ev
	for len(got) < total {
		buf := make([]byte, 4096)
		_ = r.b.SetReadDeadline(time.Now().Add(600 * time.Millisecond))
		n, err := r.b.Read(buf)
		got = append(got, buf[:n]...)
		if err != nil {
			if ne, ok := err.(net.Error); ok && ne.Timeout() && n == 0 {
				break
			}
			reads = append(reads, Ev{E: "read", B: 4096, N: n, Err: true, Msg: err.Error()})
			break
		}
		reads = append(reads, Ev{E: "read", B: 4096, N: n})
	}
	_ = r.a.Close()
	_ = r.b.Close()
	wg.Wait()
	// split into messages
	whole, seen := true, 0
	var order []int
	for i := 0; i < len(got); {
		if i+3 > len(got) {
			whole = len(got) < total // a cut stream is judged by the read error, not here
			break
		}
		tag, n := got[i], int(got[i+1])<<8|int(got[i+2])
		end := i + 3 + n
		if tag == 0 || int(tag) > W {
			whole = false
			break
		}
		if end > len(got) {
			end = len(got)
		}
		for j := i + 3; j < end; j++ {
			if got[j] != tag {
				whole = false
			}
		}
		order = append(order, n+3)
		seen++
		i += 3 + n
	}
	for _, n := range order {
		put(enc, Ev{E: "write", N: n})
	}
	for _, e := range reads {
		put(enc, e)
	}
	put(enc, Ev{E: "end", N: len(got), PrefixOK: whole && len(got) == total})
}

// ---- handshake scenarios ----------------------------------------------------------------------------------------

type HsLine struct {
	Scenario string `json:"scenario"`
	// what the attacker put in front of A (and, symmetrically, B): the identity presented, who really made the signature
	// over the challenge, whether that signature was made over this endpoint's own session challenge, whether the
	// attacker holds the session keys, and whether network / chain of the two configurations agree
	Presented  string `json:"presented"`
	Signer     string `json:"signer"`
	OwnChal    bool   `json:"ownChallenge"`
	Inside     bool   `json:"attackerInside"`
	SameConfig bool   `json:"sameConfig"`
	AAccepts   string `json:"aAccepts"` // identity A authenticated ("" = handshake failed): "B", "M", "?"
	BAccepts   string `json:"bAccepts"`
	Err        string `json:"err"`
}

// minimal re-implementation of the wire protocol for the attacker
func sendLP(c net.Conn, m proto.Message) error {
	bz, err := lib.Marshal(m)
	if err != nil {
		return err
	}
	lp := make([]byte, 4)
	binary.BigEndian.PutUint32(lp, uint32(len(bz)))
	_ = c.SetWriteDeadline(time.Now().Add(time.Second))
	_, e := c.Write(append(lp, bz...))
	return e
}
func recvLP(c net.Conn, m proto.Message) error {
	_ = c.SetReadDeadline(time.Now().Add(time.Second))
	lp := make([]byte, 4)
	if _, err := io.ReadFull(c, lp); err != nil {
		return err
	}
	bz := make([]byte, binary.BigEndian.Uint32(lp))
	if _, err := io.ReadFull(c, bz); err != nil {
		return err
	}
	return lib.Unmarshal(bz, m)
}

type sealer struct {
	send, recv cipher.AEAD
	sn, rn     [crypto.AEADNonceSize]byte
	c          net.Conn
}

func inc(n *[crypto.AEADNonceSize]byte) {
	binary.LittleEndian.PutUint64(n[4:], binary.LittleEndian.Uint64(n[4:])+1)
}
func (s *sealer) write(data []byte) error {
	plain := make([]byte, crypto.FrameSize)
	binary.LittleEndian.PutUint32(plain, uint32(len(data)))
	copy(plain[crypto.LengthHeaderSize:], data)
	out := s.send.Seal(nil, s.sn[:], plain, nil)
	inc(&s.sn)
	_ = s.c.SetWriteDeadline(time.Now().Add(time.Second))
	_, err := s.c.Write(out)
	return err
}
func (s *sealer) read() ([]byte, error) {
	ct := make([]byte, crypto.EncryptedFrameSize)
	_ = s.c.SetReadDeadline(time.Now().Add(time.Second))
	if _, err := io.ReadFull(s.c, ct); err != nil {
		return nil, err
	}
	plain, err := s.recv.Open(nil, s.rn[:], ct, nil)
	if err != nil {
		return nil, err
	}
	inc(&s.rn)
	n := binary.LittleEndian.Uint32(plain)
	return plain[crypto.LengthHeaderSize : crypto.LengthHeaderSize+n], nil
}
func (s *sealer) sendMsg(m proto.Message) error {
	bz, _ := lib.Marshal(m)
	lp := make([]byte, 4)
	binary.BigEndian.PutUint32(lp, uint32(len(bz)))
	return s.write(append(lp, bz...))
}
func (s *sealer) recvMsg(m proto.Message) error {
	bz, err := s.read()
	if err != nil {
		return err
	}
	if len(bz) < 4 {
		return fmt.Errorf("short")
	}
	return lib.Unmarshal(bz[4:], m)
}

// attackerSide performs the key swap with one honest endpoint using the given ephemeral public key bytes
func attackerSide(c net.Conn, ePriv crypto.PrivateKeyI, ePubOverride []byte) (*sealer, *[32]byte, error) {
	ePub := ePriv.PublicKey().Bytes()
	if ePubOverride != nil {
		ePub = ePubOverride
	}
	peer := new(crypto.ProtoPubKey)
	errc := make(chan error, 1)
	go func() { errc <- sendLP(c, &crypto.ProtoPubKey{Pubkey: ePub}) }()
	if err := recvLP(c, peer); err != nil {
		return nil, nil, err
	}
	if err := <-errc; err != nil {
		return nil, nil, err
	}
	var secret []byte
	if ePubOverride != nil {
		secret = make([]byte, 32) // a low-order point forces the all-zero shared secret on the honest side
	} else {
		var err error
		if secret, err = crypto.SharedSecret(peer.Pubkey, ePriv.Bytes()); err != nil {
			return nil, nil, err
		}
	}
	snd, rcv, ch, err := crypto.HKDFSecretsAndChallenge(secret, ePub, peer.Pubkey)
	if err != nil {
		return nil, nil, err
	}
	return &sealer{send: snd, recv: rcv, c: c}, ch, nil
}

func nameOf(pk []byte, ka, kb, km crypto.PrivateKeyI) string {
	switch {
	case pk == nil:
		return ""
	case bytes.Equal(pk, ka.PublicKey().Bytes()):
		return "A"
	case bytes.Equal(pk, kb.PublicKey().Bytes()):
		return "B"
	case bytes.Equal(pk, km.PublicKey().Bytes()):
		return "M"
	}
	return "?"
}

func handshakeMode(seed int64, enc *json.Encoder) error {
	ka, _ := crypto.NewBLS12381PrivateKey()
	kb, _ := crypto.NewBLS12381PrivateKey()
	km, _ := crypto.NewBLS12381PrivateKey()
	// the identity keys may be of any supported type
	if seed%3 == 1 {
		k1, _ := crypto.NewEd25519PrivateKey()
		k2, _ := crypto.NewEd25519PrivateKey()
		ka, kb = k1, k2
	} else if seed%3 == 2 {
		k1, _ := crypto.NewSECP256K1PrivateKey()
		k2, _ := crypto.NewSECP256K1PrivateKey()
		ka, kb = k1, k2
	}
	pk := func(c *p2p.EncryptedConn) []byte {
		if c == nil || c.Address == nil {
			return nil
		}
		return c.Address.PublicKey
	}
	emit := func(l HsLine) {
		if len(l.Err) > 300 {
			l.Err = l.Err[:300]
		}
		put(enc, Ev{E: "hs", Hs: &l})
	}
	// honest and configuration mismatches
	for _, sc := range []struct {
		name   string
		ma, mb *lib.PeerMeta
	}{{"honest", meta(1, 1), meta(1, 1)}, {"honest-2", meta(7, 3), meta(7, 3)}, {"other-network", meta(1, 1), meta(2, 1)}, {"other-chain", meta(1, 1), meta(1, 2)}} {
		r := connect(ka, kb, sc.ma, sc.mb)
		for try := 0; try < 3 && (r.ea != nil || r.eb != nil) && strings.HasPrefix(sc.name, "honest") &&
			(strings.Contains(fmt.Sprint(r.ea), "timeout") || strings.Contains(fmt.Sprint(r.eb), "timeout")); try++ {
			r = connect(ka, kb, sc.ma, sc.mb) // the handshake has a wall-clock timeout: on a loaded machine an honest pair may need another try
		}
		l := HsLine{Scenario: sc.name, Presented: "peer", Signer: "peer", OwnChal: true, SameConfig: sc.ma.NetworkId == sc.mb.NetworkId && sc.ma.ChainId == sc.mb.ChainId,
			AAccepts: nameOf(pk(r.a), ka, kb, km), BAccepts: nameOf(pk(r.b), ka, kb, km)}
		if r.ea != nil {
			l.AAccepts = ""
			l.Err += " A:" + r.ea.Error()
		}
		if r.eb != nil {
			l.BAccepts = ""
			l.Err += " B:" + r.eb.Error()
		}
		if r.a != nil && r.ea == nil {
			_ = r.a.Close()
		}
		if r.b != nil && r.eb == nil {
			_ = r.b.Close()
		}
		emit(l)
	}
	lowOrder := [][]byte{
		make([]byte, 32), // the identity
		append([]byte{1}, make([]byte, 31)...),
		{0xec, 0xff, 0xff, 0xff, 0xff, 0xff, 0xff, 0xff, 0xff, 0xff, 0xff, 0xff, 0xff, 0xff, 0xff, 0xff, 0xff, 0xff, 0xff, 0xff, 0xff, 0xff, 0xff, 0xff, 0xff, 0xff, 0xff, 0xff, 0xff, 0xff, 0xff, 0x7f},
		{0xe0, 0xeb, 0x7a, 0x7c, 0x3b, 0x41, 0xb8, 0xae, 0x16, 0x56, 0xe3, 0xfa, 0xf1, 0x9f, 0xc4, 0x6a, 0xda, 0x09, 0x8d, 0xeb, 0x9c, 0x32, 0xb1, 0xfd, 0x86, 0x62, 0x05, 0x16, 0x5f, 0x49, 0xb8, 0x00},
		{0x5f, 0x9c, 0x95, 0xbc, 0xa3, 0x50, 0x8c, 0x24, 0xb1, 0xd0, 0xb1, 0x55, 0x9c, 0x83, 0xef, 0x5b, 0x04, 0x44, 0x5c, 0xc4, 0x58, 0x1c, 0x8e, 0x86, 0xd8, 0x22, 0x4e, 0xdd, 0xd0, 0x9f, 0x11, 0x57},
		{0xed, 0xff, 0xff, 0xff, 0xff, 0xff, 0xff, 0xff, 0xff, 0xff, 0xff, 0xff, 0xff, 0xff, 0xff, 0xff, 0xff, 0xff, 0xff, 0xff, 0xff, 0xff, 0xff, 0xff, 0xff, 0xff, 0xff, 0xff, 0xff, 0xff, 0xff, 0x7f},
		{0xee, 0xff, 0xff, 0xff, 0xff, 0xff, 0xff, 0xff, 0xff, 0xff, 0xff, 0xff, 0xff, 0xff, 0xff, 0xff, 0xff, 0xff, 0xff, 0xff, 0xff, 0xff, 0xff, 0xff, 0xff, 0xff, 0xff, 0xff, 0xff, 0xff, 0xff, 0x7f},
	}
	hexs := []string{ // small-order points in Ed25519 encoding (the ephemeral keys are Ed25519 keys converted to X25519)
		"0100000000000000000000000000000000000000000000000000000000000000",
		"0000000000000000000000000000000000000000000000000000000000000080",
		"26e8958fc2b227b045c3f489f2ef98f0d5dfac05d3c63339b13802886d53fc05",
		"26e8958fc2b227b045c3f489f2ef98f0d5dfac05d3c63339b13802886d53fc85",
		"c7176a703d4dd84fba3c0b760d10670f2a2053fa2c39ccc64ec7fd7792ac037a",
		"c7176a703d4dd84fba3c0b760d10670f2a2053fa2c39ccc64ec7fd7792ac03fa",
		"ecffffffffffffffffffffffffffffffffffffffffffffffffffffffffffffff",
	}
	for _, h := range hexs {
		bz, _ := hex.DecodeString(h)
		lowOrder = append(lowOrder, bz)
	}
	type variant struct {
		name string
		low  []byte
		mode string // "own": the attacker's identity | "relay": pass the honest signatures across | "impostor" | "replayed" | "reflect"
	}
	variants := []variant{{"mitm-own-identity", nil, "own"}, {"mitm-relay-signatures", nil, "relay"}, {"impostor-claims-peer", nil, "impostor"},
		{"replayed-signature", nil, "replayed"}, {"reflection", nil, "reflect"}, {"meta-signed-by-other-key", nil, "metakey"}, {"meta-other-network", nil, "metanet"}}
	for i, lo := range lowOrder {
		variants = append(variants, variant{fmt.Sprintf("mitm-low-order-point-%d", i), lo, "relay"})
	}
	for _, v := range variants {
		a1, a2 := net.Pipe()
		b1, b2 := net.Pipe()
		var ra, rb *p2p.EncryptedConn
		var ea, eb lib.ErrorI
		var wg sync.WaitGroup
		wg.Add(2)
		go func() { defer wg.Done(); ra, ea = p2p.NewHandshake(a1, meta(1, 1), ka) }()
		go func() { defer wg.Done(); rb, eb = p2p.NewHandshake(b2, meta(1, 1), kb) }()
		l := HsLine{Scenario: v.name, Inside: true, SameConfig: true}
		func() {
			e1, _ := crypto.NewEd25519PrivateKey()
			e2, _ := crypto.NewEd25519PrivateKey()
			var sa, sb *sealer
			var ca, cb *[32]byte
			var err1, err2 error
			var w2 sync.WaitGroup
			w2.Add(2)
			go func() { defer w2.Done(); sa, ca, err1 = attackerSide(a2, e1, v.low) }()
			go func() { defer w2.Done(); sb, cb, err2 = attackerSide(b1, e2, v.low) }()
			w2.Wait()
			if err1 != nil || err2 != nil {
				l.Err = fmt.Sprintf("key swap: %v %v", err1, err2)
				_ = a2.Close()
				_ = b1.Close()
				return
			}
			sigA, sigB := new(lib.Signature), new(lib.Signature)
			var w3 sync.WaitGroup
			w3.Add(2)
			var ra1, ra2 error
			go func() { defer w3.Done(); ra1 = sa.recvMsg(sigA) }()
			go func() { defer w3.Done(); ra2 = sb.recvMsg(sigB) }()
			w3.Wait()
			if ra1 != nil || ra2 != nil {
				l.Err = fmt.Sprintf("signature read: %v %v", ra1, ra2)
				_ = a2.Close()
				_ = b1.Close()
				return
			}
			var toA, toB *lib.Signature
			switch v.mode {
			case "own", "metakey", "metanet":
				l.Presented, l.Signer, l.OwnChal = "M", "M", true
				toA = &lib.Signature{PublicKey: km.PublicKey().Bytes(), Signature: km.Sign(ca[:])}
				toB = &lib.Signature{PublicKey: km.PublicKey().Bytes(), Signature: km.Sign(cb[:])}
			case "relay": // only verifies if both half sessions happen to have the same challenge
				l.Presented, l.Signer, l.OwnChal = "peer", "peer", bytes.Equal(ca[:], cb[:])
				toA, toB = sigB, sigA
			case "impostor": // the peer's public key, a signature by the attacker's key
				l.Presented, l.Signer, l.OwnChal = "peer", "M", true
				toA = &lib.Signature{PublicKey: kb.PublicKey().Bytes(), Signature: km.Sign(ca[:])}
				toB = &lib.Signature{PublicKey: ka.PublicKey().Bytes(), Signature: km.Sign(cb[:])}
			case "replayed": // a genuine signature of the peer, made in some other session
				other := [32]byte{1, 2, 3}
				l.Presented, l.Signer, l.OwnChal = "peer", "peer", false
				toA = &lib.Signature{PublicKey: kb.PublicKey().Bytes(), Signature: kb.Sign(other[:])}
				toB = &lib.Signature{PublicKey: ka.PublicKey().Bytes(), Signature: ka.Sign(other[:])}
			case "reflect": // every endpoint gets its own messages back
				l.Presented, l.Signer, l.OwnChal = "self", "self", true
				toA, toB = sigA, sigB
			}
			_ = sa.sendMsg(toA)
			_ = sb.sendMsg(toB)
			mA, mB := new(lib.PeerMeta), new(lib.PeerMeta)
			w3.Add(2)
			go func() { defer w3.Done(); ra1 = sa.recvMsg(mA) }()
			go func() { defer w3.Done(); ra2 = sb.recvMsg(mB) }()
			w3.Wait()
			if ra1 != nil || ra2 != nil {
				l.Err = fmt.Sprintf("meta read: %v %v", ra1, ra2)
				_ = a2.Close()
				_ = b1.Close()
				return
			}
			switch v.mode {
			case "own":
				_ = sa.sendMsg(meta(1, 1).Sign(km))
				_ = sb.sendMsg(meta(1, 1).Sign(km))
			case "metakey": // the meta is signed by somebody else than the presented identity
				other, _ := crypto.NewBLS12381PrivateKey()
				l.Signer = "?"
				_ = sa.sendMsg(meta(1, 1).Sign(other))
				_ = sb.sendMsg(meta(1, 1).Sign(other))
			case "metanet":
				l.SameConfig = false
				_ = sa.sendMsg(meta(2, 1).Sign(km))
				_ = sb.sendMsg(meta(1, 2).Sign(km))
			case "reflect":
				_ = sa.sendMsg(mA)
				_ = sb.sendMsg(mB)
			default:
				_ = sa.sendMsg(mB)
				_ = sb.sendMsg(mA)
			}
		}()
		wg.Wait()
		l.AAccepts, l.BAccepts = nameOf(pk(ra), ka, kb, km), nameOf(pk(rb), ka, kb, km)
		if ea != nil {
			l.AAccepts = ""
			l.Err += " A:" + ea.Error()
		}
		if eb != nil {
			l.BAccepts = ""
			l.Err += " B:" + eb.Error()
		}
		emit(l)
		_ = a1.Close()
		_ = b2.Close()
		_ = a2.Close()
		_ = b1.Close()
	}
	return nil
}

func main() {
	if len(os.Args) < 4 {
		fmt.Fprintln(os.Stderr, "usage: p2px record <seed> <cases> <out> | p2px handshake <seed> <out>")
		os.Exit(2)
	}
	seed, _ := strconv.ParseInt(os.Args[2], 10, 64)
	f, err := os.Create(os.Args[len(os.Args)-1])
	if err != nil {
		fmt.Fprintln(os.Stderr, err)
		os.Exit(2)
	}
	defer f.Close()
	w := bufio.NewWriter(f)
	defer w.Flush()
	enc := json.NewEncoder(w)
	switch os.Args[1] {
	case "record":
		n, _ := strconv.Atoi(os.Args[3])
		err = recordMode(seed, n, enc)
	case "handshake":
		err = handshakeMode(seed, enc)
	default:
		err = fmt.Errorf("unknown mode")
	}
	if err != nil {
		w.Flush()
		fmt.Fprintln(os.Stderr, "p2px:", err)
		os.Exit(2)
	}
}
