// poolx drives the real lib.FeeMempool for specs/Mempool.tla.
//
//	poolx run <seed> <sequences> <ops> <out.ndjson>
//
// Every operation is logged with its arguments, its result and the pool's content afterwards (through the pool's own
// iterator); specs/MempoolTrace.tla recomputes every step with the operators of the specification.
package main

import (
	"bufio"
	"encoding/json"
	"fmt"
	"math/rand"
	"os"
	"strconv"
	"strings"

	"github.com/canopy-network/canopy/lib"
	"github.com/canopy-network/canopy/lib/crypto"
	"google.golang.org/protobuf/types/known/anypb"
)

type TxRec struct {
	Id   int    `json:"id"`
	Fee  uint64 `json:"fee"`
	Size int    `json:"size"`
	Seq  int    `json:"seq"`
}

type Line struct {
	E        string  `json:"e"`   // start | add | get | delete | clear
	Cfg      []int   `json:"cfg"` // start: MaxCount, MaxBytes, DropPct, MaxTxSize
	Batch    []TxRec `json:"batch"`
	Ids      []int   `json:"ids"`
	MaxBytes int     `json:"maxBytes"`
	Err      bool    `json:"err"`
	Got      []int   `json:"got"`  // get: ids returned, in order
	Pool     []TxRec `json:"pool"` // the pool afterwards, in its own order
	Count    int     `json:"count"`
	Bytes    int     `json:"bytes"`
	Contains []bool  `json:"contains"` // for Ids: Contains() afterwards
}

func main() {
	if len(os.Args) < 6 || os.Args[1] != "run" {
		fmt.Fprintln(os.Stderr, "usage: poolx run <seed> <sequences> <ops> <out>")
		os.Exit(2)
	}
	seed, _ := strconv.ParseInt(os.Args[2], 10, 64)
	seqs, _ := strconv.Atoi(os.Args[3])
	ops, _ := strconv.Atoi(os.Args[4])
	f, err := os.Create(os.Args[5])
	if err != nil {
		fmt.Fprintln(os.Stderr, err)
		os.Exit(2)
	}
	defer f.Close()
	w := bufio.NewWriterSize(f, 1<<20)
	defer w.Flush()
	enc := json.NewEncoder(w)
	rng := rand.New(rand.NewSource(seed))
	key, _ := crypto.NewEd25519PrivateKey()
	// a table of distinct transactions: identity = index; sizes vary through the memo, fees collide on purpose
	type tx struct {
		bz   []byte
		fee  uint64
		hash string
	}
	var table []tx
	idOf := map[string]int{}
	a, _ := anypb.New(&lib.Signature{PublicKey: []byte{1}, Signature: []byte{2}}) // any message will do: the pool does not look inside
	for i := 0; i < 40; i++ {
		t := &lib.Transaction{MessageType: "send", Msg: a, CreatedHeight: 1, Time: uint64(1000 + i), Fee: uint64(1 + rng.Intn(5)), NetworkId: 1, ChainId: 1,
			Memo: strings.Repeat("m", []int{0, 10, 60, 150, 200}[rng.Intn(5)])}
		if i%9 == 8 {
			t.MessageType = "certificateResults" // ranked above every fee and exempt from the size limit
			t.Memo = strings.Repeat("c", 200)
		}
		_ = t.Sign(key)
		bz, _ := lib.Marshal(t)
		table = append(table, tx{bz, t.Fee, crypto.HashString(bz)})
		idOf[string(bz)] = i + 1
	}
	rec := func(i, seq int) TxRec {
		t := table[i-1]
		fee := t.fee
		if (i-1)%9 == 8 {
			fee = 1000000 // stands for "above every fee" (the pool ranks certificate results with math.MaxUint32; TLC integers are 32 bit)
		}
		return TxRec{Id: i, Fee: fee, Size: len(t.bz), Seq: seq}
	}
	for s := 0; s < seqs; s++ {
		cfg := lib.MempoolConfig{MaxTotalBytes: uint64(900 + rng.Intn(2500)), MaxTransactionCount: uint32(3 + rng.Intn(10)), IndividualMaxTxSize: uint32(150 + rng.Intn(250)), DropPercentage: []int{10, 35, 60, 100}[rng.Intn(4)]}
		mp := lib.NewMempool(cfg)
		_ = enc.Encode(Line{E: "start", Cfg: []int{int(cfg.MaxTransactionCount), int(cfg.MaxTotalBytes), cfg.DropPercentage, int(cfg.IndividualMaxTxSize)}, Batch: []TxRec{}, Ids: []int{}, Got: []int{}, Pool: []TxRec{}, Contains: []bool{}})
		arrival := 0
		seqOf := map[int]int{}
		state := func(l *Line) {
			l.Pool = []TxRec{}
			it := mp.Iterator()
			for ; it.Valid(); it.Next() {
				id := idOf[string(it.Key())]
				l.Pool = append(l.Pool, rec(id, seqOf[id]))
			}
			it.Close()
			l.Count, l.Bytes = mp.TxCount(), mp.TxsBytes()
			l.Contains = []bool{}
			for _, id := range l.Ids {
				l.Contains = append(l.Contains, mp.Contains(table[id-1].hash))
			}
		}
		for k := 0; k < ops; k++ {
			l := Line{Cfg: []int{}, Batch: []TxRec{}, Ids: []int{}, Got: []int{}}
			switch op := rng.Intn(10); {
			case op < 6:
				l.E = "add"
				n := 1 + rng.Intn(4)
				var raw [][]byte
				for j := 0; j < n; j++ {
					id := 1 + rng.Intn(len(table))
					if j > 0 && rng.Intn(5) == 0 {
						id = l.Batch[0].Id // the same transaction twice in one batch
					}
					arrival++
					l.Batch = append(l.Batch, rec(id, arrival))
					l.Ids = append(l.Ids, id)
					raw = append(raw, table[id-1].bz)
				}
				_, e := mp.AddTransactions(raw...)
				l.Err = e != nil
				// arrival numbers of what got in
				it := mp.Iterator()
				in := map[int]bool{}
				for ; it.Valid(); it.Next() {
					in[idOf[string(it.Key())]] = true
				}
				for _, b := range l.Batch {
					if _, had := seqOf[b.Id]; !had && in[b.Id] {
						seqOf[b.Id] = b.Seq
					}
				}
				for id := range seqOf {
					if !in[id] {
						delete(seqOf, id)
					}
				}
			case op < 8:
				l.E, l.MaxBytes = "get", rng.Intn(int(cfg.MaxTotalBytes)+200)
				for _, bz := range mp.GetTransactions(uint64(l.MaxBytes)) {
					l.Got = append(l.Got, idOf[string(bz)])
				}
			case op < 9:
				l.E = "delete"
				var raw [][]byte
				for j := rng.Intn(3); j >= 0; j-- {
					id := 1 + rng.Intn(len(table))
					l.Ids = append(l.Ids, id)
					raw = append(raw, table[id-1].bz)
					delete(seqOf, id)
				}
				mp.DeleteTransaction(raw...)
			default:
				l.E = "clear"
				mp.Clear()
				seqOf = map[int]int{}
			}
			state(&l)
			_ = enc.Encode(l)
		}
	}
}
