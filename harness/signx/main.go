// signx produces the facts for specs/KeysTrace.tla (C19):
//
//	signx fields <seed> <out>          every field of every signed / hashed message kind is mutated (found by reflection over the
//	                                   protobuf descriptors): does the digest input change?
//	signx keys <seed> <n> <out>        composite store keys built by the real key builders from adversarial components: equality and
//	                                   byte-prefix relations between pairs, prefix-range membership
//	signx decode <seed> <n> <out>      untrusted bytes into the network facing decoders: unknown fields at every nesting position,
//	                                   truncations, length blow-ups, random mutations; panics, hangs and accepted unknown fields
package main

import (
	"bufio"
	"bytes"
	"encoding/binary"
	"encoding/json"
	"fmt"
	"math/rand"
	"os"
	"sort"
	"strconv"
	"strings"
	"time"

	"github.com/canopy-network/canopy/bft"
	"github.com/canopy-network/canopy/fsm"
	"github.com/canopy-network/canopy/lib"
	"github.com/canopy-network/canopy/lib/crypto"
	"github.com/canopy-network/canopy/p2p"
	"github.com/canopy-network/canopy/store"
	"google.golang.org/protobuf/encoding/protowire"
	"google.golang.org/protobuf/proto"
	"google.golang.org/protobuf/reflect/protoreflect"
	"google.golang.org/protobuf/types/known/anypb"
)

type Line struct {
	E       string   `json:"e"` // field | pair | range | decode
	Kind    string   `json:"kind"`
	Path    []string `json:"path"`
	Variant string   `json:"variant"`
	Equal   bool     `json:"equal"` // field: digest input unchanged by the mutation
	// keys
	KeyEq     bool `json:"keyEq"`
	KeyPrefix bool `json:"keyPrefix"` // key A is a byte prefix of key B
	SegEq     bool `json:"segEq"`     // same builder and same components
	SegPrefix bool `json:"segPrefix"` // A's segment tuple is a prefix of B's
	InRange   bool `json:"inRange"`   // range: key has the byte prefix
	Belongs   bool `json:"belongs"`   // range: key was built for that group
	// decode
	Accepted bool   `json:"accepted"`
	Panic    bool   `json:"panic"`
	Slow     bool   `json:"slow"`
	Critical bool   `json:"critical"`
	Unknown  bool   `json:"unknown"` // the input is a valid sample with one unknown field inserted
	Msg      string `json:"msg"`
}

// ---- reflection helpers -------------------------------------------------------------------------------------------

var counter int

func scalar(fd protoreflect.FieldDescriptor) protoreflect.Value {
	counter++
	n := counter%200 + 3
	switch fd.Kind() {
	case protoreflect.BoolKind:
		return protoreflect.ValueOfBool(true)
	case protoreflect.EnumKind:
		vals := fd.Enum().Values()
		return protoreflect.ValueOfEnum(vals.Get(1 % vals.Len()).Number())
	case protoreflect.Int32Kind, protoreflect.Sint32Kind, protoreflect.Sfixed32Kind:
		return protoreflect.ValueOfInt32(int32(n))
	case protoreflect.Uint32Kind, protoreflect.Fixed32Kind:
		return protoreflect.ValueOfUint32(uint32(n))
	case protoreflect.Int64Kind, protoreflect.Sint64Kind, protoreflect.Sfixed64Kind:
		return protoreflect.ValueOfInt64(int64(n))
	case protoreflect.Uint64Kind, protoreflect.Fixed64Kind:
		return protoreflect.ValueOfUint64(uint64(n))
	case protoreflect.FloatKind:
		return protoreflect.ValueOfFloat32(float32(n))
	case protoreflect.DoubleKind:
		return protoreflect.ValueOfFloat64(float64(n))
	case protoreflect.StringKind:
		return protoreflect.ValueOfString(fmt.Sprintf("s%d", n))
	case protoreflect.BytesKind:
		b := make([]byte, 20)
		for i := range b {
			b[i] = byte(n + i)
		}
		return protoreflect.ValueOfBytes(b)
	}
	panic("kind")
}

func populate(m protoreflect.Message, depth int) {
	fds := m.Descriptor().Fields()
	for i := 0; i < fds.Len(); i++ {
		fd := fds.Get(i)
		if fd.ContainingOneof() != nil && fd.ContainingOneof().Fields().Get(0) != fd {
			continue
		}
		switch {
		case fd.IsMap():
			continue
		case fd.IsList():
			l := m.Mutable(fd).List()
			for k := 0; k < 2; k++ {
				if fd.Kind() == protoreflect.MessageKind {
					if depth >= 4 {
						break
					}
					e := l.NewElement()
					populate(e.Message(), depth+1)
					l.Append(e)
				} else {
					l.Append(scalar(fd))
				}
			}
		case fd.Kind() == protoreflect.MessageKind:
			if depth >= 4 {
				continue
			}
			if fd.Message().FullName() == "google.protobuf.Any" {
				a, _ := anypb.New(&fsm.MessageSend{FromAddress: bytes.Repeat([]byte{7}, 20), ToAddress: bytes.Repeat([]byte{8}, 20), Amount: 5})
				m.Set(fd, protoreflect.ValueOfMessage(a.ProtoReflect()))
				continue
			}
			populate(m.Mutable(fd).Message(), depth+1)
		default:
			m.Set(fd, scalar(fd))
		}
	}
}

type mutation struct {
	path    []string
	variant string
	apply   func()
	undo    func()
}

func mutScalar(fd protoreflect.FieldDescriptor, v protoreflect.Value) []struct {
	name string
	v    protoreflect.Value
} {
	type r = struct {
		name string
		v    protoreflect.Value
	}
	switch fd.Kind() {
	case protoreflect.BoolKind:
		return []r{{"flip", protoreflect.ValueOfBool(!v.Bool())}}
	case protoreflect.EnumKind:
		vals := fd.Enum().Values()
		var out []r
		for i := 0; i < vals.Len(); i++ {
			if vals.Get(i).Number() != v.Enum() {
				out = append(out, r{"enum=" + string(vals.Get(i).Name()), protoreflect.ValueOfEnum(vals.Get(i).Number())})
			}
		}
		return out
	case protoreflect.Int32Kind, protoreflect.Sint32Kind, protoreflect.Sfixed32Kind:
		return []r{{"+1", protoreflect.ValueOfInt32(int32(v.Int()) + 1)}, {"zero", protoreflect.ValueOfInt32(0)}}
	case protoreflect.Uint32Kind, protoreflect.Fixed32Kind:
		return []r{{"+1", protoreflect.ValueOfUint32(uint32(v.Uint()) + 1)}, {"zero", protoreflect.ValueOfUint32(0)}}
	case protoreflect.Int64Kind, protoreflect.Sint64Kind, protoreflect.Sfixed64Kind:
		return []r{{"+1", protoreflect.ValueOfInt64(v.Int() + 1)}, {"zero", protoreflect.ValueOfInt64(0)}}
	case protoreflect.Uint64Kind, protoreflect.Fixed64Kind:
		return []r{{"+1", protoreflect.ValueOfUint64(v.Uint() + 1)}, {"zero", protoreflect.ValueOfUint64(0)}, {"+2^32", protoreflect.ValueOfUint64(v.Uint() + 1<<32)}}
	case protoreflect.FloatKind:
		return []r{{"+1", protoreflect.ValueOfFloat32(float32(v.Float()) + 1)}}
	case protoreflect.DoubleKind:
		return []r{{"+1", protoreflect.ValueOfFloat64(v.Float() + 1)}}
	case protoreflect.StringKind:
		return []r{{"append", protoreflect.ValueOfString(v.String() + "x")}, {"empty", protoreflect.ValueOfString("")}}
	case protoreflect.BytesKind:
		b := v.Bytes()
		fl := bytes.Clone(b)
		if len(fl) > 0 {
			fl[len(fl)/2] ^= 1
		}
		return []r{{"flip", protoreflect.ValueOfBytes(fl)}, {"append", protoreflect.ValueOfBytes(append(bytes.Clone(b), 0))}, {"truncate", protoreflect.ValueOfBytes(bytes.Clone(b[:len(b)/2]))}, {"empty", protoreflect.ValueOfBytes(nil)}}
	}
	return nil
}

// mutations of message m (recursively); anyHook re-packs an Any after its payload was mutated
func mutations(m protoreflect.Message, path []string, depth int, out *[]mutation, after func()) {
	fds := m.Descriptor().Fields()
	for i := 0; i < fds.Len(); i++ {
		fd := fds.Get(i)
		if !m.Has(fd) {
			continue
		}
		p := append(append([]string{}, path...), string(fd.Name()))
		switch {
		case fd.IsMap():
		case fd.IsList():
			l := m.Mutable(fd).List()
			// element mutations first: the list level operations below replace the element objects
			if fd.Kind() == protoreflect.MessageKind && depth < 5 {
				for k := 0; k < l.Len(); k++ {
					mutations(l.Get(k).Message(), append(p, strconv.Itoa(k)), depth+1, out, after)
				}
			} else if fd.Kind() != protoreflect.MessageKind && l.Len() > 0 {
				old := l.Get(0)
				for _, mv := range mutScalar(fd, old) {
					mv := mv
					*out = append(*out, mutation{append(p, "0"), mv.name, func() { l.Set(0, mv.v); after() }, func() { l.Set(0, old); after() }})
				}
			}
			if l.Len() >= 2 {
				*out = append(*out, mutation{p, "list-swap", func() {
					a, b := l.Get(0), l.Get(1)
					a, b = cloneV(fd, a), cloneV(fd, b)
					l.Set(0, b)
					l.Set(1, a)
					after()
				},
					func() { a, b := cloneV(fd, l.Get(0)), cloneV(fd, l.Get(1)); l.Set(0, b); l.Set(1, a); after() }})
				var saved protoreflect.Value
				*out = append(*out, mutation{p, "list-drop-last", func() { saved = cloneV(fd, l.Get(l.Len()-1)); l.Truncate(l.Len() - 1); after() }, func() { l.Append(saved); after() }})
				*out = append(*out, mutation{p, "list-duplicate-last", func() { l.Append(cloneV(fd, l.Get(l.Len()-1))); after() }, func() { l.Truncate(l.Len() - 1); after() }})
			}
		case fd.Kind() == protoreflect.MessageKind:
			sub := m.Get(fd).Message()
			saved := m.Get(fd)
			*out = append(*out, mutation{p, "clear", func() { m.Clear(fd); after() }, func() { m.Set(fd, saved); after() }})
			if sub.Descriptor().FullName() == "google.protobuf.Any" {
				a := sub.Interface().(*anypb.Any)
				inner, err := a.UnmarshalNew()
				if err == nil {
					repack := func() { b, _ := lib.Marshal(inner); a.Value = b; after() }
					mutations(inner.ProtoReflect(), append(p, "(payload)"), depth+1, out, repack)
				}
				tu := a.TypeUrl
				*out = append(*out, mutation{append(p, "type_url"), "other", func() { a.TypeUrl = tu + "x"; after() }, func() { a.TypeUrl = tu; after() }})
				continue
			}
			if depth < 5 {
				mutations(sub, p, depth+1, out, after)
			}
		default:
			old := m.Get(fd)
			for _, mv := range mutScalar(fd, old) {
				mv := mv
				*out = append(*out, mutation{p, mv.name, func() { m.Set(fd, mv.v); after() }, func() { m.Set(fd, old); after() }})
			}
		}
	}
}

func cloneV(fd protoreflect.FieldDescriptor, v protoreflect.Value) protoreflect.Value {
	if fd.Kind() == protoreflect.MessageKind {
		return protoreflect.ValueOfMessage(proto.Clone(v.Message().Interface()).ProtoReflect())
	}
	if fd.Kind() == protoreflect.BytesKind {
		return protoreflect.ValueOfBytes(bytes.Clone(v.Bytes()))
	}
	return v
}

// ---- fields mode ---------------------------------------------------------------------------------------------------

type kind struct {
	name   string
	msg    proto.Message
	digest func() []byte
}

func view(ph lib.Phase) *lib.View {
	return &lib.View{NetworkId: 1, ChainId: 2, Height: 30, RootHeight: 40, Round: 3, Phase: ph}
}

func fieldsMode(enc *json.Encoder) {
	var kinds []kind
	// transactions: one per message type
	msgs := map[string]proto.Message{
		"send": &fsm.MessageSend{}, "stake": &fsm.MessageStake{}, "editStake": &fsm.MessageEditStake{}, "unstake": &fsm.MessageUnstake{}, "pause": &fsm.MessagePause{},
		"unpause": &fsm.MessageUnpause{}, "changeParameter": &fsm.MessageChangeParameter{}, "daoTransfer": &fsm.MessageDAOTransfer{}, "certificateResults": &fsm.MessageCertificateResults{},
		"subsidy": &fsm.MessageSubsidy{}, "createOrder": &fsm.MessageCreateOrder{}, "editOrder": &fsm.MessageEditOrder{}, "deleteOrder": &fsm.MessageDeleteOrder{},
		"dexLimitOrder": &fsm.MessageDexLimitOrder{}, "dexLiquidityDeposit": &fsm.MessageDexLiquidityDeposit{}, "dexLiquidityWithdraw": &fsm.MessageDexLiquidityWithdraw{},
	}
	var names []string
	for n := range msgs {
		names = append(names, n)
	}
	sort.Strings(names)
	for _, n := range names {
		inner := msgs[n]
		populate(inner.ProtoReflect(), 0)
		a, err := anypb.New(inner)
		if err != nil {
			continue
		}
		tx := &lib.Transaction{}
		populate(tx.ProtoReflect(), 0)
		tx.Msg = a
		tx.MessageType = n
		t1 := tx
		kinds = append(kinds, kind{"tx.signbytes", t1, func() []byte { b, _ := t1.GetSignBytes(); return b }})
		t2 := proto.Clone(tx).(*lib.Transaction)
		kinds = append(kinds, kind{"tx.hash", t2, func() []byte { b, _ := t2.GetHash(); return b }})
	}
	// certificates / votes
	for _, ph := range []lib.Phase{lib.Phase_PROPOSE_VOTE, lib.Phase_PRECOMMIT_VOTE, lib.Phase_ELECTION_VOTE} {
		qc := &lib.QuorumCertificate{}
		populate(qc.ProtoReflect(), 0)
		qc.Header = view(ph)
		q := qc
		name := "qc.signbytes"
		if ph == lib.Phase_ELECTION_VOTE {
			name = "qc.signbytes.election"
		}
		kinds = append(kinds, kind{name, q, func() []byte { return q.SignBytes() }})
	}
	// consensus messages
	for _, ph := range []lib.Phase{lib.Phase_ELECTION, lib.Phase_PROPOSE, lib.Phase_PRECOMMIT, lib.Phase_COMMIT} {
		m := &bft.Message{}
		populate(m.ProtoReflect(), 0)
		m.Header = view(ph)
		mm := m
		kinds = append(kinds, kind{"msg.proposer.signbytes", mm, func() []byte { return mm.SignBytes() }})
	}
	for _, ph := range []lib.Phase{lib.Phase_ELECTION_VOTE, lib.Phase_PROPOSE_VOTE, lib.Phase_PRECOMMIT_VOTE} {
		m := &bft.Message{}
		populate(m.ProtoReflect(), 0)
		m.Header = nil
		m.Qc.Header = view(ph)
		mm := m
		name := "msg.replica.signbytes"
		if ph == lib.Phase_ELECTION_VOTE {
			name = "msg.replica.signbytes.election"
		}
		kinds = append(kinds, kind{name, mm, func() []byte { return mm.SignBytes() }})
	}
	{
		m := &bft.Message{}
		populate(m.ProtoReflect(), 0)
		m.Header = nil
		m.Qc.Header = view(lib.Phase_ROUND_INTERRUPT)
		mm := m
		kinds = append(kinds, kind{"msg.pacemaker.signbytes", mm, func() []byte { return mm.SignBytes() }})
	}
	{
		r := &lib.CertificateResult{}
		populate(r.ProtoReflect(), 0)
		kinds = append(kinds, kind{"results.hash", r, func() []byte { return r.Hash() }})
		h := &lib.BlockHeader{}
		populate(h.ProtoReflect(), 0)
		kinds = append(kinds, kind{"header.hash", h, func() []byte { c := proto.Clone(h).(*lib.BlockHeader); b, _ := c.SetHash(); return b }})
		pm := &lib.PeerMeta{}
		populate(pm.ProtoReflect(), 0)
		kinds = append(kinds, kind{"peermeta.signbytes", pm, func() []byte { return pm.SignBytes() }})
	}
	for _, k := range kinds {
		base := bytes.Clone(k.digest())
		var muts []mutation
		mutations(k.msg.ProtoReflect(), nil, 0, &muts, func() {})
		for _, mu := range muts {
			mu.apply()
			d := k.digest()
			mu.undo()
			_ = enc.Encode(Line{E: "field", Kind: k.name, Path: mu.path, Variant: mu.variant, Equal: bytes.Equal(base, d)})
		}
		if !bytes.Equal(base, k.digest()) {
			fmt.Fprintln(os.Stderr, "signx: undo does not restore", k.name)
			os.Exit(2)
		}
	}
}

// ---- keys mode -----------------------------------------------------------------------------------------------------

type built struct {
	builder string
	comps   [][]byte
	key     []byte
}

func segs(b built) [][]byte { return append([][]byte{[]byte(b.builder)}, b.comps...) }

func u64(x uint64) []byte { b := make([]byte, 8); binary.BigEndian.PutUint64(b, x); return b }

func keysMode(seed int64, n int, enc *json.Encoder) {
	rng := rand.New(rand.NewSource(seed))
	comp := func() []byte {
		l := []int{0, 1, 2, 19, 20, 21, 32, 254, 255}[rng.Intn(9)]
		if rng.Intn(3) == 0 {
			l = rng.Intn(256)
		}
		b := make([]byte, l)
		switch rng.Intn(4) {
		case 0:
			for i := range b {
				b[i] = 0xff
			}
		case 1: // embedded length bytes: looks like further segments
			for i := range b {
				b[i] = byte([]int{0, 1, 2, 8, 20}[rng.Intn(5)])
			}
		case 2:
			for i := range b {
				b[i] = 0
			}
		default:
			rng.Read(b)
		}
		return b
	}
	num := func() uint64 {
		return []uint64{0, 1, 2, 255, 256, 65535, 1 << 32, 1<<64 - 1, uint64(rng.Intn(5))}[rng.Intn(9)]
	}
	builders := []func() built{
		func() built {
			a := comp()
			return built{"account", [][]byte{a}, fsm.KeyForAccount(crypto.NewAddress(a))}
		},
		func() built {
			a := comp()
			return built{"validator", [][]byte{a}, fsm.KeyForValidator(crypto.NewAddress(a))}
		},
		func() built { a := comp(); return built{"nonSigner", [][]byte{a}, fsm.KeyForNonSigner(a)} },
		func() built { c := num(); return built{"pool", [][]byte{u64(c)}, fsm.KeyForPool(c)} },
		func() built { c, a := num(), comp(); return built{"order", [][]byte{u64(c), a}, fsm.KeyForOrder(c, a)} },
		func() built {
			h, a := num(), comp()
			return built{"unstaking", [][]byte{u64(h), a}, fsm.KeyForUnstaking(h, crypto.NewAddress(a))}
		},
		func() built {
			h, a := num(), comp()
			return built{"paused", [][]byte{u64(h), a}, fsm.KeyForPaused(h, crypto.NewAddress(a))}
		},
		func() built {
			c, a, s := num(), comp(), num()
			return built{"committee", [][]byte{u64(c), u64(s), a}, fsm.KeyForCommittee(c, crypto.NewAddress(a), s)}
		},
		func() built {
			c, a, s := num(), comp(), num()
			return built{"delegate", [][]byte{u64(c), u64(s), a}, fsm.KeyForDelegate(c, crypto.NewAddress(a), s)}
		},
		func() built { c := num(); return built{"retired", [][]byte{u64(c)}, fsm.KeyForRetiredCommittee(c)} },
		func() built { c := num(); return built{"lockedBatch", [][]byte{u64(c)}, fsm.KeyForLockedBatch(c)} },
		func() built { c := num(); return built{"nextBatch", [][]byte{u64(c)}, fsm.KeyForNextBatch(c)} },
		func() built { // the generic codec with 1..4 arbitrary components
			k := 1 + rng.Intn(4)
			var cs [][]byte
			for i := 0; i < k; i++ {
				cs = append(cs, comp())
			}
			return built{"", cs, lib.JoinLenPrefix(cs...)}
		},
	}
	var all []built
	for i := 0; i < n; i++ {
		all = append(all, builders[rng.Intn(len(builders))]())
	}
	// close pairs on purpose: extensions and truncations of generic tuples
	for i := 0; i < n/4; i++ {
		b := all[rng.Intn(len(all))]
		if b.builder != "" {
			continue
		}
		ext := append(append([][]byte{}, b.comps...), comp())
		all = append(all, built{"", ext, lib.JoinLenPrefix(ext...)})
		if len(b.comps) > 1 {
			cut := b.comps[:len(b.comps)-1]
			all = append(all, built{"", cut, lib.JoinLenPrefix(cut...)})
		}
		// a single component that spells two segments
		if len(b.comps) >= 2 && len(b.comps[0])+len(b.comps[1])+1 < 256 {
			joined := append(append(append([]byte{}, b.comps[0]...), byte(len(b.comps[1]))), b.comps[1]...)
			cs := append([][]byte{joined}, b.comps[2:]...)
			all = append(all, built{"", cs, lib.JoinLenPrefix(cs...)})
		}
	}
	tupleEq := func(a, b [][]byte) bool {
		if len(a) != len(b) {
			return false
		}
		for i := range a {
			if !bytes.Equal(a[i], b[i]) {
				return false
			}
		}
		return true
	}
	// the segment tuple as the encoder sees it: builder prefix byte(s) + components; generic tuples have no builder segment
	tuple := func(b built) [][]byte {
		if b.builder == "" {
			return b.comps
		}
		return segs(b)
	}
	same := func(a, b built) bool { return (a.builder == "") == (b.builder == "") }
	pairs := 0
	for i := range all {
		for j := range all {
			if i == j || !same(all[i], all[j]) {
				continue
			}
			a, b := all[i], all[j]
			keq, kpre := bytes.Equal(a.key, b.key), bytes.HasPrefix(b.key, a.key)
			ta, tb := tuple(a), tuple(b)
			seq := tupleEq(ta, tb)
			spre := len(ta) <= len(tb) && tupleEq(ta, tb[:len(ta)])
			// only interesting pairs are logged: any relation at key or tuple level
			if keq || kpre || seq || spre || rng.Intn(400) == 0 {
				pairs++
				_ = enc.Encode(Line{E: "pair", Kind: a.builder + "|" + b.builder, KeyEq: keq, KeyPrefix: kpre, SegEq: seq, SegPrefix: spre, Path: []string{}})
			}
		}
	}
	// prefix ranges of the state machine
	type rangeFn struct {
		name    string
		prefix  func(c uint64) []byte
		builder string
		keyed   bool // the group is per chain / height
	}
	ranges := []rangeFn{
		{"account", func(uint64) []byte { return fsm.AccountPrefix() }, "account", false},
		{"validator", func(uint64) []byte { return fsm.ValidatorPrefix() }, "validator", false},
		{"pool", func(uint64) []byte { return fsm.PoolPrefix() }, "pool", false},
		{"nonSigner", func(uint64) []byte { return fsm.NonSignerPrefix() }, "nonSigner", false},
		{"committee", fsm.CommitteePrefix, "committee", true},
		{"delegate", fsm.DelegatePrefix, "delegate", true},
		{"unstaking", fsm.UnstakingPrefix, "unstaking", true},
		{"paused", fsm.PausedPrefix, "paused", true},
		{"order", fsm.OrderBookPrefix, "order", true},
	}
	// the same question put to the REAL store: every built key is written, and each family's prefix is scanned in both
	// directions, before and after the commit (pending writes are merged by the transaction iterator, committed ones come from
	// the versioned store): a key is listed iff it belongs to the family
	if db, err := store.NewStoreInMemory(lib.NewNullLogger()); err == nil {
		st := db.(*store.Store)
		for _, b := range all {
			if b.builder != "" {
				_ = st.Set(b.key, []byte{1})
			}
		}
		scan := func(p []byte, rev bool) map[string]bool {
			got := map[string]bool{}
			var it lib.IteratorI
			var e lib.ErrorI
			if rev {
				it, e = st.RevIterator(p)
			} else {
				it, e = st.Iterator(p)
			}
			if e != nil {
				return got
			}
			defer it.Close()
			for ; it.Valid(); it.Next() {
				got[string(it.Key())] = true
			}
			return got
		}
		for _, phase := range []string{"pending", "committed"} {
			for _, r := range ranges {
				for _, c := range []uint64{0, 1, 2, 255, 256, 65535, 1 << 32, 1<<64 - 1, 3, 4} {
					p := r.prefix(c)
					fwd, bwd := scan(p, false), scan(p, true)
					for _, b := range all {
						if b.builder == "" {
							continue
						}
						belongs := b.builder == r.builder && (!r.keyed || bytes.Equal(b.comps[0], u64(c)))
						for dir, got := range map[string]map[string]bool{"forward": fwd, "reverse": bwd} {
							if in := got[string(b.key)]; in || belongs {
								_ = enc.Encode(Line{E: "range", Kind: r.name + "/store-" + phase + "-" + dir, InRange: in, Belongs: belongs, Path: []string{}})
							}
						}
					}
					if !r.keyed {
						break
					}
				}
			}
			if phase == "pending" {
				if _, e := st.Commit(); e != nil {
					break
				}
			}
		}
		st.Close()
	}
	for _, r := range ranges {
		for _, c := range []uint64{0, 1, 2, 255, 256, 65535, 1 << 32, 1<<64 - 1, 3, 4} {
			p := r.prefix(c)
			for _, b := range all {
				if b.builder == "" {
					continue
				}
				in := bytes.HasPrefix(b.key, p)
				belongs := b.builder == r.builder && (!r.keyed || bytes.Equal(b.comps[0], u64(c)))
				if in || belongs {
					_ = enc.Encode(Line{E: "range", Kind: r.name, InRange: in, Belongs: belongs, Path: []string{}})
				}
			}
			if !r.keyed {
				break
			}
		}
	}
}

// ---- decode mode ---------------------------------------------------------------------------------------------------

type target struct {
	name     string
	critical bool // unknown fields must be refused
	sample   func() []byte
	decode   func([]byte) error
}

func errOf(e lib.ErrorI) error {
	if e == nil {
		return nil
	}
	return e
}

// insertUnknown returns one variant of b per nesting position of known message fields: an unknown field appended inside
func insertUnknown(b []byte, md protoreflect.MessageDescriptor, depth int) [][]byte {
	unk := protowire.AppendVarint(protowire.AppendTag(nil, 1999, protowire.VarintType), 7)
	out := [][]byte{append(bytes.Clone(b), unk...)}
	if depth > 4 {
		return out
	}
	off := 0
	for off < len(b) {
		num, typ, n := protowire.ConsumeTag(b[off:])
		if n < 0 {
			return out
		}
		start := off
		off += n
		switch typ {
		case protowire.VarintType:
			_, m := protowire.ConsumeVarint(b[off:])
			if m < 0 {
				return out
			}
			off += m
		case protowire.Fixed32Type:
			off += 4
		case protowire.Fixed64Type:
			off += 8
		case protowire.BytesType:
			v, m := protowire.ConsumeBytes(b[off:])
			if m < 0 {
				return out
			}
			fd := md.Fields().ByNumber(num)
			if fd != nil && fd.Kind() == protoreflect.MessageKind && fd.Message().FullName() != "google.protobuf.Any" {
				for _, inner := range insertUnknown(v, fd.Message(), depth+1) {
					nb := append([]byte{}, b[:start]...)
					nb = protowire.AppendTag(nb, num, protowire.BytesType)
					nb = protowire.AppendBytes(nb, inner)
					nb = append(nb, b[off+m:]...)
					out = append(out, nb)
				}
			}
			off += m
		default:
			return out
		}
	}
	return out
}

func decodeMode(seed int64, n int, enc *json.Encoder) {
	rng := rand.New(rand.NewSource(seed))
	mk := func(m proto.Message) []byte { populate(m.ProtoReflect(), 0); b, _ := lib.Marshal(m); return b }
	targets := []struct {
		target
		md protoreflect.MessageDescriptor
	}{
		{target{"block", true, func() []byte { return mk(&lib.Block{}) }, func(b []byte) error { x := new(lib.Block); return errOf(lib.Unmarshal(b, x)) }}, (&lib.Block{}).ProtoReflect().Descriptor()},
		{target{"transaction", true, func() []byte { return mk(&lib.Transaction{}) }, func(b []byte) error {
			x := new(lib.Transaction)
			if e := lib.Unmarshal(b, x); e != nil {
				return e
			}
			_ = x.CheckBasic()
			return nil
		}}, (&lib.Transaction{}).ProtoReflect().Descriptor()},
		{target{"certificate", true, func() []byte { return mk(&lib.QuorumCertificate{}) }, func(b []byte) error {
			x := new(lib.QuorumCertificate)
			if e := lib.Unmarshal(b, x); e != nil {
				return e
			}
			_ = x.CheckBasic()
			_ = x.SignBytes()
			return nil
		}}, (&lib.QuorumCertificate{}).ProtoReflect().Descriptor()},
		{target{"consensus-message", false, func() []byte { return mk(&bft.Message{}) }, func(b []byte) error {
			x := new(bft.Message)
			if e := lib.Unmarshal(b, x); e != nil {
				return e
			}
			_ = x.SignBytes()
			_ = x.IsProposerMessage()
			_ = x.IsReplicaMessage()
			return nil
		}}, (&bft.Message{}).ProtoReflect().Descriptor()},
		{target{"block-message", false, func() []byte { return mk(&lib.BlockMessage{}) }, func(b []byte) error { x := new(lib.BlockMessage); return errOf(lib.Unmarshal(b, x)) }}, (&lib.BlockMessage{}).ProtoReflect().Descriptor()},
		{target{"peer-envelope", false, func() []byte {
			a, _ := lib.NewAny(&p2p.Packet{StreamId: lib.Topic_TX, Eof: true, Bytes: []byte("hello")})
			b, _ := lib.Marshal(&p2p.Envelope{Payload: a})
			return b
		}, func(b []byte) error {
			x := new(p2p.Envelope)
			if e := lib.Unmarshal(b, x); e != nil {
				return e
			}
			_, e := lib.FromAny(x.Payload)
			return errOf(e)
		}}, (&p2p.Envelope{}).ProtoReflect().Descriptor()},
		{target{"double-sign-evidence", false, func() []byte { return mk(&bft.DoubleSignEvidence{}) }, func(b []byte) error {
			x := new(bft.DoubleSignEvidence)
			if e := lib.Unmarshal(b, x); e != nil {
				return e
			}
			_ = x.CheckBasic()
			return nil
		}}, (&bft.DoubleSignEvidence{}).ProtoReflect().Descriptor()},
	}
	run := func(t target, variant string, b []byte) {
		l := Line{E: "decode", Kind: t.name, Variant: variant, Path: []string{}, Critical: t.critical, Unknown: strings.HasPrefix(variant, "unknown-field")}
		done := make(chan struct{})
		go func() {
			defer close(done)
			defer func() {
				if r := recover(); r != nil {
					l.Panic = true
					l.Msg = fmt.Sprint(r)
				}
			}()
			l.Accepted = t.decode(b) == nil
		}()
		select {
		case <-done:
		case <-time.After(5 * time.Second):
			l.Slow = true
		}
		// only noteworthy lines are logged one by one; the rest is summarised
		if l.Panic || l.Slow || (strings.HasPrefix(variant, "unknown-field") && (t.critical || !l.Accepted)) || variant == "sample" {
			_ = enc.Encode(l)
		}
	}
	for _, tt := range targets {
		t := tt.target
		s := t.sample()
		run(t, "sample", s)
		for i, v := range insertUnknown(s, tt.md, 0) {
			run(t, "unknown-field@"+strconv.Itoa(i), v)
		}
		count := 0
		for i := 0; i < n; i++ {
			b := bytes.Clone(s)
			switch rng.Intn(6) {
			case 0:
				b = b[:rng.Intn(len(b)+1)]
			case 1:
				for k := 0; k < 1+rng.Intn(4); k++ {
					b[rng.Intn(len(b))] = byte(rng.Intn(256))
				}
			case 2: // a huge length prefix somewhere
				p := rng.Intn(len(b))
				b = append(append(bytes.Clone(b[:p]), 0xff, 0xff, 0xff, 0xff, 0x0f), b[p:]...)
			case 3: // deep nesting: field 1 length-delimited repeated
				depth := 50 + rng.Intn(3000)
				inner := []byte{}
				for d := 0; d < depth; d++ {
					inner = protowire.AppendBytes(protowire.AppendTag(nil, protowire.Number(1+rng.Intn(6)), protowire.BytesType), inner)
					if len(inner) > 1<<20 {
						break
					}
				}
				b = inner
			case 4:
				b = make([]byte, rng.Intn(64))
				rng.Read(b)
			case 5: // a list field repeated many times
				p := bytes.Clone(s)
				for len(b) < 200000 {
					b = append(b, p...)
				}
			}
			run(t, "mutation", b)
			count++
		}
		_ = enc.Encode(Line{E: "decode", Kind: t.name, Variant: "summary", Accepted: true, Msg: strconv.Itoa(count) + " mutated inputs", Path: []string{}})
	}
}

func main() {
	if len(os.Args) < 4 {
		fmt.Fprintln(os.Stderr, "usage: signx fields <seed> <out> | keys <seed> <n> <out> | decode <seed> <n> <out>")
		os.Exit(2)
	}
	seed, _ := strconv.ParseInt(os.Args[2], 10, 64)
	f, err := os.Create(os.Args[len(os.Args)-1])
	if err != nil {
		fmt.Fprintln(os.Stderr, err)
		os.Exit(2)
	}
	defer f.Close()
	w := bufio.NewWriterSize(f, 1<<20)
	defer w.Flush()
	enc := json.NewEncoder(w)
	switch os.Args[1] {
	case "fields":
		fieldsMode(enc)
	case "keys":
		n, _ := strconv.Atoi(os.Args[3])
		keysMode(seed, n, enc)
	case "decode":
		n, _ := strconv.Atoi(os.Args[3])
		decodeMode(seed, n, enc)
	}
}
