// smtx drives the real sparse merkle tree (store/smt.go) and the real Store for specs/Smt.tla (C08, C16).
//
//	smtx tree  <K> <seed> <batches> <out.ndjson>   random batch histories on a real K-bit tree (sequential + parallel commit)
//	smtx proof <K> <seed> <states> <out.ndjson>    proofs for true statements + adversarial proofs for false ones
//	smtx store <seed> <histories> <out.ndjson>     real Store: histories/batchings vs the independent reference root; read-only proofs
//
// Every line carries the abstract state, what the real code answered and what is needed for TLC to decide.
package main

import (
	"bufio"
	"bytes"
	"context"
	"crypto/sha256"
	"encoding/hex"
	"encoding/json"
	"fmt"
	"math/rand"
	"os"
	"sort"
	"strconv"

	"github.com/canopy-network/canopy/lib"
	"github.com/canopy-network/canopy/store"
)

// ---- independent reference: canonical compressed trie over bit strings, node-key encoding, hashing ----------

type rnode struct {
	bits        []byte // key as bits
	leaf        bool
	val         []byte // leaf: value hash; inner: H(lkey,lval,rkey,rval)
	left, right *rnode
}

func bitsOf(b []byte, n int) []byte {
	out := make([]byte, n)
	for i := 0; i < n; i++ {
		out[i] = (b[i/8] >> (7 - uint(i%8))) & 1
	}
	return out
}

// encodeKey is the tree's node-key encoding written from its documentation: data bytes (last one right aligned)
// followed by one byte = number of leading zero bits of the last data byte that belong to the key
func encodeKey(bits []byte) []byte {
	n := len(bits)
	if n == 0 {
		return nil
	}
	nb := (n + 7) / 8
	out := make([]byte, nb+1)
	for i := 0; i < nb-1; i++ {
		for j := 0; j < 8; j++ {
			out[i] = out[i]<<1 | bits[i*8+j]
		}
	}
	lastBits := n - (nb-1)*8
	var v byte
	for j := 0; j < lastBits; j++ {
		v = v<<1 | bits[(nb-1)*8+j]
	}
	out[nb-1] = v
	pad := 0
	for j := 0; j < lastBits && bits[(nb-1)*8+j] == 0; j++ {
		pad++
	}
	if v == 0 {
		pad = lastBits - 1
	}
	out[nb] = byte(pad)
	return out
}

type leafKV struct {
	bits []byte
	val  []byte
}

func canon(leaves []leafKV, depth int) *rnode {
	if len(leaves) == 1 {
		return &rnode{bits: leaves[0].bits, leaf: true, val: leaves[0].val}
	}
	// common prefix length
	n := depth
	for {
		same := true
		for _, l := range leaves {
			if l.bits[n] != leaves[0].bits[n] {
				same = false
				break
			}
		}
		if !same {
			break
		}
		n++
	}
	var l0, l1 []leafKV
	for _, l := range leaves {
		if l.bits[n] == 0 {
			l0 = append(l0, l)
		} else {
			l1 = append(l1, l)
		}
	}
	nd := &rnode{bits: leaves[0].bits[:n], left: canon(l0, n+1), right: canon(l1, n+1)}
	h := sha256.New()
	h.Write(keyBytes(nd.left))
	h.Write(nd.left.val)
	h.Write(keyBytes(nd.right))
	h.Write(nd.right.val)
	nd.val = h.Sum(nil)
	return nd
}

func keyBytes(n *rnode) []byte { return encodeKey(n.bits) }

// refTree builds the canonical tree of a state (user leaves + the two sentinels) for K-bit keys
func refTree(K int, state map[string][]byte) *rnode {
	leaves := []leafKV{{bits: bytes.Repeat([]byte{0}, K), val: bytes.Repeat([]byte{0}, 20)}, {bits: bytes.Repeat([]byte{1}, K), val: bytes.Repeat([]byte{255}, 20)}}
	for k, v := range state {
		kh := sha256.Sum256([]byte(k))
		vh := sha256.Sum256(v)
		leaves = append(leaves, leafKV{bits: bitsOf(kh[:], K), val: vh[:]})
	}
	sort.Slice(leaves, func(i, j int) bool { return bytes.Compare(leaves[i].bits, leaves[j].bits) < 0 })
	return canon(leaves, 0)
}

// ---- JSON trees for TLC -------------------------------------------------------------------------------

type JTree struct {
	T string `json:"t"`
	K []int  `json:"k"`
	V string `json:"v"`
	L *JTree `json:"l,omitempty"`
	R *JTree `json:"r,omitempty"`
}

func ints(b []byte) []int {
	out := make([]int, len(b))
	for i, x := range b {
		out[i] = int(x)
	}
	return out
}

type universe struct {
	K       int
	keyOf   map[string]string // bit pattern -> real key bytes
	valTag  map[string]string // hex(value hash) -> tag
	valOf   map[string][]byte // tag -> value bytes
	borders map[string]bool
}

func pattern(bits []byte) string {
	s := make([]byte, len(bits))
	for i, b := range bits {
		s[i] = '0' + b
	}
	return string(s)
}

func newUniverse(K int) *universe {
	u := &universe{K: K, keyOf: map[string]string{}, valTag: map[string]string{}, valOf: map[string][]byte{}, borders: map[string]bool{}}
	need := 1 << uint(K)
	for i := 0; len(u.keyOf) < need; i++ {
		k := fmt.Sprintf("key-%d", i)
		h := sha256.Sum256([]byte(k))
		p := pattern(bitsOf(h[:], K))
		if _, ok := u.keyOf[p]; !ok {
			u.keyOf[p] = k
		}
	}
	for _, tag := range []string{"a", "b"} {
		v := []byte("value-" + tag)
		u.valOf[tag] = v
		h := sha256.Sum256(v)
		u.valTag[hex.EncodeToString(h[:])] = tag
	}
	u.valTag[hex.EncodeToString(bytes.Repeat([]byte{0}, 20))] = "min"
	u.valTag[hex.EncodeToString(bytes.Repeat([]byte{255}, 20))] = "max"
	u.valTag[hex.EncodeToString([]byte{0})] = "border"
	return u
}

func (u *universe) userPatterns(excludeBorders bool) []string {
	var out []string
	for p := range u.keyOf {
		all0, all1 := true, true
		for _, c := range p {
			if c != '0' {
				all0 = false
			}
			if c != '1' {
				all1 = false
			}
		}
		rootPat := p[0] == '0'
		for _, c := range p[1:] {
			if c != '1' {
				rootPat = false
			}
		}
		if all0 || all1 || rootPat { // the sentinels and the truncation of RootKey (0x7FFF...) are reserved
			continue
		}
		if excludeBorders && u.K >= 5 {
			t0, t1 := true, true
			for _, c := range p[3:] {
				if c != '0' {
					t0 = false
				}
				if c != '1' {
					t1 = false
				}
			}
			if t0 || t1 {
				continue
			}
		}
		out = append(out, p)
	}
	sort.Strings(out)
	return out
}

func (u *universe) jref(n *rnode) *JTree {
	if n.leaf {
		return &JTree{T: "L", K: ints(n.bits), V: u.valTag[hex.EncodeToString(n.val)]}
	}
	return &JTree{T: "N", K: ints(n.bits), L: u.jref(n.left), R: u.jref(n.right)}
}

// decodeKey: node key bytes (store encoding) -> bits, using the REAL tree's own proofs of length: we only need it to
// report structure, so decode by the documented format
func decodeKey(k []byte) []byte {
	if len(k) < 2 {
		return nil
	}
	nb := len(k) - 1
	pad := int(k[nb])
	last := k[nb-1]
	var lastBits int
	if last == 0 {
		lastBits = pad + 1
	} else {
		bl := 0
		for x := last; x != 0; x >>= 1 {
			bl++
		}
		lastBits = pad + bl
	}
	out := bitsOf(k[:nb-1], (nb-1)*8)
	for j := lastBits - 1; j >= 0; j-- {
		out = append(out, (last>>uint(j))&1)
	}
	return out
}

// realTree converts the node dump of the real tree into a JSON tree and checks every inner hash with SHA-256
func (u *universe) realTree(nodes []store.VerifNode, rootKey []byte) (*JTree, bool, int) {
	byKey := map[string]store.VerifNode{}
	for _, n := range nodes {
		byKey[string(n.Key)] = n
	}
	hashOK := true
	count := 0
	var build func(k []byte, isRoot bool) *JTree
	build = func(k []byte, isRoot bool) *JTree {
		n, ok := byKey[string(k)]
		if !ok {
			hashOK = false
			return &JTree{T: "?", K: []int{}}
		}
		count++
		kb := ints(decodeKey(k))
		if isRoot {
			kb = []int{}
		}
		if n.Left == nil && n.Right == nil {
			tag, ok := u.valTag[hex.EncodeToString(n.Value)]
			if !ok {
				tag = "?" + hex.EncodeToString(n.Value)[:8]
			}
			return &JTree{T: "L", K: kb, V: tag}
		}
		l, r := byKey[string(n.Left)], byKey[string(n.Right)]
		h := sha256.New()
		h.Write(n.Left)
		h.Write(l.Value)
		h.Write(n.Right)
		h.Write(r.Value)
		if !bytes.Equal(h.Sum(nil), n.Value) {
			hashOK = false
		}
		return &JTree{T: "N", K: kb, L: build(n.Left, false), R: build(n.Right, false)}
	}
	t := build(rootKey, true)
	return t, hashOK, count
}

// KV is a (key bits, value tag) pair; "" = delete / absent
type KV struct {
	K []int  `json:"k"`
	V string `json:"v"`
}

func patBits(p string) []int {
	out := make([]int, len(p))
	for i, c := range p {
		out[i] = int(c - '0')
	}
	return out
}

func kvList(m map[string]string) []KV {
	keys := make([]string, 0, len(m))
	for k := range m {
		keys = append(keys, k)
	}
	sort.Strings(keys)
	out := make([]KV, 0, len(m))
	for _, k := range keys {
		out = append(out, KV{K: patBits(k), V: m[k]})
	}
	return out
}

// ---- tree mode ---------------------------------------------------------------------------------------------

type TreeLine struct {
	Kind   string `json:"kind"` // "start" | "batch"
	K      int    `json:"K"`
	Ops    []KV   `json:"ops"` // key bits -> tag | "" (delete)
	Par    bool   `json:"par"`
	Real   *JTree `json:"real"`
	Ref    *JTree `json:"ref"`
	HashOK bool   `json:"hashOK"`
	RootEq bool   `json:"rootEq"` // real root == reference root (bytes)
	Err    string `json:"err"`
}

func treeMode(K int, seed int64, batches int, out *json.Encoder) error {
	rng := rand.New(rand.NewSource(seed))
	u := newUniverse(K)
	pats := u.userPatterns(K >= 5)
	var smt *store.SMT
	state := map[string][]byte{}
	restart := func() error {
		var e lib.ErrorI
		if smt, e = store.VerifNewSMT(K); e != nil {
			return e
		}
		state = map[string][]byte{}
		return out.Encode(TreeLine{Kind: "start", K: K, Ops: []KV{}, Real: &JTree{T: "L", K: []int{}}, Ref: &JTree{T: "L", K: []int{}}})
	}
	if err := restart(); err != nil {
		return err
	}
	for i := 0; i < batches; i++ {
		if i > 0 && i%50 == 0 {
			if err := restart(); err != nil {
				return err
			}
		}
		// batch size: small, or >= 16 to take the parallel path
		n := 1 + rng.Intn(3)
		par := false
		if K >= 5 && rng.Intn(2) == 0 {
			n = 16 + rng.Intn(len(pats)-16+1)
			par = true
		} else if rng.Intn(4) == 0 {
			n = 1 + rng.Intn(len(pats))
		}
		if n > len(pats) {
			n = len(pats)
		}
		perm := rng.Perm(len(pats))[:n]
		ops := map[string]string{}
		var vops []store.VerifOp
		for _, pi := range perm {
			p := pats[pi]
			key := []byte(u.keyOf[p])
			switch rng.Intn(3) {
			case 0:
				ops[p] = ""
				vops = append(vops, store.VerifOp{Key: key, Delete: true})
				delete(state, string(key))
			case 1:
				ops[p] = "a"
				vops = append(vops, store.VerifOp{Key: key, Value: u.valOf["a"]})
				state[string(key)] = u.valOf["a"]
			default:
				ops[p] = "b"
				vops = append(vops, store.VerifOp{Key: key, Value: u.valOf["b"]})
				state[string(key)] = u.valOf["b"]
			}
		}
		usePar := par || (K >= 5 && rng.Intn(2) == 0)
		if os.Getenv("SMTX_NOPAR") != "" {
			usePar = false
		}
		line := TreeLine{Kind: "batch", K: K, Ops: kvList(ops), Par: usePar && len(vops) >= 16, Real: &JTree{T: "L", K: []int{}}, Ref: &JTree{T: "L", K: []int{}}}
		if e := smt.VerifCommit(vops, usePar); e != nil {
			line.Err = e.Error()
			_ = out.Encode(line)
			continue
		}
		nodes, e := smt.VerifNodes()
		if e != nil {
			line.Err = e.Error()
			_ = out.Encode(line)
			continue
		}
		ref := refTree(K, state)
		var cnt int
		line.Real, line.HashOK, cnt = u.realTree(nodes, nodes[0].Key)
		line.Ref = u.jref(ref)
		line.RootEq = bytes.Equal(smt.Root(), ref.val)
		_ = cnt
		if err := out.Encode(line); err != nil {
			return err
		}
	}
	return nil
}

// ---- proof mode --------------------------------------------------------------------------------------------

type JProofNode struct {
	K    []int  `json:"k"`
	V    string `json:"v"` // value tag for leaves, "h:<hex8>" for hashes
	Side int    `json:"side"`
}

type ProofLine struct {
	Kind     string `json:"kind"` // "proof"
	K        int    `json:"K"`
	State    []KV   `json:"state"` // key bits -> tag (present keys only)
	Key      []int  `json:"key"`   // bits of the key the statement is about
	Val      string `json:"val"`   // claimed value tag ("" for non-membership)
	Member   bool   `json:"member"`
	Honest   bool   `json:"honest"` // proof generated by the tree for exactly this statement
	Origin   string `json:"origin"` // how the proof was made
	Accepted bool   `json:"accepted"`
	Panicked bool   `json:"panicked"`
	Err      string `json:"err"`
	ProofLen int    `json:"proofLen"`
}

func verify(smt *store.SMT, k, v []byte, member bool, root []byte, proof []*lib.Node) (ok bool, panicked bool, errs string) {
	defer func() {
		if r := recover(); r != nil {
			panicked, errs = true, fmt.Sprint(r)
		}
	}()
	cp := make([]*lib.Node, len(proof))
	for i, p := range proof {
		cp[i] = &lib.Node{Key: append([]byte{}, p.Key...), Value: append([]byte{}, p.Value...), Bitmask: p.Bitmask}
	}
	ok, e := smt.VerifyProof(k, v, member, root, cp)
	if e != nil {
		errs = e.Error()
	}
	return
}

func proofMode(K int, seed int64, states int, out *json.Encoder) error {
	rng := rand.New(rand.NewSource(seed))
	u := newUniverse(K)
	pats := u.userPatterns(false)
	for s := 0; s < states; s++ {
		smt, e := store.VerifNewSMT(K)
		if e != nil {
			return e
		}
		st := map[string]string{}
		var vops []store.VerifOp
		// K=3: enumerate states by index when asked for all of them
		for i, p := range pats {
			var c int
			if K == 3 && states >= 243 {
				c = (s / pow3(i)) % 3
			} else {
				c = rng.Intn(3)
			}
			if c == 1 {
				st[p] = "a"
			} else if c == 2 {
				st[p] = "b"
			}
			if c != 0 {
				vops = append(vops, store.VerifOp{Key: []byte(u.keyOf[p]), Value: u.valOf[st[p]]})
			}
		}
		if len(vops) > 0 {
			if e = smt.VerifCommit(vops, false); e != nil {
				return e
			}
		}
		root := smt.Root()
		// every node key of the tree (all lengths): material for proofs whose keys are well formed but of the wrong length
		var treeKeys [][]byte
		if nodes, e := smt.VerifNodes(); e == nil {
			for _, nd := range nodes {
				treeKeys = append(treeKeys, append([]byte{}, nd.Key...))
			}
		}
		honest := map[string][]*lib.Node{}
		for _, p := range pats {
			pf, e := smt.GetMerkleProof([]byte(u.keyOf[p]))
			if e != nil {
				_ = out.Encode(ProofLine{Kind: "proof", K: K, State: kvList(st), Key: patBits(p), Honest: true, Origin: "GetMerkleProof", Err: e.Error(), Val: st[p], Member: st[p] != ""})
				continue
			}
			honest[p] = pf
			// completeness: the true statement about p
			ok, pan, es := verify(smt, []byte(u.keyOf[p]), u.valOf[st[p]], st[p] != "", root, pf)
			_ = out.Encode(ProofLine{Kind: "proof", K: K, State: kvList(st), Key: patBits(p), Val: st[p], Member: st[p] != "", Honest: true, Origin: "honest", Accepted: ok, Panicked: pan, Err: es, ProofLen: len(pf)})
		}
		// soundness: every honest proof (and mutations) offered for every key and every claim
		emit := func(pf []*lib.Node, origin string) {
			for _, q := range pats {
				for _, claim := range []string{"", "a", "b"} {
					ok, pan, es := verify(smt, []byte(u.keyOf[q]), u.valOf[claim], claim != "", root, pf)
					_ = out.Encode(ProofLine{Kind: "proof", K: K, State: kvList(st), Key: patBits(q), Val: claim, Member: claim != "", Origin: origin, Accepted: ok, Panicked: pan, Err: es, ProofLen: len(pf)})
				}
			}
		}
		for _, p := range pats {
			pf := honest[p]
			if pf == nil {
				continue
			}
			emit(pf, "honest-for-"+p)
			if K > 3 && rng.Intn(4) != 0 {
				continue // mutation families on a sample of the proofs for the larger trees
			}
			for n := 2; n < len(pf); n++ {
				emit(pf[:n], fmt.Sprintf("truncated-%d-of-%s", n, p))
			}
			for i := 1; i < len(pf); i++ {
				m := cloneProof(pf)
				m[i].Bitmask = 1 - m[i].Bitmask
				emit(m, fmt.Sprintf("sideflip-%d-of-%s", i, p))
			}
			for _, tag := range []string{"a", "b"} {
				m := cloneProof(pf)
				h := sha256.Sum256(u.valOf[tag])
				m[0].Value = h[:]
				emit(m, "valuesubst-"+tag+"-of-"+p)
			}
			if len(pf) > 2 {
				m := cloneProof(pf)
				m[1], m[2] = m[2], m[1]
				emit(m, "reorder-of-"+p)
			}
			// a well-formed key of another length in place of a proof node's key (a sibling that is a prefix of the path, ...)
			for i := 0; i < len(pf); i++ {
				for j, tk := range treeKeys {
					if string(tk) == string(pf[i].Key) || (K > 3 && rng.Intn(16) != 0) || (K == 3 && ((states < 100 && s%3 != 0) || (states >= 100 && s%9 != 0))) {
						continue
					}
					m := cloneProof(pf)
					m[i].Key = append([]byte{}, tk...)
					emit(m, fmt.Sprintf("keyswap-%d-%d-of-%s", i, j, p))
				}
			}
			// structurally malformed: empty keys, huge padding byte, nil values
			m := cloneProof(pf)
			m[0].Key = []byte{}
			emit(m, "emptykey-of-"+p)
			m = cloneProof(pf)
			m[len(m)-1].Key = []byte{0xFF, 0xFF, 0xFF, 200}
			emit(m, "badpad-of-"+p)
			m = cloneProof(pf)
			m[0].Key = nil
			m[0].Value = nil
			emit(m, "nil-of-"+p)
		}
	}
	return nil
}

func pow3(i int) int {
	r := 1
	for ; i > 0; i-- {
		r *= 3
	}
	return r
}

func cloneProof(pf []*lib.Node) []*lib.Node {
	out := make([]*lib.Node, len(pf))
	for i, p := range pf {
		out[i] = &lib.Node{Key: append([]byte{}, p.Key...), Value: append([]byte{}, p.Value...), Bitmask: p.Bitmask}
	}
	return out
}

// ---- store mode --------------------------------------------------------------------------------------------

type StoreLine struct {
	Kind      string `json:"kind"` // "store"
	History   int    `json:"history"`
	Version   uint64 `json:"version"`
	Keys      int    `json:"keys"`
	Root      string `json:"root"`
	RefRoot   string `json:"refRoot"`
	RootEq    bool   `json:"rootEq"`
	SpecRoot  string `json:"specRoot"` // root after a speculative Root()+Reset() of another block, must not matter
	SameState string `json:"sameState"`
	// read-only proofs at this version
	ProofsTried    int    `json:"proofsTried"`
	ProofsAccepted int    `json:"proofsAccepted"`
	FalseTried     int    `json:"falseTried"`    // false statements about the same keys offered with the store's own proof
	FalseAccepted  int    `json:"falseAccepted"` // ... that verified
	ProofErr       string `json:"proofErr"`
	Err            string `json:"err"`
}

// keys with controlled hash prefixes: many share long prefixes and sit next to the 3-bit subtree borders
func storeKeys(rng *rand.Rand, n int) [][]byte {
	var out [][]byte
	seen := map[string]bool{}
	for i := 0; len(out) < n; i++ {
		k := lib.JoinLenPrefix([]byte{1}, []byte(fmt.Sprintf("acct/%d/%d", rng.Intn(1<<20), i))) // state keys are length-prefixed segments
		h := sha256.Sum256(k)
		// keep keys whose hash starts with one of a few byte patterns (forces shared prefixes and border adjacency)
		b := h[0]
		if b == 0x1f || b == 0x20 || b == 0x3f || b == 0x40 || b == 0xdf || b == 0xe0 || b&0xF0 == 0x50 || b == 0x7f || b == 0x7e || b == 0x60 || b == 0x80 || rng.Intn(40) == 0 {
			if !seen[string(k)] {
				seen[string(k)] = true
				out = append(out, k)
			}
		}
	}
	return out
}

func refRoot160(state map[string][]byte) []byte {
	return refTree(160, state).val
}

func storeMode(seed int64, histories int, out *json.Encoder) error {
	rng := rand.New(rand.NewSource(seed))
	for h := 0; h < histories; h++ {
		nkeys := 24 + rng.Intn(40)
		dense := h%8 == 3 // a tree deep enough for path nodes that end in a partial byte below the first key byte
		if dense {
			nkeys = 1500
		}
		keys := storeKeys(rng, nkeys)
		// a target sequence of states; reached by two different batchings on two stores
		type opT struct {
			k, v []byte
			del  bool
		}
		nblocks := 2 + rng.Intn(4)
		blocks := make([][]opT, nblocks)
		for b := range blocks {
			n := 1 + rng.Intn(len(keys))
			if rng.Intn(2) == 0 {
				n = 1 + rng.Intn(6)
			}
			if dense && b == 0 {
				n = 2 * len(keys)
			}
			for i := 0; i < n; i++ {
				k := keys[rng.Intn(len(keys))]
				if rng.Intn(4) == 0 {
					blocks[b] = append(blocks[b], opT{k: k, del: true})
				} else {
					v := []byte(fmt.Sprintf("v%d", rng.Intn(5)))
					if rng.Intn(4) == 0 { // a value that is exactly as long as a digest (and is one)
						d := sha256.Sum256(v)
						v = d[:]
					}
					blocks[b] = append(blocks[b], opT{k: k, v: v})
				}
			}
		}
		run := func(variant int) (roots []string, lines []StoreLine, err error) {
			si, e := store.NewStoreInMemory(lib.NewNullLogger())
			if e != nil {
				return nil, nil, e
			}
			st := si.(*store.Store)
			defer st.Close()
			state := map[string][]byte{}
			snaps := map[uint64]map[string][]byte{}
			failed, afterRollback := false, false
			var hot [][]byte
			doBlock := func(b int, ops []opT, last bool) {
				line := StoreLine{Kind: "store", History: h}
				apply := func(o opT) {
					if o.del {
						_ = st.Delete(o.k)
						delete(state, string(o.k))
					} else {
						_ = st.Set(o.k, o.v)
						state[string(o.k)] = o.v
					}
				}
				switch variant {
				case 0, 2: // straight
					for _, o := range ops {
						apply(o)
					}
				case 1: // insert-then-delete noise, overwrites, nested txn discard, speculative root of another block first
					for _, o := range ops {
						_ = st.Set(o.k, []byte("speculative"))
					}
					if _, e := st.Root(); e != nil {
						line.Err = e.Error()
					}
					st.Reset()
					noise := keys[rng.Intn(len(keys))]
					_, present := state[string(noise)]
					for _, o := range ops { // the noise key must not be one the block itself writes
						if bytes.Equal(o.k, noise) {
							present = true
						}
					}
					if !present {
						_ = st.Set(noise, []byte("noise"))
					}
					for i := len(ops) - 1; i >= 0; i-- { // reversed first, then in order: last writer must win
						o := ops[i]
						if o.del {
							_ = st.Delete(o.k)
						} else {
							_ = st.Set(o.k, []byte("tmp"))
						}
					}
					for _, o := range ops {
						apply(o)
					}
					if !present {
						_ = st.Delete(noise)
					}
				}
				root, e := st.Commit()
				if e != nil {
					line.Err = e.Error()
					lines = append(lines, line)
					failed = true
					return
				}
				snap := map[string][]byte{}
				for k, v := range state {
					snap[k] = v
				}
				snaps[st.Version()] = snap
				ref := refRoot160(state)
				line.Version, line.Keys = st.Version(), len(state)
				line.Root, line.RefRoot, line.RootEq = hex.EncodeToString(root), hex.EncodeToString(ref), bytes.Equal(root, ref)
				// proofs from a read-only view of the committed version, verified against the committed root
				if last || rng.Intn(2) == 0 {
					// sometimes the committed data has left the memtable by the time somebody asks for a proof (flush / compaction)
					if rng.Intn(2) == 0 {
						_ = st.DB().Flush()
						if rng.Intn(2) == 0 {
							_ = st.DB().Compact(context.Background(), []byte{0}, []byte{0xff, 0xff, 0xff, 0xff}, false)
						}
					}
					roi, e := st.NewReadOnly(st.Version())
					if e == nil {
						ro := roi.(*store.Store)
						tries := 6
						if dense {
							tries = 150
						}
						if afterRollback {
							tries = 40
						}
						for i := 0; i < tries; i++ {
							k := keys[rng.Intn(len(keys))]
							if afterRollback && len(hot) > 0 && rng.Intn(4) != 0 {
								k = hot[rng.Intn(len(hot))] // keys the abandoned blocks wrote
							}
							v, present := state[string(k)]
							line.ProofsTried++
							func() {
								defer func() {
									if r := recover(); r != nil {
										line.ProofErr = fmt.Sprint("panic: ", r)
									}
								}()
								pf, e := ro.GetProof(k)
								if e != nil {
									line.ProofErr = e.Error()
									return
								}
								ok, e := ro.VerifyProof(k, v, present, root, pf)
								if e != nil {
									line.ProofErr = e.Error()
								}
								if ok {
									line.ProofsAccepted++
								}
								// the opposite statement, and membership with another value, must not verify with that proof
								other := []byte("v9")
								for _, claim := range []struct {
									v      []byte
									member bool
								}{{v, !present}, {other, true}} {
									if claim.member && present && bytes.Equal(claim.v, v) {
										continue
									}
									if !claim.member && !present {
										continue
									}
									line.FalseTried++
									if ok2, _ := ro.VerifyProof(k, claim.v, claim.member, root, pf); ok2 {
										line.FalseAccepted++
									}
								}
							}()
						}
						ro.Discard()
					} else {
						line.ProofErr = e.Error()
					}
				}
				roots = append(roots, line.Root)
				lines = append(lines, line)
			}
			for b, ops := range blocks {
				if doBlock(b, ops, b == len(blocks)-1); failed {
					return roots, lines, nil
				}
			}
			if variant == 2 && st.Version() > 1 {
				// the operator rolls the store back (offline maintenance) and the chain continues differently: what is committed
				// afterwards must again be the root of the key/value state, provable from read-only views
				target := 1 + uint64(rng.Intn(int(st.Version()-1)))
				if e := st.Rollback(target); e != nil {
					lines = append(lines, StoreLine{Kind: "store", History: h, Err: "rollback: " + e.Error()})
					return roots, lines, nil
				}
				state = map[string][]byte{}
				for k, v := range snaps[target] {
					state[k] = v
				}
				afterRollback = true
				for _, ops := range blocks {
					for _, o := range ops {
						hot = append(hot, o.k)
					}
				}
				for b := len(blocks) - 1; b >= 0; b-- { // the old blocks in reverse order: other states than before
					if doBlock(b, blocks[b], b == 0); failed {
						break
					}
				}
			}
			return roots, lines, nil
		}
		r0, l0, e0 := run(0)
		r1, l1, e1 := run(1)
		if e0 != nil || e1 != nil {
			return fmt.Errorf("store setup: %v %v", e0, e1)
		}
		for i := range l0 {
			same := "n/a"
			if i < len(r1) && i < len(r0) {
				same = strconv.FormatBool(r0[i] == r1[i])
			}
			l0[i].SameState = same
			_ = out.Encode(l0[i])
		}
		if _, l2, e2 := run(2); e2 == nil {
			for i := range l2 {
				l2[i].SameState = "n/a"
				_ = out.Encode(l2[i])
			}
		}
		for i := range l1 {
			same := "n/a"
			if i < len(r1) && i < len(r0) {
				same = strconv.FormatBool(r0[i] == r1[i])
			}
			l1[i].SameState = same
			_ = out.Encode(l1[i])
		}
	}
	return nil
}

func main() {
	if len(os.Args) < 2 {
		fmt.Fprintln(os.Stderr, "usage: smtx tree|proof|store ...")
		os.Exit(2)
	}
	arg := func(i int) int64 {
		v, err := strconv.ParseInt(os.Args[i], 10, 64)
		if err != nil {
			fmt.Fprintln(os.Stderr, "bad argument", os.Args[i])
			os.Exit(2)
		}
		return v
	}
	outPath := os.Args[len(os.Args)-1]
	f, err := os.Create(outPath)
	if err != nil {
		fmt.Fprintln(os.Stderr, err)
		os.Exit(2)
	}
	defer f.Close()
	w := bufio.NewWriterSize(f, 1<<20)
	defer w.Flush()
	enc := json.NewEncoder(w)
	switch os.Args[1] {
	case "tree":
		err = treeMode(int(arg(2)), arg(3), int(arg(4)), enc)
	case "proof":
		err = proofMode(int(arg(2)), arg(3), int(arg(4)), enc)
	case "store":
		err = storeMode(arg(2), int(arg(3)), enc)
	default:
		err = fmt.Errorf("unknown mode")
	}
	if err != nil {
		fmt.Fprintln(os.Stderr, err)
		os.Exit(2)
	}
}
