// storex drives the real store (store.Store over pebble) with seeded operation sequences for specs/Store.tla (C10):
// point reads, forward/reverse prefix iteration, nested transactions with flush or discard, store copies, commits,
// historical read-only views re-queried after later commits, with memtable flushes and compactions in between.
//
//	storex run <seed> <sequences> <ops per sequence> <mem|disk> <out.ndjson>
package main

import (
	"bufio"
	"context"
	"encoding/json"
	"fmt"
	"math/rand"
	"os"
	"strconv"

	"github.com/canopy-network/canopy/lib"
	"github.com/canopy-network/canopy/store"
)

type KV struct {
	K int    `json:"k"`
	V string `json:"v"`
}

type Line struct {
	Op    string `json:"op"`
	K     int    `json:"k"`
	V     string `json:"v"`
	Ver   uint64 `json:"ver"`
	P     string `json:"p"`
	Rev   bool   `json:"rev"`
	Val   string `json:"val"`
	Items []KV   `json:"items"`
	Err   string `json:"err"`
}

// keys 1..7 in the byte order of their length-prefixed encoding: a/1 a/1/x a/2 a/3 b/1 b/2 ab/1
// (a/1/x extends a/1: one user key is a byte prefix of another)
var segs = [][]string{{"a", "1"}, {"a", "1", "x"}, {"a", "2"}, {"a", "3"}, {"b", "1"}, {"b", "2"}, {"ab", "1"}}

func key(i int) []byte {
	var parts [][]byte
	for _, x := range segs[i-1] {
		parts = append(parts, []byte(x))
	}
	return lib.JoinLenPrefix(parts...)
}
func keyIndex(k []byte) int {
	for i := range segs {
		if string(key(i+1)) == string(k) {
			return i + 1
		}
	}
	return 0
}
func prefix(p string) []byte { return lib.JoinLenPrefix([]byte(p)) }

func iterate(s lib.RStoreI, p string, rev bool) ([]KV, error) {
	var it lib.IteratorI
	var err lib.ErrorI
	if rev {
		it, err = s.RevIterator(prefix(p))
	} else {
		it, err = s.Iterator(prefix(p))
	}
	if err != nil {
		return nil, err
	}
	defer it.Close()
	out := []KV{}
	for ; it.Valid(); it.Next() {
		v := string(it.Value())
		if v == "" {
			v = "e" // a live key with an empty value (the state machine's index entries are written like this)
		}
		out = append(out, KV{K: keyIndex(it.Key()), V: v})
	}
	return out, nil
}

func errs(e lib.ErrorI) string {
	if e == nil {
		return ""
	}
	return e.Error()
}

func sequence(rng *rand.Rand, ops int, disk bool, enc *json.Encoder) error {
	var st *store.Store
	dir := ""
	if disk {
		var e error
		if dir, e = os.MkdirTemp("", "storex-"); e != nil {
			return e
		}
		defer os.RemoveAll(dir)
		si, err := store.NewStore(lib.DefaultConfig(), dir, nil, lib.NewNullLogger())
		if err != nil {
			return err
		}
		st = si.(*store.Store)
	} else {
		si, err := store.NewStoreInMemory(lib.NewNullLogger())
		if err != nil {
			return err
		}
		st = si.(*store.Store)
	}
	defer st.Close()
	emit := func(l Line) {
		if l.Items == nil {
			l.Items = []KV{}
		}
		_ = enc.Encode(l)
	}
	emit(Line{Op: "start"})
	stack := []lib.StoreI{st} // stack[0] = the store, deeper = nested transactions
	var cp lib.StoreI
	vals := []string{"x", "y", "z", "e"} // "e" is written as the empty value: present for iteration, indistinguishable from absent for Get
	enc2 := func(v string) []byte {
		if v == "e" {
			return nil
		}
		return []byte(v)
	}
	prefixes := []string{"a", "b", "ab"}
	for i := 0; i < ops; i++ {
		top := stack[len(stack)-1]
		k := 1 + rng.Intn(len(segs))
		switch r := rng.Intn(100); {
		case r < 22:
			v := vals[rng.Intn(len(vals))]
			emit(Line{Op: "set", K: k, V: v, Err: errs(top.Set(key(k), enc2(v)))})
		case r < 32:
			emit(Line{Op: "delete", K: k, Err: errs(top.Delete(key(k)))})
		case r < 44:
			v, e := top.Get(key(k))
			emit(Line{Op: "get", K: k, Val: string(v), Err: errs(e)})
		case r < 56:
			p, rev := prefixes[rng.Intn(3)], rng.Intn(2) == 0
			items, e := iterate(top, p, rev)
			l := Line{Op: "iter", P: p, Rev: rev, Items: items}
			if e != nil {
				l.Err = e.Error()
			}
			emit(l)
		case r < 61:
			if len(stack) < 3 {
				stack = append(stack, top.NewTxn())
				emit(Line{Op: "nest"})
			}
		case r < 65:
			if len(stack) > 1 {
				e := top.Flush()
				stack = stack[:len(stack)-1]
				emit(Line{Op: "flush", Err: errs(e)})
			}
		case r < 68:
			if len(stack) > 1 {
				top.Discard()
				stack = stack[:len(stack)-1]
				emit(Line{Op: "discard"})
			}
		case r < 76:
			if len(stack) == 1 && st.Version() < 12 {
				_, e := st.Commit()
				emit(Line{Op: "commit", Err: errs(e)})
			}
		case r < 84:
			if v := st.Version(); v > 0 {
				ver := 1 + uint64(rng.Intn(int(v)))
				ro, e := st.NewReadOnly(ver)
				if e != nil {
					emit(Line{Op: "getAt", Ver: ver, K: k, Err: e.Error()})
					break
				}
				if rng.Intn(2) == 0 {
					val, e2 := ro.Get(key(k))
					emit(Line{Op: "getAt", Ver: ver, K: k, Val: string(val), Err: errs(e2)})
				} else {
					p, rev := prefixes[rng.Intn(3)], rng.Intn(2) == 0
					items, e2 := iterate(ro, p, rev)
					l := Line{Op: "iterAt", Ver: ver, P: p, Rev: rev, Items: items}
					if e2 != nil {
						l.Err = e2.Error()
					}
					emit(l)
				}
				ro.Discard()
			}
		case r < 87:
			if len(stack) == 1 {
				if cp != nil {
					cp.Discard()
				}
				c, e := st.Copy()
				cp = c
				emit(Line{Op: "copy", Err: errs(e)})
			}
		case r < 95:
			if cp != nil {
				switch rng.Intn(4) {
				case 0:
					v := vals[rng.Intn(len(vals))]
					emit(Line{Op: "cpset", K: k, V: v, Err: errs(cp.Set(key(k), enc2(v)))})
				case 1:
					emit(Line{Op: "cpdelete", K: k, Err: errs(cp.Delete(key(k)))})
				case 2:
					v, e := cp.Get(key(k))
					emit(Line{Op: "cpget", K: k, Val: string(v), Err: errs(e)})
				default:
					p, rev := prefixes[rng.Intn(3)], rng.Intn(2) == 0
					items, e := iterate(cp, p, rev)
					l := Line{Op: "cpiter", P: p, Rev: rev, Items: items}
					if e != nil {
						l.Err = e.Error()
					}
					emit(l)
				}
			}
		default:
			// rollback to an earlier (or the current) version: versions above it are pruned, pending writes dropped
			if v := st.Version(); len(stack) == 1 && v >= 1 && rng.Intn(3) == 0 {
				if cp != nil {
					cp.Discard()
					cp = nil
				}
				target := 1 + uint64(rng.Intn(int(v)))
				emit(Line{Op: "rollback", Ver: target, Err: errs(st.Rollback(target))})
				break
			}
			// maintenance without logical effect: memtable flush, full compaction (changes the sstable layout the iterators see)
			var e error
			if rng.Intn(2) == 0 {
				e = st.DB().Flush()
			} else {
				e = st.DB().Compact(context.Background(), []byte{0}, []byte{0xff, 0xff, 0xff, 0xff}, false)
			}
			l := Line{Op: "maint"}
			if e != nil {
				l.Err = e.Error()
			}
			emit(l)
		}
	}
	for len(stack) > 1 {
		stack[len(stack)-1].Discard()
		stack = stack[:len(stack)-1]
	}
	if cp != nil {
		cp.Discard()
	}
	return nil
}

func main() {
	if len(os.Args) < 7 || os.Args[1] != "run" {
		fmt.Fprintln(os.Stderr, "usage: storex run <seed> <sequences> <ops> <mem|disk> <out.ndjson>")
		os.Exit(2)
	}
	seed, _ := strconv.ParseInt(os.Args[2], 10, 64)
	n, _ := strconv.Atoi(os.Args[3])
	ops, _ := strconv.Atoi(os.Args[4])
	f, err := os.Create(os.Args[6])
	if err != nil {
		fmt.Fprintln(os.Stderr, err)
		os.Exit(2)
	}
	defer f.Close()
	w := bufio.NewWriterSize(f, 1<<20)
	defer w.Flush()
	enc := json.NewEncoder(w)
	rng := rand.New(rand.NewSource(seed))
	for i := 0; i < n; i++ {
		if err := sequence(rng, ops, os.Args[5] == "disk", enc); err != nil {
			w.Flush()
			fmt.Fprintln(os.Stderr, "storex:", err)
			os.Exit(2)
		}
	}
}
