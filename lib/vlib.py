"""Common machinery for the /verif checks: TLC runs, trace conversion, harness build, evidence, verdicts."""
import json, os, re, shutil, subprocess, sys, tempfile, time, hashlib

VERIF = os.path.dirname(os.path.dirname(os.path.abspath(__file__)))
SPECS = os.path.join(VERIF, "specs")
BUILD = os.path.join(VERIF, "build")
HARNESS = os.path.join(VERIF, "harness")
REPO = os.environ.get("VERIF_REPO", "/repo")
GO = os.environ.get("VERIF_GO", "go1.26")

GOENV = dict(os.environ, GOFLAGS="-mod=mod", GOPROXY="off", GOSUMDB="off", GOTOOLCHAIN="local")


class Infra(Exception):
    """infrastructure problem: exit 2, never a violation"""


def seed():
    try:
        return int(os.environ.get("VERIF_SEED", "1"))
    except ValueError:
        return 1


def tier(argv_tier=None):
    t = argv_tier or os.environ.get("VERIF_TIER") or "quick"
    return "thorough" if t.startswith("t") else "quick"


def scratch(prefix):
    return tempfile.mkdtemp(prefix="verif-%s-" % prefix)


def sh(cmd, cwd=None, env=None, timeout=None, check=True):
    p = subprocess.run(cmd, cwd=cwd, env=env or GOENV, timeout=timeout, stdout=subprocess.PIPE, stderr=subprocess.STDOUT, text=True)
    if check and p.returncode != 0:
        raise Infra("command failed (%d): %s\n%s" % (p.returncode, " ".join(cmd), p.stdout[-4000:]))
    return p


def build_harness(pkg, tags="verif", race=False):
    """(re)build one harness command from /repo's current working tree"""
    os.makedirs(BUILD, exist_ok=True)
    gosum = os.path.join(HARNESS, "go.sum")
    shutil.copyfile(os.path.join(REPO, "go.sum"), gosum)
    out = os.path.join(BUILD, pkg + ("-race" if race else ""))
    t0 = time.time()
    sh([GO, "build"] + (["-race"] if race else []) + ["-tags", tags, "-o", out, "./" + pkg], cwd=HARNESS, timeout=3000)
    return out, time.time() - t0


# ---------------------------------------------------------------------------------------------- TLC

TLC_STATS = re.compile(r"^(\d+) states generated, (\d+) distinct states found, (\d+) states left on queue", re.M)
TLC_DEPTH = re.compile(r"The depth of the complete state graph search is (\d+)")
TLC_INV = re.compile(r"Error: Invariant (\S+) is violated")
TLC_PROP = re.compile(r"Error: (?:Temporal properties were violated|Action property (\S+) is violated)")


class TlcResult:
    def __init__(self, out, rc, wall):
        self.out, self.rc, self.wall = out, rc, wall
        m = None
        for m in TLC_STATS.finditer(out):
            pass
        self.generated = int(m.group(1)) if m else 0
        self.distinct = int(m.group(2)) if m else 0
        self.queue = int(m.group(3)) if m else -1
        if not m:  # stopped by the time limit: take the last progress line
            pm = None
            for pm in re.finditer(r"^Progress\(\d+\) at [^:]+:\d+:\d+: ([\d,]+) states generated .*?, ([\d,]+) distinct states found", out, re.M):
                pass
            if pm:
                self.generated, self.distinct = int(pm.group(1).replace(",", "")), int(pm.group(2).replace(",", ""))
        d = TLC_DEPTH.search(out)
        self.depth = int(d.group(1)) if d else 0
        i = TLC_INV.search(out)
        self.violated = i.group(1) if i else None
        if not self.violated and TLC_PROP.search(out):
            self.violated = TLC_PROP.search(out).group(1) or "temporal"
        self.finished = "Model checking completed. No error has been found." in out
        self.timed_out = rc == 124
        self.error = None
        self.sim_done = "Simulation using seed" in out and "Error:" not in out
        if not self.finished and not self.violated and not self.timed_out and not self.sim_done:
            e = re.search(r"Error: (.*)", out)
            self.error = e.group(1) if e else ("rc=%d" % rc)

    def coverage(self):
        """per-action counts from `-coverage` output: {action: (distinct, total)}"""
        cov = {}
        for m in re.finditer(r"^<(\w+) line \d+, col \d+ to line \d+, col \d+ of module (\w+)>: (\d+):(\d+)", self.out, re.M):
            k = m.group(1)
            a, b = cov.get(k, (0, 0))
            cov[k] = (a + int(m.group(3)), b + int(m.group(4)))
        return cov


def tlc(workdir, module, cfg_text, workers=16, timeout=600, extra=(), files=(), java_opts=None):
    """run TLC on <module>.tla (copied from specs/ together with every other spec module) with the given cfg text"""
    os.makedirs(workdir, exist_ok=True)
    for f in os.listdir(SPECS):
        if f.endswith(".tla"):
            shutil.copyfile(os.path.join(SPECS, f), os.path.join(workdir, f))
    for f in files:
        shutil.copy(f, workdir)
    cfg = os.path.join(workdir, module + ".cfg")
    with open(cfg, "w") as fh:
        fh.write(cfg_text)
    meta = os.path.join(workdir, "meta-" + module)
    cmd = ["timeout", str(timeout), "tlc", "-workers", str(workers), "-metadir", meta, "-config", cfg] + list(extra) + [module + ".tla"]
    env = dict(os.environ)
    if java_opts:
        env["JAVA_TOOL_OPTIONS"] = java_opts
    t0 = time.time()
    p = subprocess.run(cmd, cwd=workdir, env=env, stdout=subprocess.PIPE, stderr=subprocess.STDOUT, text=True)
    shutil.rmtree(meta, ignore_errors=True)
    return TlcResult(p.stdout, p.returncode, time.time() - t0)


def cfg_text(spec="Spec", constants=None, invariants=(), properties=(), view=None, symmetry=None, constraint=None,
             deadlock=False, postcondition=None, init=None, nxt=None, action_constraint=None):
    lines = []
    if init and nxt:
        lines += ["INIT " + init, "NEXT " + nxt]
    else:
        lines.append("SPECIFICATION " + spec)
    if constants:
        lines.append("CONSTANTS")
        for k, v in constants.items():
            lines.append("  %s %s" % (k, v) if v.startswith("<-") else "  %s = %s" % (k, v))
    if view:
        lines.append("VIEW " + view)
    if symmetry:
        lines.append("SYMMETRY " + symmetry)
    if constraint:
        lines.append("CONSTRAINT " + constraint)
    if action_constraint:
        lines.append("ACTION_CONSTRAINT " + action_constraint)
    if invariants:
        lines.append("INVARIANTS " + " ".join(invariants))
    if properties:
        lines.append("PROPERTIES " + " ".join(properties))
    if postcondition:
        lines.append("POSTCONDITION " + postcondition)
    lines.append("CHECK_DEADLOCK " + ("TRUE" if deadlock else "FALSE"))
    return "\n".join(lines) + "\n"


def counterexample_lasts(trace_json_path, var="last"):
    """the sequence of `last` records along a TLC -dumpTrace json counterexample"""
    with open(trace_json_path) as fh:
        ce = json.load(fh)["counterexample"]
    lasts = []
    for step in ce["action"]:
        lasts.append(step[2][1][var])
    return lasts


# ------------------------------------------------------------------------------------ evidence etc.

def write_evidence(pid, tier_, level, coverage, wall, violations=0, assumptions=()):
    os.makedirs(os.path.join(VERIF, "evidence"), exist_ok=True)
    ev = {"property_id": pid, "tier": tier_, "seed": seed(), "level": level, "coverage": coverage,
          "assumptions": list(assumptions), "wall_s": round(wall, 2), "violations": violations}
    path = os.path.join(VERIF, "evidence", pid + ".json")
    with open(path + ".tmp", "w") as fh:
        json.dump(ev, fh, indent=1, sort_keys=True)
    os.replace(path + ".tmp", path)
    return path


def known_findings():
    p = os.path.join(VERIF, "known-findings.json")
    if not os.path.exists(p):
        return {"findings": [], "fixed": []}
    with open(p) as fh:
        return json.load(fh)


def finding_for(pid, key):
    for f in known_findings().get("findings", []):
        if f["property"] == pid and f["key"] == key:
            return f
    return None


def save_replay(pid, name, payload):
    d = os.path.join(VERIF, "replays", pid)
    os.makedirs(d, exist_ok=True)
    path = os.path.join(d, name)
    with open(path, "w") as fh:
        if isinstance(payload, str):
            fh.write(payload)
        else:
            json.dump(payload, fh, indent=1)
    return path


class Verdict:
    """collects violations / known findings and produces the exit code"""

    def __init__(self, pid):
        self.pid = pid
        self.violations = []   # (key, what, replay path)
        self.known = []
        self.divergences = []

    def violation(self, key, what, replay_payload):
        f = finding_for(self.pid, key)
        if f:
            self.known.append((key, f["what"]))
            print("KNOWN-FINDING: property=%s %s" % (self.pid, f["what"]))
            return
        path = save_replay(self.pid, re.sub(r"[^A-Za-z0-9_.-]", "_", key) + ".json", replay_payload)
        self.violations.append((key, what, path))
        print("VIOLATION property=%s replay=%s" % (self.pid, path))
        print("  what: " + what)

    def divergence(self, what):
        self.divergences.append(what)
        print("DIVERGENCE property=%s %s" % (self.pid, what))

    def exit_code(self):
        return 1 if self.violations else 0


# --------------------------------------------------------------------------- TLA+ value text parser

class _P:
    def __init__(self, s):
        self.s, self.i = s, 0

    def ws(self):
        while self.i < len(self.s) and self.s[self.i].isspace():
            self.i += 1

    def peek(self, t):
        self.ws()
        return self.s.startswith(t, self.i)

    def eat(self, t):
        self.ws()
        if not self.s.startswith(t, self.i):
            raise ValueError("expected %r at %d: %r" % (t, self.i, self.s[self.i:self.i + 30]))
        self.i += len(t)

    def value(self):
        self.ws()
        c = self.s[self.i]
        if c == '"':
            j = self.i + 1
            out = []
            while self.s[j] != '"':
                if self.s[j] == "\\":
                    j += 1
                out.append(self.s[j])
                j += 1
            self.i = j + 1
            return "".join(out)
        if c == "{":
            self.eat("{")
            items = []
            while not self.peek("}"):
                items.append(self.value())
                if self.peek(","):
                    self.eat(",")
            self.eat("}")
            return items
        if self.s.startswith("<<", self.i):
            self.eat("<<")
            items = []
            while not self.peek(">>"):
                items.append(self.value())
                if self.peek(","):
                    self.eat(",")
            self.eat(">>")
            return items
        if c == "[":
            self.eat("[")
            rec = {}
            while not self.peek("]"):
                self.ws()
                m = re.match(r"[A-Za-z_][A-Za-z0-9_]*", self.s[self.i:])
                k = m.group(0)
                self.i += len(k)
                self.eat("|->")
                rec[k] = self.value()
                if self.peek(","):
                    self.eat(",")
            self.eat("]")
            return rec
        if c == "(":
            self.eat("(")
            fn = {}
            while True:
                k = self.value()
                self.eat(":>")
                fn[str(k)] = self.value()
                if self.peek("@@"):
                    self.eat("@@")
                    continue
                break
            self.eat(")")
            return fn
        m = re.match(r"-?\d+", self.s[self.i:])
        if m:
            self.i += len(m.group(0))
            return int(m.group(0))
        m = re.match(r"[A-Za-z_][A-Za-z0-9_]*", self.s[self.i:])
        if m:
            self.i += len(m.group(0))
            w = m.group(0)
            return True if w == "TRUE" else False if w == "FALSE" else w
        raise ValueError("cannot parse at %d: %r" % (self.i, self.s[self.i:self.i + 30]))


def parse_tla(text):
    return _P(text).value()


def behaviour_var(path, var="last"):
    """values of one variable along a behaviour file written by `tlc -simulate file=...`"""
    with open(path) as fh:
        txt = fh.read()
    vals = []
    for st in re.split(r"^STATE_\d+ ==\s*$", txt, flags=re.M)[1:]:
        m = re.search(r"^/\\ %s = (.*?)(?=^/\\ |\Z)" % re.escape(var), st, flags=re.M | re.S)
        if m:
            body = re.split(r"^\\\*|^=====", m.group(1), flags=re.M)[0]
            vals.append(parse_tla(body))
    return vals


def simulate(workdir, module, cfg, num, depth, sd, var="last", timeout=600):
    """TLC random simulation; returns the list of behaviours (each a list of `var` values)"""
    pre = os.path.join(workdir, "beh")
    for f in os.listdir(workdir) if os.path.isdir(workdir) else []:
        if f.startswith("beh_"):
            os.remove(os.path.join(workdir, f))
    r = tlc(workdir, module, cfg, workers=1, timeout=timeout,
            extra=["-simulate", "file=%s,num=%d" % (pre, num), "-depth", str(depth), "-seed", str(sd)])
    if r.error or r.violated:
        return r, []
    out = []
    for f in sorted(os.listdir(workdir)):
        if f.startswith("beh_"):
            out.append(behaviour_var(os.path.join(workdir, f), var))
    return r, out
