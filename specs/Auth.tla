-------------------------------- MODULE Auth --------------------------------
(***************************************************************************)
(* C05: the authorisation gate of fsm/transaction.go (CheckSignature):     *)
(* verify the signature under the presented public key over the sign bytes *)
(* of the transaction as received, require a multisig key's threshold,     *)
(* derive the address from the presented key and match it against the      *)
(* message's authorised signers; the message's signer field is filled from *)
(* the verified key, not from the wire.  Checked for EVERY candidate.      *)
(***************************************************************************)
EXTENDS AuthDef, TLC

CONSTANTS G_Verify,        \* the signature is verified at all
          G_OverContent,   \* ... over the sign bytes of the transaction as received
          G_Threshold,     \* a multisig key needs its threshold of members
          G_MatchSigners,  \* the presented key's address must be among the authorised signers
          G_SignerFromKey  \* the payer / signer the handler uses is the verified key, not a field from the wire

Ids == {"O", "OP", "OUT", "X"}
Cands == [msg : Msgs, signer : Ids \cup {"none"}, presented : Ids, genuine : BOOLEAN, quorum : BOOLEAN, wireSigner : Ids]

\* a signature verifies under the presented key iff that key's owner made it (over whatever content)
Verifies(c) == c.signer = c.presented
Gate(c) == /\ (G_Verify => Verifies(c))
           /\ (G_Verify /\ G_OverContent => c.genuine)
           /\ (G_Threshold => c.quorum)
           /\ (G_MatchSigners => c.presented \in AuthorizedFor(c.msg))
\* whose funds the handler debits for a stake: the verified key's, or what the wire says
Payer(c) == IF G_SignerFromKey THEN c.presented ELSE c.wireSigner

VARIABLE c
Init == c \in Cands
Next == UNCHANGED c
Spec == Init /\ [][Next]_c

Sound == Gate(c) => Legit(c)
PayerIsSigner == Gate(c) => Payer(c) = c.signer
Complete == Legit(c) => Gate(c)
=============================================================================
