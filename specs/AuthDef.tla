------------------------------ MODULE AuthDef ------------------------------
(***************************************************************************)
(* C05: who may authorise what.  A candidate transaction is described by   *)
(*   msg        - the message type;                                        *)
(*   signer     - the identity whose private key(s) really produced the    *)
(*                signature: "O" (the owner the message claims), "OP" /    *)
(*                "OUT" (operator / output address of the validator the    *)
(*                message names), "X" (somebody else), "none";             *)
(*   presented  - the identity whose public key the transaction carries;   *)
(*   genuine    - the signature was made over exactly the content the      *)
(*                transaction now has (FALSE after any tampering);         *)
(*   quorum     - for a multisig key: enough members signed.               *)
(***************************************************************************)
EXTENDS Naturals, FiniteSets

ValidatorMsgs == {"editStake", "unstake", "pause", "unpause"}
SenderMsgs == {"send", "subsidy", "daoTransfer", "changeParameter", "createOrder", "dexLimitOrder", "dexLiquidityDeposit", "dexLiquidityWithdraw"}
SellerMsgs == {"editOrder", "deleteOrder"}
Msgs == ValidatorMsgs \cup SenderMsgs \cup SellerMsgs \cup {"stake", "certificateResults"}

\* the identities the message's rules authorise
AuthorizedFor(msg) == IF msg \in ValidatorMsgs \cup {"stake"} THEN {"OP", "OUT"} ELSE {"O"}

\* what the property demands of an applied transaction
Legit(c) == /\ c.genuine /\ c.quorum
            /\ c.signer = c.presented            \* the key that is presented is the key that signed
            /\ c.signer \in AuthorizedFor(c.msg)
=============================================================================
