----------------------------- MODULE AuthTrace -----------------------------
(***************************************************************************)
(* Candidate transactions applied to a REAL state machine (harness/nodex   *)
(* auth mode): the abstract candidate (AuthDef.tla) and what the real code *)
(* did.  An applied transaction must be Legit; the assets of the claimed   *)
(* owner may only change through an applied transaction.                   *)
(***************************************************************************)
EXTENDS AuthDef, Sequences, TLC, Json
VARIABLES l, ok
Trace == ndJsonDeserialize("trace.ndjson")

Cand(r) == [msg |-> r.msg, signer |-> r.signer, presented |-> r.presented, genuine |-> r.genuine, quorum |-> r.quorum]
Good(r) == /\ r.msg \in Msgs
           /\ (r.applied => Legit(Cand(r)))
           /\ (r.victimChanged => r.applied)

Init == l = 1 /\ ok = TRUE /\ TLCSet(1, 0)
Next == l <= Len(Trace) /\ l' = l + 1 /\ ok' = Good(Trace[l]) /\ TLCSet(1, l)
Spec == Init /\ [][Next]_<<l, ok>>
TraceAccepted == TLCGet(1) = Len(Trace)
Report == ok \/ PrintT(<<"VIOL", l - 1>>)
\* not a requirement of the property, reported only: a Legit candidate that was refused
Refused(r) == Legit(Cand(r)) /\ ~r.applied
=============================================================================
