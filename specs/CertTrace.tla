----------------------------- MODULE CertTrace -----------------------------
(***************************************************************************)
(* What the REAL finality gate (controller.HandlePeerBlock on a real node) *)
(* answered for materialised certificate cases (harness/nodex gate).       *)
(* Sound: accepted => Genuine(case) (C02).  Conform: accepted <=> Accept.  *)
(***************************************************************************)
EXTENDS CertificateDef, Json
VARIABLES l, cur
vars == <<l, cur>>
Trace == ndJsonDeserialize("trace.ndjson")
SetOf(s) == {s[i] : i \in DOMAIN s}
CaseOf(r) == [power |-> r.power, signedBy |-> SetOf(r.signedBy), sigs |-> SetOf(r.sigs), bitmap |-> SetOf(r.bitmap),
              signed |-> r.signed, cert |-> r.cert, attachedBlock |-> r.attachedBlock, attachedResults |-> r.attachedResults]
Init == l = 1 /\ cur = [kind |-> "none"] /\ TLCSet(1, 0)
Next == l <= Len(Trace) /\ l' = l + 1 /\ cur' = Trace[l] /\ TLCSet(1, l)
Spec == Init /\ [][Next]_vars
TraceAccepted == TLCGet(1) = Len(Trace)
IsCase == cur.kind = "case"
GateSoundReal == IsCase => (cur.accepted => Genuine(CaseOf(cur)))
GateConforms  == IsCase => (cur.accepted <=> Accept(CaseOf(cur)))
HonestAccepted == (IsCase /\ cur.honest) => cur.accepted
Preds == [GateSoundReal |-> GateSoundReal, GateConforms |-> GateConforms, HonestAccepted |-> HonestAccepted]
Report == (\A p \in DOMAIN Preds : Preds[p]) \/ PrintT(<<"VIOL", l - 1, Preds>>)
=============================================================================
