----------------------------- MODULE Certificate -----------------------------
(* bounded design check of CertificateDef: every case within two deviations of an honest certificate *)
EXTENDS CertificateDef

\* ---- bounded design check: every case with up to two deviations from the honest one -------------------------
CONSTANTS Powers   \* set of stake vectors (sequences)
VARIABLE case
Honest(p, S) == [power |-> p, signedBy |-> S, sigs |-> S, bitmap |-> S,
                 signed |-> [f \in Fields |-> 0], cert |-> [f \in Fields |-> 0], attachedBlock |-> 0, attachedResults |-> 0]
Dev1(c) == {[c EXCEPT !.cert[f] = 1] : f \in Fields} \cup {[c EXCEPT !.signed[f] = 1] : f \in Fields}
           \cup {[c EXCEPT !.cert[f] = 1, !.signed[f] = 1] : f \in Fields}
           \cup {[c EXCEPT !.bitmap = B] : B \in SUBSET DOMAIN c.power} \cup {[c EXCEPT !.sigs = B] : B \in SUBSET DOMAIN c.power}
           \cup {[c EXCEPT !.attachedBlock = 1], [c EXCEPT !.attachedResults = 1]}
VARIABLE depth
Init == /\ case \in {c \in {Honest(p, S) : p \in Powers, S \in SUBSET {1, 2, 3, 4}} : c.signedBy \subseteq DOMAIN c.power}
        /\ depth = 0
\* one deviation per step, at most two
Next == depth < 2 /\ depth' = depth + 1 /\ case' \in Dev1(case)
Spec == Init /\ [][Next]_<<case, depth>>
GateSound == Accept(case) => Genuine(case)
MCPowers == {<<1, 1, 1, 1>>, <<5, 3, 2, 1>>}
=============================================================================
