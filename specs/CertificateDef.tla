--------------------------- MODULE CertificateDef ---------------------------
(***************************************************************************)
(* C02, the finality gate (controller.HandlePeerBlock -> QuorumCertificate *)
(* .Check -> AggregateSignature.Check -> CheckProposalBasic -> phase).     *)
(* A case is what an attacker hands to a node: a certificate whose claimed *)
(* fields may differ from the fields that the aggregated signatures were   *)
(* really made over, a claimed signer bitmap, the set of signatures really *)
(* aggregated, an attached block and results, and the node's expectations. *)
(* Field values are small integers: 0 = the honest value, k > 0 = some     *)
(* other value.                                                            *)
(***************************************************************************)
EXTENDS Integers, FiniteSets, Sequences, TLC

Fields == {"net", "chain", "height", "rootH", "round", "phase", "block", "results", "proposer"}

CONSTANTS G_SignBytesBound,   \* the signatures must be over exactly the certificate's own fields
          G_BitmapExact,      \* aggregated signatures = claimed bitmap, every claimed signer really signed
          G_Threshold,        \* power(bitmap) >= floor(2T/3)+1
          G_ViewBound,        \* network, chain and height are the node's
          G_BlockBound,       \* attached block and results are the certified ones
          G_PhaseBound        \* commit-justifying phase only (value 0 of field "phase")

RECURSIVE SumP(_, _)
SumP(p, S) == IF S = {} THEN 0 ELSE LET i == CHOOSE x \in S : TRUE IN p[i] + SumP(p, S \ {i})
Total(c) == SumP(c.power, DOMAIN c.power)
Maj23(t) == (2 * t) \div 3 + 1

\* the gate as intended
Accept(c) ==
   /\ G_SignBytesBound => \A f \in Fields : c.cert[f] = c.signed[f]
   /\ G_BitmapExact => (c.sigs = c.bitmap /\ c.bitmap \subseteq c.signedBy)
   /\ G_Threshold => SumP(c.power, c.bitmap \cap DOMAIN c.power) >= Maj23(Total(c))
   /\ c.bitmap \subseteq DOMAIN c.power
   /\ G_ViewBound => (c.cert["net"] = 0 /\ c.cert["chain"] = 0 /\ c.cert["height"] = 0)
   /\ G_BlockBound => (c.attachedBlock = c.cert["block"] /\ c.attachedResults = c.cert["results"])
   /\ G_PhaseBound => c.cert["phase"] = 0

\* the property: a committed block was signed, exactly as committed, by +2/3 of the committee in force
Genuine(c) ==
   \E Q \in SUBSET (c.signedBy \cap DOMAIN c.power) :
      /\ SumP(c.power, Q) >= Maj23(Total(c))
      /\ \A f \in {"net", "chain", "height", "phase"} : c.signed[f] = 0
      /\ c.signed["block"] = c.attachedBlock /\ c.signed["results"] = c.attachedResults

=============================================================================
