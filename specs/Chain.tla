-------------------------------- MODULE Chain --------------------------------
(***************************************************************************)
(* C03 / C07 / C11 at design level.  Nodes hold a committed prefix of      *)
(* blocks; a block is applied to a prefix on one of several EXECUTION      *)
(* PATHS (propose from the mempool, validate as replica, commit with the   *)
(* cached result, commit by replay, replay after restart, replay from the  *)
(* archive).  Each execution reads the committed prefix plus per-node      *)
(* side state that lives outside the store: caches left by a discarded     *)
(* speculative execution, a block cache filled by RPC reads, the encoding  *)
(* in which the archive re-serves a block.  The header a node computes is  *)
(* a function Hdr(prefix, block, leak); the guards say that the side state *)
(* is reset / not consulted (leak = "clean").                              *)
(***************************************************************************)
EXTENDS Integers, FiniteSets, Sequences, TLC

CONSTANTS Nodes, Blocks, MaxHeight, None,
          G_ResetBeforeExec,    \* FSM.Reset / ResetCaches before every proposal, validation, commit
          G_CacheNotConsulted,  \* execution never reads the process-wide block cache
          G_ArchiveCanonical    \* the archive re-serves exactly the certified bytes

Paths == {"propose", "validate", "commit-cached", "commit-replay", "restart-replay", "sync"}

VARIABLES chain,     \* the certified chain: sequence of blocks
          height,    \* node -> number of committed blocks
          dirty,     \* node -> side state left by a discarded speculative execution ("clean" / "spec")
          cache,     \* node -> block cache polluted by a header-only RPC read
          hdr,       \* node -> height -> header computed (a term)
          last
vars == <<chain, height, dirty, cache, hdr, last>>
view == <<chain, height, dirty, cache, hdr>>

\* the header is an injective term of what the execution really read
Leak(n, path) ==
   IF ~G_ResetBeforeExec /\ dirty[n] # "clean" /\ path # "restart-replay" THEN dirty[n]
   ELSE IF ~G_CacheNotConsulted /\ cache[n] /\ path \in {"propose", "validate", "commit-replay"} THEN "cache"
   ELSE IF ~G_ArchiveCanonical /\ path = "sync" THEN "re-encoded"
   ELSE "clean"
Hdr(h, b, leak) == <<h, b, leak>>

Init == /\ chain = << >> /\ height = [n \in Nodes |-> 0] /\ dirty = [n \in Nodes |-> "clean"] /\ cache = [n \in Nodes |-> FALSE]
        /\ hdr = [n \in Nodes |-> [h \in 1..MaxHeight |-> None]] /\ last = [a |-> "Init"]

\* a proposer that is level with the chain builds and certifies the next block
Propose(n, b) ==
   /\ height[n] = Len(chain) /\ Len(chain) < MaxHeight
   /\ chain' = Append(chain, b)
   /\ hdr' = [hdr EXCEPT ![n][Len(chain) + 1] = Hdr(Len(chain) + 1, b, Leak(n, "propose"))]
   /\ height' = [height EXCEPT ![n] = @ + 1]
   /\ dirty' = [dirty EXCEPT ![n] = "clean"]
   /\ last' = [a |-> "Propose", n |-> n, b |-> b]
   /\ UNCHANGED cache

\* a node applies the next certified block on some path
Apply(n, path) ==
   /\ path # "propose" /\ height[n] < Len(chain)
   /\ LET h == height[n] + 1 IN
      /\ hdr' = [hdr EXCEPT ![n][h] = Hdr(h, chain[h], Leak(n, path))]
      /\ height' = [height EXCEPT ![n] = IF path = "validate" THEN @ ELSE h]
      /\ dirty' = [dirty EXCEPT ![n] = IF path = "validate" THEN "spec" ELSE "clean"]
   /\ last' = [a |-> "Apply", n |-> n, path |-> path]
   /\ UNCHANGED <<chain, cache>>

Speculate(n) == /\ dirty' = [dirty EXCEPT ![n] = "spec"] /\ last' = [a |-> "Speculate", n |-> n] /\ UNCHANGED <<chain, height, cache, hdr>>
RpcTouch(n)  == /\ cache' = [cache EXCEPT ![n] = TRUE] /\ last' = [a |-> "RpcTouch", n |-> n] /\ UNCHANGED <<chain, height, dirty, hdr>>
Restart(n)   == /\ dirty' = [dirty EXCEPT ![n] = "clean"] /\ cache' = [cache EXCEPT ![n] = FALSE] /\ last' = [a |-> "Restart", n |-> n]
                /\ UNCHANGED <<chain, height, hdr>>

Next == \E n \in Nodes : \/ \E b \in Blocks : Propose(n, b)
                         \/ \E p \in Paths : Apply(n, p)
                         \/ Speculate(n) \/ RpcTouch(n) \/ Restart(n)
Spec == Init /\ [][Next]_vars

\* C03: whoever computed a header for height h computed the same one
HeaderAgreement == \A a, b \in Nodes : \A h \in 1..MaxHeight : (hdr[a][h] # None /\ hdr[b][h] # None) => hdr[a][h] = hdr[b][h]
\* C11: what a node computes equals what the proposer certified (so the comparison in ApplyAndValidateBlock succeeds)
Portable == \A n \in Nodes : \A h \in 1..MaxHeight : hdr[n][h] # None => hdr[n][h] = Hdr(h, chain[h], "clean")
=============================================================================
