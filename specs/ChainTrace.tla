----------------------------- MODULE ChainTrace -----------------------------
(***************************************************************************)
(* Recorded multi-node executions (harness/nodex multi): per height, what  *)
(* every node computed on every execution path.  Predicates on the         *)
(* recorded real results:                                                  *)
(*  C03 HeaderAgreement: one header (hash and every root) and one state    *)
(*      digest per height, whatever the path.                              *)
(*  C07 Atomic: the node that only ever saw the included transactions gets *)
(*      the same roots; refused blocks/proposals leave version and state   *)
(*      untouched.                                                         *)
(*  C11 Portable: the honest proposal validates on the replica; the        *)
(*      archive-served chain replays on a fresh node to the same hashes.   *)
(***************************************************************************)
EXTENDS Integers, Sequences, FiniteSets, TLC, Json
VARIABLES l, cur
vars == <<l, cur>>
Trace == ndJsonDeserialize("trace.ndjson")
Init == l = 1 /\ cur = [kind |-> "none"] /\ TLCSet(1, 0)
Next == l <= Len(Trace) /\ l' = l + 1 /\ cur' = Trace[l] /\ TLCSet(1, l)
Spec == Init /\ [][Next]_vars
TraceAccepted == TLCGet(1) = Len(Trace)

H == {cur.hdrs[i] : i \in 1..Len(cur.hdrs)}
Done == {h \in H : h.err = "" /\ h.hash # ""}
Roots(h) == <<h.stateRoot, h.txRoot, h.valRoot, h.nextValRoot, h.numTxs, h.totalTxs>>
IsHeight == cur.kind \in {"height", "sync"}

HeaderAgreement == IsHeight =>
   /\ \A a, b \in {h \in Done : h.path # "F"} : a.hash = b.hash /\ Roots(a) = Roots(b)
   /\ \A a, b \in {h \in H : h.digest # ""} : a.digest = b.digest
   /\ \A a, b \in {h \in H : h.results # ""} : a.results = b.results
\* no path that executes the block arrives at another header / other results than the certified ones (also the replica
\* validating the proposal and the node replaying the archive during sync: their OTHER refusals belong to Portable)
ExecAgreement == IsHeight => \A h \in H : ~h.mismatch
NoPathError == IsHeight => \A h \in H : h.path \in {"V", "sync-from-archive", "F"} \/ h.err = ""
Atomic ==
   /\ cur.kind = "height" => \A f \in {h \in Done : h.path = "F"} : \A p \in {h \in Done : h.path = "P"} : Roots(f) = Roots(p)
   /\ cur.kind = "height" => \A f \in {h \in H : h.path = "F"} : f.err = ""
   /\ cur.kind = "reject" => (cur.rejected /\ cur.versionSame /\ cur.digestSame)
Portable ==
   /\ cur.kind = "height" => \A v \in {h \in H : h.path = "V"} : v.err = ""
   /\ cur.kind = "sync" => \A e \in {h \in H : h.path \in {"sync-from-archive", "archive"}} : e.err = ""
Preds == [HeaderAgreement |-> HeaderAgreement, ExecAgreement |-> ExecAgreement, NoPathError |-> NoPathError, Atomic |-> Atomic, Portable |-> Portable]
Report == (\A p \in DOMAIN Preds : Preds[p]) \/ PrintT(<<"VIOL", l - 1, Preds>>)
=============================================================================
