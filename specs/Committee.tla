------------------------------ MODULE Committee ------------------------------
(* bounded design check of CommitteeDef: every population of N validators *)
EXTENDS CommitteeDef

\* ---- bounded design check: every population of N validators ----------------------------------------------
CONSTANTS N, Stakes, Caps
VARIABLE pop   \* a population: sequence of validator records
Names == 1..N
Status == {"active", "paused", "unstaking", "delegate"}
Mk(i, st, s, onC) == [name |-> i, stake |-> st, rank |-> i, delegate |-> (s = "delegate"),
                      unstaking |-> IF s = "unstaking" THEN 5 ELSE 0, paused |-> IF s = "paused" THEN 5 ELSE 0,
                      committees |-> IF onC THEN <<1>> ELSE <<2>>]
Init == pop \in {[i \in Names |-> Mk(i, f.st[i], f.s[i], f.on[i])] : f \in [st : [Names -> Stakes], s : [Names -> Status], on : [Names -> BOOLEAN]]}
Next == UNCHANGED pop
Spec == Init /\ [][Next]_pop
PopSet == {pop[i] : i \in Names}

Sane ==
   \A cap \in Caps :
      LET e == Expected(PopSet, 1, cap, FALSE)
          members == {e[i][1] : i \in 1..Len(e)}
          elig == Eligible(PopSet, 1, FALSE)
          total == SumPower(e, 1)
      IN /\ (cap # 0 => Len(e) <= cap)
         /\ Len(e) = (IF cap = 0 \/ cap > Cardinality(elig) THEN Cardinality(elig) ELSE cap)
         /\ Cardinality(members) = Len(e)                                  \* duplicate free
         /\ \A v \in elig : v.name \notin members =>                        \* top-k: nobody left out outranks a member
               \A i \in 1..Len(e) : ~Before(v, CHOOSE w \in elig : w.name = e[i][1])
         /\ total > 0 => (3 * Maj23(total) > 2 * total /\ Maj23(total) <= total /\ 3 * (Maj23(total) - 1) <= 2 * total)
=============================================================================
