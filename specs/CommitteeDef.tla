---------------------------- MODULE CommitteeDef ----------------------------
(***************************************************************************)
(* C13: the committee (and the delegate set) of a chain as a function of   *)
(* the validator records: registered for the chain, not paused, not        *)
(* unstaking, (not) a delegate; ordered by (stake descending, address      *)
(* descending); cut at the governance maximum (0 = unlimited); voting      *)
(* power = stake; +2/3 threshold = floor(2T/3)+1.                          *)
(* A validator record is [name, stake, rank, delegate, unstaking, paused,  *)
(* committees]; rank is the position of the address in byte order.         *)
(***************************************************************************)
EXTENDS Integers, Sequences, FiniteSets, SequencesExt, TLC

Listed(v, c) == \E i \in 1..Len(v.committees) : v.committees[i] = c
Eligible(vals, c, delegates) ==
   {v \in vals : Listed(v, c) /\ v.unstaking = 0 /\ v.paused = 0 /\ v.delegate = delegates}
Before(a, b) == a.stake > b.stake \/ (a.stake = b.stake /\ a.rank > b.rank)
Ordered(vals, c, delegates) == SetToSortSeq(Eligible(vals, c, delegates), Before)
Cut(seq, cap) == IF cap = 0 \/ cap >= Len(seq) THEN seq ELSE SubSeq(seq, 1, cap)
\* the committee as a sequence of <<name, power>>
Expected(vals, c, cap, delegates) ==
   LET s == Cut(Ordered(vals, c, delegates), cap) IN [i \in 1..Len(s) |-> <<s[i].name, s[i].stake>>]
RECURSIVE SumPower(_, _)
SumPower(seq, i) == IF i > Len(seq) THEN 0 ELSE seq[i][2] + SumPower(seq, i + 1)
Maj23(total) == (2 * total) \div 3 + 1

=============================================================================
