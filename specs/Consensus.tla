------------------------------ MODULE Consensus ------------------------------
(***************************************************************************)
(* Implementation-shaped model of canopy's HotStuff-style BFT (bft/bft.go, *)
(* bft/msg.go, bft/vote.go, bft/prop.go, lib/certificate.go) for ONE chain *)
(* height.  One action per HandlePhase() critical section of an honest     *)
(* replica; the message that the handler consumes is a parameter of the    *)
(* action ("deliver m, then fire the phase timer"), which is exactly the    *)
(* grain at which the Go driver (harness/bftsim) executes and records.     *)
(*                                                                         *)
(* Byzantine validators have no state: every message they could assemble   *)
(* from what they have seen (ByzKnows) is available to every replica       *)
(* action.  The network may lose, delay, duplicate and re-order: a handler  *)
(* may consume any message sent so far, or none.                            *)
(*                                                                         *)
(* Every guard that the safety argument needs is behind a boolean CONSTANT  *)
(* G_*: TRUE = guard present (intended design).  Setting exactly one of     *)
(* them to FALSE yields the attack scripts that are replayed on real code.  *)
(***************************************************************************)
EXTENDS Integers, FiniteSets, Sequences, TLC

CONSTANTS Honest, Byz, Values, MaxRound, MaxRH, None,
          PowerOf(_),          \* voting power of a set of validators
          LeaderChoices(_, _), \* validators a replica may vote for in view (rootHeight, round): VRF candidates + fallback
          Quorum0,             \* floor(2T/3)+1
          PMNeed,              \* power needed for a pacemaker jump
          G_SafeNodeLex,       \* lock views compared by (rootHeight, round), not round only
          G_SafeNodeStrict,    \* justification must be strictly higher than the lock
          G_SafeNodeJustify,   \* the HighQC must certify the very proposal it justifies
          G_SafeNodeNeedsHQ,   \* a locked replica needs a HighQC at all
          G_LockOnPrecommit,   \* lock before the PRECOMMIT vote
          G_Quorum,            \* +2/3 threshold for every certificate
          G_QCViewBound,       \* QC inside a leader message is for the message's own round / previous phase
          G_KeepLocks,         \* locks survive a NEW_COMMITTEE reset
          G_HighQCPhase,       \* a HighQC must be a PROPOSE_VOTE certificate
          G_CommitPhase,       \* only a PRECOMMIT_VOTE certificate commits
          G_ProposerBound,     \* PRECOMMIT/COMMIT must come from the proposer adopted at PROPOSE_VOTE
          G_VoteRootHeight,    \* votes are counted only for the leader's current root height
          G_AdoptLex,          \* a HighQC offered in an ELECTION vote replaces the lock only if it is higher by (rootHeight, round)
          TrackPM              \* model pacemaker messages / round jumps (liveness configs)

VARIABLES rootH,      \* global root-chain height
          rh, rnd, ph,\* per honest node: b.RootHeight, b.Round, next phase handler
          blk,        \* b.Block/b.Results adopted this round (a value) or None
          ldr,        \* b.ProposerKey
          lock,       \* b.HighQC : a QC record or None
          committed,  \* what the node committed at this height
          votes,      \* every vote an honest node ever signed
          pmsgs,      \* every leader message an honest node ever sent
          pm,         \* pacemaker (ROUND_INTERRUPT) messages of honest nodes
          last        \* the action just taken (export only; hidden by the VIEW)

vars  == <<rootH, rh, rnd, ph, blk, ldr, lock, committed, votes, pmsgs, pm, last>>
view  == <<rootH, rh, rnd, ph, blk, ldr, lock, committed, votes, pmsgs, pm>>

Nodes  == Honest \cup Byz
Quorum == IF G_Quorum THEN Quorum0 ELSE Quorum0 - 1
RHs    == 1..MaxRH
Rnds   == 0..MaxRound
VPh    == {"EV", "PV", "PCV"}
PhRank(p) == CASE p = "EV" -> 1 [] p = "PV" -> 3 [] p = "PCV" -> 5

QC(r, k, p, v, l) == [rh |-> r, rnd |-> k, ph |-> p, val |-> v, ldr |-> l]
AllQCs == [rh : RHs, rnd : Rnds, ph : VPh, val : Values \cup {None}, ldr : Nodes]

Vote(n, r, k, p, v, l, h) == [n |-> n, rh |-> r, rnd |-> k, ph |-> p, val |-> v, ldr |-> l, hq |-> h]

\* honest signers of the payload of q
Voters(q) == {v.n : v \in {w \in votes : w.rh = q.rh /\ w.rnd = q.rnd /\ w.ph = q.ph
                                          /\ w.val = q.val /\ w.ldr = q.ldr}}
\* enough signatures exist in the world for q (Byzantine validators sign anything)
Formable(q) == PowerOf(Voters(q) \cup Byz) >= Quorum

\* certificates a Byzantine validator can exhibit: those it can aggregate itself (votes are
\* sent to the proposer named in them) and those an honest node broadcast or sent to it
ByzKnows(q) ==
   \/ q.ldr \in Byz /\ Formable(q)
   \/ \E m \in pmsgs : m.q = q \/ m.hq = q
   \/ \E v \in votes : v.ph = "EV" /\ v.ldr \in Byz /\ v.hq = q

QCofVote(v) == QC(v.rh, v.rnd, v.ph, v.val, v.ldr)
KnownQCs ==
   ({m.q : m \in pmsgs} \cup {m.hq : m \in pmsgs}
      \cup {v.hq : v \in {w \in votes : w.ph = "EV" /\ w.ldr \in Byz}}
      \cup {q \in {QCofVote(v) : v \in {w \in votes : w.ldr \in Byz}} : Formable(q)}) \ {None}

\* View.Less on (rootHeight, round, phase) -- height is constant in this model
Less(a, b) == \/ a.rh < b.rh
              \/ a.rh = b.rh /\ a.rnd < b.rnd
              \/ a.rh = b.rh /\ a.rnd = b.rnd /\ PhRank(a.ph) < PhRank(b.ph)

\* SafeNode "LIVENESS" comparison
Higher(a, b) ==
   IF G_SafeNodeLex
   THEN IF G_SafeNodeStrict THEN a.rh > b.rh \/ (a.rh = b.rh /\ a.rnd > b.rnd)
                            ELSE a.rh > b.rh \/ (a.rh = b.rh /\ a.rnd >= b.rnd)
   ELSE IF G_SafeNodeStrict THEN a.rnd > b.rnd ELSE a.rnd >= b.rnd

\* CheckHighQC: a full certificate (genuine: it was built from real signatures) of the right phase
HQOK(q) == q.val \in Values /\ (G_HighQCPhase => q.ph = "PV")

\* leader messages a Byzantine validator can send right now
\* (restricted to the round r the receiving replica looks at, and to well-formed payloads)
ByzMsgsP(K, r) ==
   {m \in [from : Byz, rnd : {r}, ph : {"P"}, q : K, val : Values,
           hq : {h \in K : h.val \in Values} \cup {None}] :
        /\ m.q.ldr = m.from
        /\ (m.q.ph = "EV" => m.q.val = None) /\ (m.q.ph # "EV" => m.q.val = m.val)}
ByzMsgsQ(K, r, p) ==
   {m \in [from : Byz, rnd : {r}, ph : {p}, q : {k \in K : k.val \in Values}, val : Values, hq : {None}] :
        m.q.val = m.val}

MsgsP(n) == {m \in pmsgs : m.ph = "P" /\ m.rnd = rnd[n]} \cup ByzMsgsP(KnownQCs, rnd[n])
MsgsQ(n, p) == {m \in pmsgs : m.ph = p /\ m.rnd = rnd[n]} \cup ByzMsgsQ(KnownQCs, rnd[n], p)

ViewBound(m, qph) == G_QCViewBound => (m.q.rnd = m.rnd /\ m.q.ph = qph)

-----------------------------------------------------------------------------
Init ==
   /\ rootH = 1
   /\ rh = [n \in Honest |-> 1]
   /\ rnd = [n \in Honest |-> 0]
   /\ ph = [n \in Honest |-> "EV"]
   /\ blk = [n \in Honest |-> None]
   /\ ldr = [n \in Honest |-> None]
   /\ lock = [n \in Honest |-> None]
   /\ committed = [n \in Honest |-> None]
   /\ votes = {}
   /\ pmsgs = {}
   /\ pm = {}
   /\ last = [a |-> "Init"]

Interrupt(n) ==
   /\ ph' = [ph EXCEPT ![n] = "PM"]
   /\ pm' = IF TrackPM THEN pm \cup {[n |-> n, rh |-> rh[n], rnd |-> rnd[n]]} ELSE pm

\* phase bookkeeping: handlers that do nothing for a non-leader (PROPOSE, PRECOMMIT, COMMIT)
\* are merged into the following replica handler, so "P" also enables ProposeVote, etc.
AtPV(n)  == ph[n] = "PV" \/ ph[n] = "P"
AtPCV(n) == ph[n] = "PCV" \/ (ph[n] = "PC" /\ ldr[n] # n)
AtCP(n)  == ph[n] = "CP" \/ (ph[n] = "C" /\ ldr[n] # n)

\* StartElectionPhase + StartElectionVotePhase: vote for leader l, forwarding the lock
ElectionVote(n, l) ==
   /\ ph[n] = "EV"
   /\ votes' = votes \cup {Vote(n, rh[n], rnd[n], "EV", None, l, lock[n])}
   /\ ph' = [ph EXCEPT ![n] = "P"]
   /\ last' = [a |-> "ElectionVote", n |-> n, l |-> l]
   /\ UNCHANGED <<rootH, rh, rnd, blk, ldr, lock, committed, pmsgs, pm>>

\* the highest of a set of certificates under View.Less (or cur)
MaxLock(cur, S) ==
   IF S = {} THEN cur
   ELSE LET top == CHOOSE q \in S : \A o \in S : o = q \/ ~Less(q, o)
        IN IF cur = None \/ Less(cur, top) THEN top ELSE cur

\* certificates that somebody can put into an ELECTION vote addressed to n
OfferedLocks(n) ==
   {q \in KnownQCs \cup {v.hq : v \in {w \in votes : w.ph = "EV" /\ w.ldr = n /\ w.rh = rh[n] /\ w.hq # None}} :
        HQOK(q)}

\* HandleMessage(ELECTION_VOTE carrying HighQc), at any time: the lock is replaced by a higher
\* certificate and b.Block / b.Results are overwritten with the (empty) payload of the vote
\* the weakened rule: "a newer committee OR a later round" (rounds restart at 0 on a NEW_COMMITTEE reset while locks are kept)
AdoptOK(cur, q) == IF cur = None THEN TRUE ELSE IF G_AdoptLex THEN Less(cur, q) ELSE (q.rh > cur.rh \/ q.rnd > cur.rnd)
AdoptLock(n, q) ==
   /\ ph[n] # "DONE"
   /\ q \in OfferedLocks(n)
   /\ AdoptOK(lock[n], q)
   /\ lock' = [lock EXCEPT ![n] = q]
   /\ blk' = [blk EXCEPT ![n] = None]
   /\ last' = [a |-> "AdoptLock", n |-> n, q |-> q]
   /\ UNCHANGED <<rootH, rh, rnd, ph, ldr, committed, votes, pmsgs, pm>>

EVotesFor(n) == {w \in votes : w.ph = "EV" /\ w.ldr = n /\ w.rh = rh[n] /\ w.rnd = rnd[n]}

\* StartProposePhase with +2/3 ELECTION votes: S = the validators whose votes were delivered
Propose(n, S, fresh) ==
   /\ ph[n] = "P"
   /\ S \cap Honest \subseteq {v.n : v \in EVotesFor(n)}
   /\ PowerOf(S) >= Quorum
   /\ LET hqs == {v.hq : v \in {w \in EVotesFor(n) : w.n \in S /\ w.hq # None /\ HQOK(w.hq)}}
          nl  == MaxLock(lock[n], hqs)
          val == IF nl = None THEN fresh ELSE nl.val
      IN /\ lock' = [lock EXCEPT ![n] = nl]
         /\ blk' = [blk EXCEPT ![n] = val]
         /\ pmsgs' = pmsgs \cup {[from |-> n, rnd |-> rnd[n], ph |-> "P",
                                 q |-> QC(rh[n], rnd[n], "EV", None, n), val |-> val, hq |-> nl]}
   /\ ph' = [ph EXCEPT ![n] = "PV"]
   /\ last' = [a |-> "Propose", n |-> n, S |-> S, fresh |-> fresh]
   /\ UNCHANGED <<rootH, rh, rnd, ldr, committed, votes, pm>>

AcceptP(n, m) ==
   /\ m # None /\ m.ph = "P" /\ m.rnd = rnd[n] /\ m.q.rh = rh[n]
   /\ m.q.ldr = m.from
   /\ (m.q.ph = "EV" => m.q.val = None)
   /\ (m.q.ph # "EV" => m.q.val = m.val)
   /\ ViewBound(m, "EV")
   /\ (m.hq # None => HQOK(m.hq))

SafeNode(n, m) ==
   \/ lock[n] = None
   \/ /\ G_SafeNodeNeedsHQ => m.hq # None
      /\ m.hq # None =>
           /\ G_SafeNodeJustify => m.hq.val = m.val
           /\ lock[n].val = m.hq.val \/ Higher(m.hq, lock[n])

\* StartProposeVotePhase
ProposeVote(n, m) ==
   /\ AtPV(n)
   /\ IF AcceptP(n, m) /\ SafeNode(n, m)
      THEN /\ blk' = [blk EXCEPT ![n] = m.val]
           /\ ldr' = [ldr EXCEPT ![n] = m.from]
           /\ votes' = votes \cup {Vote(n, rh[n], rnd[n], "PV", m.val, m.from, None)}
           /\ ph' = [ph EXCEPT ![n] = "PC"]
           /\ pm' = pm
      ELSE /\ ldr' = [ldr EXCEPT ![n] = IF AcceptP(n, m) THEN m.from ELSE ldr[n]]
           /\ Interrupt(n)
           /\ UNCHANGED <<blk, votes>>
   /\ last' = [a |-> "ProposeVote", n |-> n, m |-> m]
   /\ UNCHANGED <<rootH, rh, rnd, lock, committed, pmsgs>>

\* a leader counts the votes delivered to it: S = whose votes arrived
HasVotes(n, S, p) ==
   S \cap Honest \subseteq {v.n : v \in {w \in votes : w.ph = p /\ w.ldr = n /\ w.val = blk[n] /\ w.rnd = rnd[n]
                                                      /\ (G_VoteRootHeight => w.rh = rh[n])}}

\* StartPrecommitPhase / StartCommitPhase of the leader
LeaderStep(n, S, at, vph, mph, next, name) ==
   /\ ph[n] = at /\ ldr[n] = n
   /\ HasVotes(n, S, vph)
   /\ IF PowerOf(S) >= Quorum /\ blk[n] # None
      THEN /\ pmsgs' = pmsgs \cup {[from |-> n, rnd |-> rnd[n], ph |-> mph,
                                   q |-> QC(rh[n], rnd[n], vph, blk[n], n), val |-> blk[n], hq |-> None]}
           /\ ph' = [ph EXCEPT ![n] = next]
           /\ pm' = pm
      ELSE Interrupt(n) /\ pmsgs' = pmsgs
   /\ last' = [a |-> name, n |-> n, S |-> S]
   /\ UNCHANGED <<rootH, rh, rnd, blk, ldr, lock, committed, votes>>

Precommit(n, S) == LeaderStep(n, S, "PC", "PV", "PC", "PCV", "Precommit")
Commit(n, S)    == LeaderStep(n, S, "C", "PCV", "C", "CP", "Commit")

AcceptQ(n, m, mph, qph) ==
   /\ m # None /\ m.ph = mph /\ m.rnd = rnd[n] /\ m.q.rh = rh[n]
   /\ blk[n] # None /\ m.q.val = blk[n] /\ m.q.ph # "EV"
   /\ ViewBound(m, qph)
   /\ G_ProposerBound => m.from = ldr[n]

\* StartPrecommitVotePhase: lock, then vote
PrecommitVote(n, m) ==
   /\ AtPCV(n)
   /\ IF AcceptQ(n, m, "PC", "PV")
      THEN /\ lock' = [lock EXCEPT ![n] = IF G_LockOnPrecommit THEN m.q ELSE lock[n]]
           /\ votes' = votes \cup {Vote(n, rh[n], rnd[n], "PCV", blk[n], ldr[n], None)}
           /\ ph' = [ph EXCEPT ![n] = "C"]
           /\ pm' = pm
      ELSE Interrupt(n) /\ UNCHANGED <<lock, votes>>
   /\ last' = [a |-> "PrecommitVote", n |-> n, m |-> m]
   /\ UNCHANGED <<rootH, rh, rnd, blk, ldr, committed, pmsgs>>

\* the certificate gate of HandlePeerBlock (property C02), as far as consensus needs it
Gate(q) == q.val \in Values /\ (G_CommitPhase => q.ph = "PCV")

\* StartCommitProcessPhase -> SelfSendBlock -> HandlePeerBlock
CommitProcess(n, m) ==
   /\ AtCP(n)
   /\ IF AcceptQ(n, m, "C", "PCV")
      THEN /\ committed' = [committed EXCEPT ![n] =
                               IF Gate(m.q) /\ committed[n] = None THEN m.q.val ELSE committed[n]]
           /\ ph' = [ph EXCEPT ![n] = "DONE"]
           /\ pm' = pm
      ELSE Interrupt(n) /\ UNCHANGED committed
   /\ last' = [a |-> "CommitProcess", n |-> n, m |-> m]
   /\ UNCHANGED <<rootH, rh, rnd, blk, ldr, lock, votes, pmsgs>>

\* certificates that can reach n attached to a gossiped block
Gossipable == {q \in KnownQCs \cup {m.q : m \in {x \in pmsgs : x.ph = "C"}} : Gate(q)}

\* a block with its certificate reaches n by gossip (GossipBlock -> HandlePeerBlock)
GossipCommit(n, q) ==
   /\ committed[n] = None
   /\ q \in Gossipable
   /\ committed' = [committed EXCEPT ![n] = q.val]
   /\ ph' = [ph EXCEPT ![n] = "DONE"]
   /\ last' = [a |-> "GossipCommit", n |-> n, q |-> q]
   /\ UNCHANGED <<rootH, rh, rnd, blk, ldr, lock, votes, pmsgs, pm>>

\* power of the validators that claim (by pacemaker message) to be at round >= r
PMSupport(n, r) == PowerOf(Byz \cup {x.n : x \in {y \in pm : y.rh = rh[n] /\ y.rnd >= r}})

\* ROUND_INTERRUPT time-out + Pacemaker(): next round, or jump to a round backed by > 1/3
Pacemaker(n, r) ==
   /\ ph[n] = "PM"
   /\ r > rnd[n]
   /\ IF r = rnd[n] + 1 THEN TRUE ELSE TrackPM /\ PMSupport(n, r) >= PMNeed
   /\ rnd' = [rnd EXCEPT ![n] = r]
   /\ blk' = [blk EXCEPT ![n] = None]
   /\ ldr' = [ldr EXCEPT ![n] = None]
   /\ ph' = [ph EXCEPT ![n] = "EV"]
   /\ last' = [a |-> "Pacemaker", n |-> n, r |-> r]
   /\ UNCHANGED <<rootH, rh, lock, committed, votes, pmsgs, pm>>

RootBump ==
   /\ rootH < MaxRH
   /\ rootH' = rootH + 1
   /\ last' = [a |-> "RootBump"]
   /\ UNCHANGED <<rh, rnd, ph, blk, ldr, lock, committed, votes, pmsgs, pm>>

\* ResetBFT(IsRootChainUpdate) -> NewHeight(true)
Reset(n) ==
   /\ rh[n] < rootH /\ ph[n] # "DONE"
   /\ rh' = [rh EXCEPT ![n] = rootH]
   /\ rnd' = [rnd EXCEPT ![n] = 0]
   /\ ph' = [ph EXCEPT ![n] = "EV"]
   /\ blk' = [blk EXCEPT ![n] = None]
   /\ ldr' = [ldr EXCEPT ![n] = None]
   /\ lock' = [lock EXCEPT ![n] = IF G_KeepLocks THEN lock[n] ELSE None]
   /\ last' = [a |-> "Reset", n |-> n]
   /\ UNCHANGED <<rootH, committed, votes, pmsgs, pm>>

NodeNext(n) ==
   \/ ph[n] = "EV" /\ \E l \in LeaderChoices(rh[n], rnd[n]) : ElectionVote(n, l)
   \/ ph[n] = "P" /\ \E S \in SUBSET Nodes, f \in Values : Propose(n, S, f)
   \/ AtPV(n) /\ \E m \in MsgsP(n) \cup {None} : ProposeVote(n, m)
   \/ ph[n] = "PC" /\ ldr[n] = n /\ \E S \in SUBSET Nodes : Precommit(n, S)
   \/ AtPCV(n) /\ \E m \in MsgsQ(n, "PC") \cup {None} : PrecommitVote(n, m)
   \/ ph[n] = "C" /\ ldr[n] = n /\ \E S \in SUBSET Nodes : Commit(n, S)
   \/ AtCP(n) /\ \E m \in MsgsQ(n, "C") \cup {None} : CommitProcess(n, m)
   \/ ph[n] # "DONE" /\ \E q \in OfferedLocks(n) : AdoptLock(n, q)
   \/ committed[n] = None /\ \E q \in Gossipable : GossipCommit(n, q)
   \/ ph[n] = "PM" /\ \E r \in Rnds : Pacemaker(n, r)
   \/ Reset(n)

Next == (\E n \in Honest : NodeNext(n)) \/ RootBump

Spec == Init /\ [][Next]_vars

-----------------------------------------------------------------------------
\* C01
Agreement == \A a, b \in Honest :
                committed[a] # None /\ committed[b] # None => committed[a] = committed[b]

LockHasQC   == \A n \in Honest : lock[n] # None => Formable(lock[n])
CommitHasQC == \A n \in Honest : committed[n] # None =>
                  \E q \in AllQCs : q.val = committed[n] /\ q.ph = "PCV" /\ Formable(q)
VoteOnce    == \A v, w \in votes : (v.n = w.n /\ v.rh = w.rh /\ v.rnd = w.rnd /\ v.ph = w.ph) => v = w

TypeOK ==
   /\ rootH \in RHs
   /\ \A n \in Honest : rh[n] \in RHs /\ rnd[n] \in Rnds /\ rh[n] <= rootH
=============================================================================
