--------------------------- MODULE ConsensusTrace ---------------------------
(***************************************************************************)
(* Trace validation for Consensus.tla.  trace.ndjson is written by         *)
(* harness/bftsim: one line per executed spec action with its parameters   *)
(* and the projection of every REAL honest bft.BFT onto the spec variables *)
(* after the step.  A line is consumed iff the spec action with exactly    *)
(* those parameters is enabled and leads to exactly the recorded state;    *)
(* the invariants of Consensus (Agreement ...) are thereby evaluated on    *)
(* the recorded real states.  Many runs are concatenated: a line with      *)
(* i = 0 re-initialises.                                                   *)
(***************************************************************************)
EXTENDS Consensus, Json

CONSTANT CheckState   \* TRUE: lines carry recorded real states; FALSE: a bare action script

VARIABLE l
tvars == <<vars, l>>

Trace == ndJsonDeserialize("trace.ndjson")

MCPowerOf(S) == Cardinality(S)
AnyLeader(r, k) == Nodes

Opt(x)   == IF x = "" THEN None ELSE x
QCofJ(j) == IF j.some THEN [rh |-> j.rh, rnd |-> j.rnd, ph |-> j.ph, val |-> Opt(j.val), ldr |-> j.ldr] ELSE None
MsgOfJ(j) == IF j.some THEN [from |-> j.from, rnd |-> j.rnd, ph |-> j.ph, q |-> QCofJ(j.q), val |-> j.val, hq |-> QCofJ(j.hq)]
             ELSE None
SetOf(s) == {s[i] : i \in DOMAIN s}

\* the recorded real state equals the (primed) spec state
Matches(st, rootHlogged) ==
   /\ rootH' = rootHlogged
   /\ \A n \in Honest :
        /\ rh'[n] = st[n].rh
        /\ rnd'[n] = st[n].rnd
        /\ ph'[n] = st[n].ph
        /\ blk'[n] = Opt(st[n].blk)
        /\ ldr'[n] = Opt(st[n].ldr)
        /\ lock'[n] = QCofJ(st[n].lock)
        /\ committed'[n] = Opt(st[n].committed)

\* A Byzantine validator can SEND anything, e.g. a leader message around a certificate that does not exist
\* (too few genuine signatures).  The receiver drops it at delivery, which for the phase handler is the same
\* as no message: such a message is replaced by None.  Likewise a gossiped block / offered lock that the
\* receiver's gate refuses is a step that changes nothing.
EffP(a)  == LET m == MsgOfJ(a.m) IN IF m \in MsgsP(a.n) THEN m ELSE None
EffQ(a, p) == LET m == MsgOfJ(a.m) IN IF m \in MsgsQ(a.n, p) THEN m ELSE None
Refused == UNCHANGED <<rootH, rh, rnd, ph, blk, ldr, lock, committed, votes, pmsgs, pm>> /\ last' = [a |-> "Refused"]

Act(a) ==
   CASE a.a = "ElectionVote"  -> ElectionVote(a.n, a.l)
     [] a.a = "Propose"       -> Propose(a.n, SetOf(a.S), a.fresh)
     [] a.a = "ProposeVote"   -> ProposeVote(a.n, EffP(a))
     [] a.a = "Precommit"     -> Precommit(a.n, SetOf(a.S))
     [] a.a = "PrecommitVote" -> PrecommitVote(a.n, EffQ(a, "PC"))
     [] a.a = "Commit"        -> Commit(a.n, SetOf(a.S))
     [] a.a = "CommitProcess" -> CommitProcess(a.n, EffQ(a, "C"))
     [] a.a = "AdoptLock"     -> IF QCofJ(a.q) \in OfferedLocks(a.n) /\ AdoptOK(lock[a.n], QCofJ(a.q))
                                 THEN AdoptLock(a.n, QCofJ(a.q)) ELSE Refused
     [] a.a = "GossipCommit"  -> IF QCofJ(a.q) \in Gossipable /\ committed[a.n] = None THEN GossipCommit(a.n, QCofJ(a.q)) ELSE Refused
     [] a.a = "Pacemaker"     -> Pacemaker(a.n, a.r)
     [] a.a = "Reset"         -> Reset(a.n)
     [] a.a = "RootBump"      -> RootBump
     [] OTHER                 -> FALSE

MsgExists(a) == TRUE

ReInit ==
   /\ rootH' = 1
   /\ rh' = [n \in Honest |-> 1]
   /\ rnd' = [n \in Honest |-> 0]
   /\ ph' = [n \in Honest |-> "EV"]
   /\ blk' = [n \in Honest |-> None]
   /\ ldr' = [n \in Honest |-> None]
   /\ lock' = [n \in Honest |-> None]
   /\ committed' = [n \in Honest |-> None]
   /\ votes' = {} /\ pmsgs' = {} /\ pm' = {}
   /\ last' = [a |-> "Init"]

TraceInit == Init /\ l = 1 /\ TLCSet(1, 0)

TraceNext ==
   /\ l <= Len(Trace)
   /\ l' = l + 1
   /\ LET rec == Trace[l] IN
        IF rec.a.a = "Start" THEN ReInit
        ELSE IF rec.a.a \in {"End", "Abort"} \/ (rec.end /\ rec.err # "") THEN UNCHANGED vars
        ELSE MsgExists(rec.a) /\ Act(rec.a) /\ (CheckState => Matches(rec.st, rec.rootH))
   /\ TLCSet(1, l)

TraceSpec == TraceInit /\ [][TraceNext]_tvars

\* every line consumed
TraceAccepted == TLCGet(1) = Len(Trace)
\* report where validation stopped
TraceProgress == TLCGet(1)

\* C01 on the recorded real states
RealAgreement == Agreement
=============================================================================
