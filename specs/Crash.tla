-------------------------------- MODULE Crash --------------------------------
(***************************************************************************)
(* C09: block commit against a write-ahead log.  The node's persistent     *)
(* components (latest state, historical state, commitment tree, block /    *)
(* certificate index, commit pointer) are all updated by log records; a    *)
(* record is applied atomically; a crash keeps a PREFIX of the records     *)
(* (unsynced tail lost).  With G_SingleBatch the whole block is ONE        *)
(* record; without it the commit pointer is written (and synced) as a      *)
(* record of its own before the rest.                                      *)
(***************************************************************************)
EXTENDS Integers, Sequences, FiniteSets, TLC
CONSTANTS MaxHeight, G_SingleBatch
Components == {"state", "history", "tree", "index", "pointer"}
VARIABLES log,        \* sequence of records; a record maps some components to a height
          committed,  \* heights whose Commit() returned
          crashedAt   \* number of records that survived the last crash (-1 = running)
vars == <<log, committed, crashedAt>>

Init == log = << >> /\ committed = {0} /\ crashedAt = -1
Rec(cs, h) == [c \in cs |-> h]
Commit(h) ==
   /\ crashedAt = -1 /\ h = Cardinality(committed) /\ h <= MaxHeight
   /\ log' = IF G_SingleBatch THEN Append(log, Rec(Components, h))
             ELSE log \o <<Rec({"pointer"}, h), Rec(Components \ {"pointer"}, h)>>
   /\ committed' = committed \cup {h}
   /\ UNCHANGED crashedAt
Crash(n) == crashedAt = -1 /\ n \in 0..Len(log) /\ crashedAt' = n /\ UNCHANGED <<log, committed>>
Next == (\E h \in 1..MaxHeight : Commit(h)) \/ (\E n \in 0..Len(log) : Crash(n))
Spec == Init /\ [][Next]_vars

\* what a component shows after re-opening on the surviving prefix
RECURSIVE Last(_, _, _)
Last(c, n, dflt) == IF n = 0 THEN dflt ELSE IF c \in DOMAIN log[n] THEN log[n][c] ELSE Last(c, n - 1, dflt)
Reopened(c) == Last(c, crashedAt, 0)
\* all components reflect one height, and that height had been committed (or was being committed)
Consistent == crashedAt >= 0 =>
   /\ \A c, d \in Components : Reopened(c) = Reopened(d)
   /\ Reopened("pointer") \in committed
=============================================================================
