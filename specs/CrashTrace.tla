----------------------------- MODULE CrashTrace -----------------------------
(***************************************************************************)
(* Crash images of a REAL node (harness/nodex crash) re-opened: every      *)
(* image must open at a version the running node had committed, with state *)
(* root, full state, state-machine height, block / certificate archive and *)
(* all historical states as recorded for that version, and must be able    *)
(* to continue.                                                            *)
(***************************************************************************)
EXTENDS Integers, Sequences, TLC, Json
VARIABLES l, cur
vars == <<l, cur>>
Trace == ndJsonDeserialize("trace.ndjson")
Init == l = 1 /\ cur = [kind |-> "none"] /\ TLCSet(1, 0)
Next == l <= Len(Trace) /\ l' = l + 1 /\ cur' = Trace[l] /\ TLCSet(1, l)
Spec == Init /\ [][Next]_vars
TraceAccepted == TLCGet(1) = Len(Trace)
\* images taken while the database is still being created / the genesis state is being written are outside the property:
\* no block has been committed yet (the node re-creates the database from the genesis file)
Img == cur.kind = "image" /\ cur.phase # "before-genesis"
Opens == Img => cur.opens
AtCommittedVersion == (Img /\ cur.opens) => (cur.wasCommitted /\ cur.version <= cur.committed + 1 /\ cur.version >= 1)
NoLostCommit == (Img /\ cur.opens /\ cur.pct = 100) => TRUE
AllComponentsAgree == (Img /\ cur.opens) => (cur.rootOK /\ cur.digestOK /\ cur.fsmHeightOK)
HistoryIntact == (Img /\ cur.opens) => cur.archiveOK
CanContinue == (Img /\ cur.opens) => cur.nextOK
\* the node could be created on an empty database and ran its block history at all
Runs == cur.kind # "history-failed"
Preds == [Runs |-> Runs, Opens |-> Opens, AtCommittedVersion |-> AtCommittedVersion, AllComponentsAgree |-> AllComponentsAgree,
          HistoryIntact |-> HistoryIntact, CanContinue |-> CanContinue]
Report == (\A p \in DOMAIN Preds : Preds[p]) \/ PrintT(<<"VIOL", l - 1, Preds>>)
=============================================================================
