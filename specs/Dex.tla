-------------------------------- MODULE Dex --------------------------------
(***************************************************************************)
(* C20 (AMM side), fsm/dex.go: two chains exchange "locked batches".       *)
(* Each chain c keeps: balances of its own token, its liquidity pool (own  *)
(* token) with the ledger of liquidity-provider points, a holding pool for *)
(* funds of operations that have not been settled yet, a next batch        *)
(* (collecting orders / deposits / withdrawals) and a locked batch (sent   *)
(* to the other chain).  Deliver(c) is HandleRemoteDexBatch on chain c for *)
(* the other chain's locked batch as chain c last saw it (seen[c]):        *)
(*   1. receipts for our locked batch (orders settle or are refunded, then *)
(*      our withdrawals, then our deposits), the locked batch is deleted;  *)
(*   2. the remote batch is executed (orders in the order `perm` against   *)
(*      x*y=k with a 1 % fee and floor rounding, withdrawals, deposits);   *)
(*   3. our next batch is locked together with the receipts.               *)
(* The operators are written to be evaluated on recorded real states too   *)
(* (DexTrace.tla), so they are functions of an explicit chain state.       *)
(***************************************************************************)
EXTENDS Integers, Sequences, FiniteSets, TLC

CONSTANTS Acct,             \* account names
          G_Fee,            \* the 1 % fee stays in the pool (FALSE: no fee, k can fall through rounding the wrong way)
          G_FloorOut,       \* amounts paid out are rounded down
          G_ClearLocked,    \* the locked batch is deleted once its receipts are applied
          G_HashMatch       \* receipts are only applied to the batch they were produced for

Dead == "dead"
Holder == Acct \cup {Dead}

\* ---- arithmetic of lib/util.go and fsm/dex.go ------------------------------------------------------------------
MulDiv(a, b, c) == IF c = 0 THEN 0 ELSE (a * b) \div c
CeilDiv(a, b) == (a + b - 1) \div b
RECURSIVE Newton(_, _, _)
Newton(n, x, y) == IF y < x THEN Newton(n, y, (y + n \div y) \div 2) ELSE x
ISqrt(n) == IF n = 0 THEN 0 ELSE Newton(n, n, (n + 1) \div 2)
SqrtProd(x, y) == ISqrt(x * y)
DY(x, y, dx) == LET inFee == IF G_Fee THEN dx * 990 ELSE dx * 1000
                    num == inFee * y
                    den == x * 1000 + inFee
                IN IF G_FloorOut THEN num \div den ELSE CeilDiv(num, den)
DepositPoints(total, x, y, amount) ==      \* liquidityDepositPoints; -1 = error
   LET oldK == SqrtProd(x, y)  newK == SqrtProd(x + amount, y)
   IN IF oldK = 0 \/ newK < oldK THEN -1 ELSE MulDiv(total, newK - oldK, oldK)

RECURSIVE SumAmt(_)
SumAmt(s) == IF s = << >> THEN 0 ELSE s[1].amt + SumAmt(Tail(s))
RECURSIVE SumFn(_, _)
SumFn(f, S) == IF S = {} THEN 0 ELSE LET e == CHOOSE e \in S : TRUE IN f[e] + SumFn(f, S \ {e})

\* ---- batches and chain states ----------------------------------------------------------------------------------
NoBatch == [orders |-> << >>, deps |-> << >>, wds |-> << >>, receipts |-> << >>, pool |-> 0, rh |-> "", id |-> ""]
IsEmpty(b) == b.rh = "" /\ b.receipts = << >> /\ b.orders = << >> /\ b.wds = << >> /\ b.deps = << >>
BatchFunds(b) == SumAmt(b.orders) + SumAmt(b.deps)

\* a chain state st: [bal, liq, pts, tot, hold, nxt, lck]; ctx carries the two reserves through a batch and the checks
Ctx(st, x, y) == [st |-> st, x |-> x, y |-> y, err |-> FALSE, kok |-> TRUE, wok |-> TRUE]

\* receipts for our own locked orders: x = our pool, y = mirror of the counter pool          (HandleOrderReceipts)
RECURSIVE Receipts(_, _, _)
Receipts(c, orders, rcpts) ==
   IF orders = << >> \/ c.err THEN c
   ELSE LET o == orders[1]  dY == rcpts[1]
            st1 == [c.st EXCEPT !.hold = @ - o.amt]
        IN IF dY # 0
           THEN IF c.y <= dY THEN [c EXCEPT !.err = TRUE]
                ELSE Receipts([c EXCEPT !.st = [st1 EXCEPT !.liq = @ + o.amt], !.x = @ + o.amt, !.y = @ - dY], Tail(orders), Tail(rcpts))
           ELSE Receipts([c EXCEPT !.st = [st1 EXCEPT !.bal[o.a] = @ + o.amt]], Tail(orders), Tail(rcpts))

\* withdrawals of a batch; local: x = our pool (paid in x), else y = our pool (paid in y)      (handleBatchWithdraw)
RECURSIVE WdTotal(_, _)
WdTotal(pts, wds) == IF wds = << >> THEN 0 ELSE MulDiv(pts[wds[1].a], wds[1].pct, 100) + WdTotal(pts, Tail(wds))
RECURSIVE WdLoop(_, _, _, _, _, _, _, _)
WdLoop(c, wds, totY, totX, totRemove, paid, local, tot0) ==     \* paid = <<paidX, paidY>>
   IF wds = << >> THEN <<c, paid>>
   ELSE LET w == wds[1]
            points == MulDiv(c.st.pts[w.a], w.pct, 100)
            yS == MulDiv(totY, points, totRemove)
            xS == MulDiv(totX, points, totRemove)
            pay == IF local THEN xS ELSE yS
            reserve == IF local THEN c.x ELSE c.y
            fair == pay <= MulDiv(reserve, points, tot0)      \* never more than the provider's share
            st1 == [c.st EXCEPT !.tot = @ - points, !.pts[w.a] = @ - points, !.bal[w.a] = @ + pay]
        IN WdLoop([c EXCEPT !.st = st1, !.wok = @ /\ fair], Tail(wds), totY, totX, totRemove, <<paid[1] + xS, paid[2] + yS>>, local, tot0)
Withdraws(c, wds0, local) ==
   LET wds == SelectSeq(wds0, LAMBDA w : c.st.pts[w.a] > 0)      \* unknown holders are skipped
       totRemove == WdTotal(c.st.pts, wds)
   IN IF wds = << >> \/ c.err \/ totRemove = 0 \/ c.st.tot = 0 THEN c
      ELSE LET totY == MulDiv(c.y, totRemove, c.st.tot)
               totX == MulDiv(c.x, totRemove, c.st.tot)
               r == WdLoop(c, wds, totY, totX, totRemove, <<0, 0>>, local, c.st.tot)
               c1 == r[1]
               x1 == c.x - r[2][1]   y1 == c.y - r[2][2]
           IN IF c1.st.tot = 0 THEN [c1 EXCEPT !.err = TRUE]
              ELSE [c1 EXCEPT !.x = x1, !.y = y1, !.st.liq = IF local THEN x1 ELSE y1]

\* deposits of a batch; x is the reserve the deposits are made in                                   (handleBatchDeposit)
RECURSIVE DepLoop(_, _, _, _, _, _)
DepLoop(c, deps, totalDL, total, distributed, local) ==
   IF deps = << >> THEN <<c, distributed>>
   ELSE LET d == deps[1]
            share == MulDiv(totalDL, d.amt, total)
            st1 == [c.st EXCEPT !.pts[d.a] = @ + share, !.tot = @ + share]
            st2 == IF local THEN [st1 EXCEPT !.hold = @ - d.amt, !.liq = @ + d.amt] ELSE st1
        IN DepLoop([c EXCEPT !.st = st2, !.x = @ + d.amt], Tail(deps), totalDL, total, distributed + share, local)
Deposits(c, deps, local) ==
   LET total == SumAmt(deps) IN
   IF deps = << >> \/ c.err \/ total = 0 \/ c.x = 0 \/ c.y = 0 THEN c
   ELSE LET L0 == c.st.tot
            L == IF L0 = 0 THEN SqrtProd(c.x, c.y) ELSE L0
            c0 == IF L0 = 0 THEN [c EXCEPT !.st.pts[Dead] = @ + L, !.st.tot = @ + L] ELSE c
            totalDL == DepositPoints(L, c.x, c.y, total)
        IN IF totalDL < 0 THEN [c EXCEPT !.err = TRUE]
           ELSE LET r == DepLoop(c0, deps, totalDL, total, 0, local)
                    rest == totalDL - r[2]
                IN [r[1] EXCEPT !.st.pts[Dead] = @ + rest, !.st.tot = @ + rest]

\* orders of the remote batch, executed in the order perm: x = mirror of the counter pool, y = our pool  (HandleDexBatchOrders)
RECURSIVE Swaps(_, _, _, _)
Swaps(c, orders, perm, out) ==        \* out: index -> amount paid
   IF perm = << >> THEN <<c, out>>
   ELSE LET i == perm[1]  o == orders[i]
            d0 == DY(c.x, c.y, o.amt)
            dY == IF d0 < o.req THEN 0 ELSE d0
            kfine == dY < c.y /\ (c.x + o.amt) * (c.y - dY) >= c.x * c.y
        IN IF dY = 0 THEN Swaps(c, orders, Tail(perm), out)
           ELSE Swaps([c EXCEPT !.x = @ + o.amt, !.y = @ - dY, !.kok = @ /\ kfine], orders, Tail(perm), [out EXCEPT ![i] = dY])
RECURSIVE Payouts(_, _, _, _)
Payouts(st, orders, out, i) ==
   IF i > Len(orders) THEN st
   ELSE Payouts(IF out[i] = 0 THEN st ELSE [st EXCEPT !.liq = @ - out[i], !.bal[orders[i].a] = @ + out[i]], orders, out, i + 1)

\* HandleRemoteDexBatch on chain state st for the remote locked batch rb; newId names the batch that gets locked
Handle(st, rb, perm, newId) ==
   LET none == [st |-> st, err |-> FALSE, kok |-> TRUE, wok |-> TRUE, waited |-> FALSE]
       process == ~IsEmpty(rb)
       ours == st.lck
       mismatch == ~IsEmpty(ours) /\ ((G_HashMatch /\ rb.rh # ours.id) \/ Len(ours.orders) # Len(rb.receipts))
   IN IF st.liq = 0 THEN none
      ELSE IF process /\ mismatch THEN [none EXCEPT !.waited = TRUE]
      ELSE LET \* 1. receipts for our locked batch
               c1 == IF process /\ ~IsEmpty(ours)
                     THEN LET a == Receipts(Ctx(st, st.liq, rb.pool), ours.orders, rb.receipts)
                              b == Withdraws(a, ours.wds, TRUE)
                              d == Deposits(b, ours.deps, TRUE)
                          IN [d EXCEPT !.st.lck = IF G_ClearLocked THEN NoBatch ELSE @]
                     ELSE Ctx(st, st.liq, rb.pool)
               mid == c1.st.liq
               \* 2. the remote batch: x = counter mirror, y = our pool
               c2 == IF process
                     THEN LET s0 == [c1 EXCEPT !.x = c1.y, !.y = c1.st.liq]
                              zero == [i \in 1..Len(rb.orders) |-> 0]
                              sw == IF s0.x = 0 \/ s0.y = 0 THEN <<[s0 EXCEPT !.err = TRUE], zero>> ELSE Swaps(s0, rb.orders, perm, zero)
                              paid == [sw[1] EXCEPT !.st = Payouts(@, rb.orders, sw[2], 1)]
                              w == Withdraws(paid, rb.wds, FALSE)
                              d == Deposits(w, rb.deps, FALSE)
                          IN <<d, sw[2]>>
                     ELSE <<c1, << >>>>
               st2 == c2[1].st
               \* 3. rotate
               st3 == IF IsEmpty(st2.lck)
                      THEN [st2 EXCEPT !.lck = [st2.nxt EXCEPT !.pool = mid, !.rh = IF rb.id = "" THEN "empty" ELSE rb.id, !.id = newId, !.receipts = c2[2]], !.nxt = NoBatch]
                      ELSE st2
           IN IF c2[1].err THEN [none EXCEPT !.err = TRUE]
              ELSE [st |-> st3, err |-> FALSE, kok |-> c2[1].kok, wok |-> c2[1].wok, waited |-> FALSE]

\* liveness fallback (HandleLivenessFallback, then the ordinary handling): our locked batch has been waiting too long; its
\* orders and deposits are refunded out of the holding pool, the points ledger is replaced by the remote chain's, the locked
\* batch is dropped, and the remote batch is handled as usual
RECURSIVE Refund(_, _)
Refund(st, items) == IF items = << >> THEN st
                     ELSE Refund([st EXCEPT !.hold = @ - items[1].amt, !.bal[items[1].a] = @ + items[1].amt], Tail(items))
HandleFallback(st, rb, perm, newId, rpts, rtot) ==
   LET refunded == Refund(Refund(st, st.lck.orders), st.lck.deps)
       st1 == [refunded EXCEPT !.pts = rpts, !.tot = rtot, !.lck = NoBatch]
   IN Handle(st1, rb, perm, newId)

\* ---- the two-chain system ----------------------------------------------------------------------------------------
CONSTANTS Chains, Amounts, Pcts, MaxOps, MaxRot, Liq0, Bal0, EnableFallback
VARIABLES S,        \* chain -> chain state
          seen,     \* chain -> the other chain's locked batch as last seen
          ops, nid, flags, last
vars == <<S, seen, ops, nid, flags, last>>
view == <<S, seen, ops, nid, flags>>
Other(c) == CHOOSE o \in Chains : o # c

InitState == [bal |-> [a \in Acct |-> Bal0], liq |-> Liq0, pts |-> [h \in Holder |-> IF h = Dead THEN Liq0 ELSE 0], tot |-> Liq0,
              hold |-> 0, nxt |-> NoBatch, lck |-> NoBatch]
Init == /\ S = [c \in Chains |-> InitState] /\ seen = [c \in Chains |-> NoBatch] /\ ops = 0 /\ nid = 0
        /\ flags = [kok |-> TRUE, wok |-> TRUE] /\ last = [a |-> "init"]

\* the view a chain has of the other's locked batch: the stored pool size, or the current pool when nothing is locked
Visible(o) == IF IsEmpty(S[o].lck) THEN [NoBatch EXCEPT !.pool = S[o].liq] ELSE S[o].lck

Order(c, a, amt, req) ==
   /\ ops < MaxOps /\ S[c].bal[a] >= amt /\ S[c].liq > 0
   /\ S' = [S EXCEPT ![c].bal[a] = @ - amt, ![c].hold = @ + amt, ![c].nxt.orders = Append(@, [a |-> a, amt |-> amt, req |-> req])]
   /\ ops' = ops + 1 /\ last' = [a |-> "order", c |-> c] /\ UNCHANGED <<seen, nid, flags>>
Deposit(c, a, amt) ==
   /\ ops < MaxOps /\ S[c].bal[a] >= amt /\ S[c].liq > 0
   /\ S' = [S EXCEPT ![c].bal[a] = @ - amt, ![c].hold = @ + amt, ![c].nxt.deps = Append(@, [a |-> a, amt |-> amt])]
   /\ ops' = ops + 1 /\ last' = [a |-> "deposit", c |-> c] /\ UNCHANGED <<seen, nid, flags>>
Withdraw(c, a, pct) ==
   /\ ops < MaxOps /\ S[c].pts[a] > 0
   /\ S' = [S EXCEPT ![c].nxt.wds = Append(@, [a |-> a, pct |-> pct])]
   /\ ops' = ops + 1 /\ last' = [a |-> "withdraw", c |-> c] /\ UNCHANGED <<seen, nid, flags>>
Sync(c) == /\ seen[c] # Visible(Other(c)) /\ seen' = [seen EXCEPT ![c] = Visible(Other(c))]
           /\ last' = [a |-> "sync", c |-> c] /\ UNCHANGED <<S, ops, nid, flags>>
Perms(n) == {p \in [1..n -> 1..n] : \A i, j \in 1..n : i # j => p[i] # p[j]}
Deliver(c, perm) ==
   LET r == Handle(S[c], seen[c], perm, ToString(nid + 1)) IN
   /\ nid < MaxRot /\ ~r.err /\ ~r.waited /\ r.st # S[c]
   /\ S' = [S EXCEPT ![c] = r.st] /\ nid' = nid + 1
   /\ flags' = [kok |-> flags.kok /\ r.kok, wok |-> flags.wok /\ r.wok]
   /\ last' = [a |-> "deliver", c |-> c] /\ UNCHANGED <<seen, ops>>

Fallback(c, perm) ==
   LET o == Other(c)
       r == HandleFallback(S[c], seen[c], perm, ToString(nid + 1), S[o].pts, S[o].tot) IN
   /\ EnableFallback /\ nid < MaxRot /\ ~IsEmpty(S[c].lck) /\ ~r.err /\ ~r.waited
   /\ S' = [S EXCEPT ![c] = r.st] /\ nid' = nid + 1
   /\ flags' = [kok |-> flags.kok /\ r.kok, wok |-> flags.wok /\ r.wok]
   /\ last' = [a |-> "fallback", c |-> c] /\ UNCHANGED <<seen, ops>>

Next == \/ \E c \in Chains, a \in Acct, amt \in Amounts : Order(c, a, amt, 0) \/ Order(c, a, amt, amt) \/ Deposit(c, a, amt)
        \/ \E c \in Chains : \E perm \in Perms(Len(seen[c].orders)) : Fallback(c, perm)
        \/ \E c \in Chains, a \in Acct, p \in Pcts : Withdraw(c, a, p)
        \/ \E c \in Chains : Sync(c) \/ \E perm \in Perms(Len(seen[c].orders)) : Deliver(c, perm)
Spec == Init /\ [][Next]_vars

\* ---- properties ---------------------------------------------------------------------------------------------------
HoldingEq(st) == st.hold = BatchFunds(st.nxt) + BatchFunds(st.lck)
PointsSum(st) == st.tot = SumFn(st.pts, Holder)
Supply(st) == SumFn(st.bal, Acct) + st.liq + st.hold
HoldingExact == \A c \in Chains : HoldingEq(S[c])
PointsExact  == \A c \in Chains : PointsSum(S[c])
Conserved    == \A c \in Chains : Supply(S[c]) = Cardinality(Acct) * Bal0 + Liq0
ProductNeverFalls == flags.kok       \* every executed swap: dY < y and (x + dX)(y - dY) >= x y
FairWithdrawals   == flags.wok       \* every withdrawal pays at most the provider's share of the reserve
=============================================================================
