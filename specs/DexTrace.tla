------------------------------ MODULE DexTrace ------------------------------
(***************************************************************************)
(* Operations executed on the dex handlers of two REAL state machines      *)
(* (harness/nodex dex mode; each chain hands its locked batch to the other *)
(* through HandleDexBatch).  Every line carries the operation, its         *)
(* arguments (for a delivery: the remote batch as handed over and the      *)
(* order in which the real code executed its orders) and the chain's state *)
(* afterwards.  TLC recomputes the step from the previously recorded state *)
(* with the operators of Dex.tla and requires the recorded state to be     *)
(* exactly that; the accounting identities of Dex.tla are evaluated on     *)
(* every recorded state and the per-swap / per-withdrawal checks on every  *)
(* recomputed delivery.  Lines of the big-number runs carry the identities *)
(* evaluated with arbitrary precision by the driver.                       *)
(***************************************************************************)
EXTENDS Dex, Json
VARIABLES l, ok, cur, sup
tvars == <<vars, l, ok, cur, sup>>
Trace == ndJsonDeserialize("trace.ndjson")

Fn(rec, D) == [k \in D |-> rec[k]]
St(p) == [bal |-> Fn(p.bal, Acct), liq |-> p.liq, pts |-> Fn(p.pts, Holder), tot |-> p.tot, hold |-> p.hold, nxt |-> p.nxt, lck |-> p.lck]
Fail(st) == [st |-> st, err |-> TRUE, kok |-> TRUE, wok |-> TRUE, waited |-> FALSE]
Fine(st) == [st |-> st, err |-> FALSE, kok |-> TRUE, wok |-> TRUE, waited |-> FALSE]

Expected(pre, r) ==
   CASE r.op = "order"    -> IF pre.liq > 0 /\ pre.bal[r.a] >= r.amt
                             THEN Fine([pre EXCEPT !.bal[r.a] = @ - r.amt, !.hold = @ + r.amt, !.nxt.orders = Append(@, [a |-> r.a, amt |-> r.amt, req |-> r.req])])
                             ELSE Fail(pre)
     [] r.op = "deposit"  -> IF pre.liq > 0 /\ pre.bal[r.a] >= r.amt
                             THEN Fine([pre EXCEPT !.bal[r.a] = @ - r.amt, !.hold = @ + r.amt, !.nxt.deps = Append(@, [a |-> r.a, amt |-> r.amt])])
                             ELSE Fail(pre)
     [] r.op = "withdraw" -> IF pre.liq > 0 /\ pre.pts[r.a] > 0
                             THEN Fine([pre EXCEPT !.nxt.wds = Append(@, [a |-> r.a, pct |-> r.pct])])
                             ELSE Fail(pre)
     [] r.op = "deliver"  -> Handle(pre, r.remote, r.perm, r.newId)
     [] r.op = "fallback" -> HandleFallback(pre, r.remote, r.perm, r.newId, Fn(r.rpts, Holder), r.rtot)

Sound(st, c) == HoldingEq(st) /\ PointsSum(st) /\ Supply(st) = sup[c]

TraceInit == Init /\ l = 1 /\ ok = TRUE /\ cur = [c \in {"A", "B"} |-> InitState] /\ sup = [c \in {"A", "B"} |-> 0] /\ TLCSet(1, 0)

Step(r) ==
   IF r.big THEN /\ ok' = (r.holdingOK /\ r.pointsOK /\ r.supplyOK /\ r.kOK) /\ UNCHANGED <<cur, sup>>
   ELSE IF r.e = "dexstart"
        THEN /\ cur' = [cur EXCEPT ![r.chain] = St(r.post)] /\ sup' = [sup EXCEPT ![r.chain] = Supply(St(r.post))]
             /\ ok' = (HoldingEq(St(r.post)) /\ PointsSum(St(r.post)))
        ELSE LET e == Expected(cur[r.chain], r)  post == St(r.post) IN
             /\ ok' = /\ e.err = r.err
                      /\ (~r.err => e.st = post)
                      /\ e.kok /\ e.wok
                      /\ (~r.err => Sound(post, r.chain))
             /\ cur' = [cur EXCEPT ![r.chain] = post] /\ UNCHANGED sup

TraceNext == l <= Len(Trace) /\ l' = l + 1 /\ Step(Trace[l]) /\ TLCSet(1, l) /\ UNCHANGED vars
TraceSpec == TraceInit /\ [][TraceNext]_tvars
TraceAccepted == TLCGet(1) = Len(Trace)
Report == ok \/ PrintT(<<"VIOL", l - 1>>)
\* on a mismatch: what the model expected (printed by the check through a second, targeted evaluation)
Explain == ok \/ l < 2 \/ Trace[l - 1].big \/ Trace[l - 1].e = "dexstart" \/ PrintT(<<"EXPECTED", l - 1, Expected(cur[Trace[l - 1].chain], Trace[l - 1])>>)
=============================================================================
