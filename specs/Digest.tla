------------------------------- MODULE Digest -------------------------------
(***************************************************************************)
(* C19 (sign bytes / identity hashes).  A message is a record of fields;   *)
(* its digest input is the deterministic protobuf encoding of the fields   *)
(* that are not stripped: for every field in tag order, unless it has the  *)
(* default value, <<tag, length, value>>.  Checked for EVERY pair of       *)
(* messages over small domains: equal digest input => the messages agree   *)
(* on every field that is not stripped (Unambiguous).  Bytes fields can    *)
(* contain bytes that look like tags and lengths.                          *)
(* Guards: G_Tags (fields are tagged), G_Lengths (values are length        *)
(* delimited), G_AllSigned (no meaningful field is stripped).              *)
(***************************************************************************)
EXTENDS Integers, Sequences, FiniteSets, TLC

CONSTANTS Stripped,    \* fields left out by design (signature; block and results, which are bound by their hashes)
          G_Tags, G_Lengths, G_AllSigned

Vals == {<< >>, <<1>>, <<1, 2, 1>>}    \* the values a field can take: byte strings that contain tag and length look-alikes; << >> is the default
Fields == <<"view", "hash", "proposer", "extra", "sig">>      \* tag = position
Meaning == {"view", "hash", "proposer", "extra"}              \* what the receiving handler's decision depends on
Covered == IF G_AllSigned THEN {f \in DOMAIN Fields : Fields[f] \notin Stripped} ELSE {f \in DOMAIN Fields : Fields[f] \notin Stripped \cup {"extra"}}

RECURSIVE EncFrom(_, _)
EncFrom(m, i) == IF i > Len(Fields) THEN << >>
                 ELSE (IF i \in Covered /\ m[Fields[i]] # << >>
                       THEN (IF G_Tags THEN <<i>> ELSE << >>) \o (IF G_Lengths THEN <<Len(m[Fields[i]])>> ELSE << >>) \o m[Fields[i]]
                       ELSE << >>) \o EncFrom(m, i + 1)
Enc(m) == EncFrom(m, 1)

VARIABLES a, b
vars == <<a, b>>
Msgs == [{Fields[i] : i \in DOMAIN Fields} -> Vals]
Init == a \in Msgs /\ b \in Msgs
Next == UNCHANGED vars
Spec == Init /\ [][Next]_vars

Unambiguous == Enc(a) = Enc(b) => \A f \in Meaning : a[f] = b[f]
=============================================================================
