------------------------------ MODULE Election ------------------------------
(***************************************************************************)
(* Leader selection (bft/election.go SelectProposerFromCandidates,         *)
(* lib/consensus.go WeightedPseudorandom), part of C15: every replica      *)
(* computes the leader of a view on its own from the candidate messages it *)
(* received and from the committee; replicas that hold the same candidates *)
(* must name the same leader, whatever order the messages arrived in.      *)
(*   with candidates: the one whose VRF output hashes lowest;              *)
(*   without: the validator in whose cumulative-power range the view's     *)
(*   seed falls, walking the committee in its canonical order.             *)
(***************************************************************************)
EXTENDS Integers, Sequences, FiniteSets, TLC

CONSTANTS G_MinOfAll,       \* the lowest rank among ALL candidates wins (FALSE: the first one below a fixed bound)
          G_CommitteeOrder  \* the fallback walks the committee in its canonical order (FALSE: in the order of a local list)

NoId == 0     \* validator ids are positive numbers (trace validation) 
\* candidates: sequence of [id, rank] (rank = the hash of the VRF output as a number; distinct per validator)
RECURSIVE MinFrom(_, _)
MinFrom(cs, best) == IF cs = << >> THEN best
                     ELSE MinFrom(Tail(cs), IF best.id = NoId \/ cs[1].rank < best.rank THEN cs[1] ELSE best)
FirstBelow(cs, bound) == IF \E i \in DOMAIN cs : cs[i].rank < bound
                         THEN cs[CHOOSE i \in DOMAIN cs : cs[i].rank < bound /\ \A j \in DOMAIN cs : cs[j].rank < bound => i <= j]
                         ELSE cs[1]
Select(cs) == IF G_MinOfAll THEN MinFrom(cs, [id |-> NoId, rank |-> 0]).id ELSE FirstBelow(cs, 2).id

\* committee: sequence of [id, power]; seedIndex in 0..TotalPower-1
RECURSIVE Total(_)
Total(vs) == IF vs = << >> THEN 0 ELSE vs[1].power + Total(Tail(vs))
RECURSIVE Walk(_, _, _)
Walk(vs, idx, acc) == IF Len(vs) = 1 \/ acc + vs[1].power > idx THEN vs[1].id ELSE Walk(Tail(vs), idx, acc + vs[1].power)
Fallback(vs, idx) == Walk(vs, idx, 0)
Leader(cs, vs, idx) == IF cs = << >> THEN Fallback(vs, idx) ELSE Select(cs)

\* ---- design check: two replicas with the same information in different orders -------------------------------------
CONSTANTS Ids, Ranks, Powers
Perms(S) == {p \in [1..Cardinality(S) -> S] : \A i, j \in 1..Cardinality(S) : i # j => p[i] # p[j]}
VARIABLES cand, rank, power, idx, orderA, orderB, listB
vars == <<cand, rank, power, idx, orderA, orderB, listB>>
Init == /\ cand \in SUBSET Ids
        /\ rank \in {r \in [Ids -> Ranks] : \A a, b \in Ids : a # b => r[a] # r[b]}
        /\ power \in [Ids -> Powers]
        /\ idx \in 0..(Cardinality(Ids) * 2)
        /\ orderA \in Perms(cand) /\ orderB \in Perms(cand)
        /\ listB \in Perms(Ids)
Next == UNCHANGED vars
Spec == Init /\ [][Next]_vars
Canon == CHOOSE p \in Perms(Ids) : \A i, j \in 1..Cardinality(Ids) : i < j => p[i] < p[j]     \* the committee's canonical order
Cs(order) == [i \in DOMAIN order |-> [id |-> order[i], rank |-> rank[order[i]]]]
Vs(order) == [i \in DOMAIN order |-> [id |-> order[i], power |-> power[order[i]]]]
TotalP == Total(Vs(Canon))
LeaderA == Leader(Cs(orderA), Vs(Canon), idx % TotalP)
LeaderB == Leader(Cs(orderB), Vs(IF G_CommitteeOrder THEN Canon ELSE listB), idx % TotalP)
SameLeader == LeaderA = LeaderB
LeaderIsKnown == LeaderA \in Ids /\ (cand # {} => LeaderA \in cand)
\* the fallback is proportional to power: exactly power[v] of the TotalP seed indices fall to v
Proportional == \A v \in Ids : Cardinality({i \in 0..(TotalP - 1) : Fallback(Vs(Canon), i) = v}) = power[v]
=============================================================================
