---------------------------- MODULE ElectionTrace ----------------------------
(***************************************************************************)
(* Leader selections made by the REAL code (harness/bftsim election mode)  *)
(* for random committees, seeds and candidate sets in several arrival      *)
(* orders; TLC recomputes each with Election.tla's Leader operator.        *)
(***************************************************************************)
EXTENDS Election, Json
VARIABLES l, ok
Trace == ndJsonDeserialize("trace.ndjson")
\* what the property needs of the answers: the same leader whatever the arrival order, and a leader that can lead
Agree(r) == \A i, j \in DOMAIN r.leaders : r.leaders[i] = r.leaders[j]
Known(r) == \A i \in DOMAIN r.orders :
               IF r.orders[i] = << >> THEN \E k \in DOMAIN r.committee : r.committee[k].id = r.leaders[i] /\ r.committee[k].power > 0
               ELSE \E k \in DOMAIN r.orders[i] : r.orders[i][k].id = r.leaders[i]
\* and the design's own rule (lowest rank, cumulative-power walk): a difference here alone is a deviation, not a violation
Exact(r) == \A i \in DOMAIN r.orders : r.leaders[i] = Leader(r.orders[i], r.committee, r.seedIndex)
Good(r) == IF ~Agree(r) THEN "order-dependent" ELSE IF ~Known(r) THEN "unknown-leader" ELSE IF ~Exact(r) THEN "deviation" ELSE "ok"
TraceInit == l = 1 /\ ok = "ok" /\ TLCSet(1, 0) /\ cand = {} /\ rank = << >> /\ power = << >> /\ idx = 0 /\ orderA = << >> /\ orderB = << >> /\ listB = << >>
TraceNext == l <= Len(Trace) /\ l' = l + 1 /\ ok' = Good(Trace[l]) /\ TLCSet(1, l) /\ UNCHANGED vars
TraceSpec == TraceInit /\ [][TraceNext]_<<l, ok, vars>>
TraceAccepted == TLCGet(1) = Len(Trace)
Report == ok = "ok" \/ PrintT(<<"VIOL", l - 1, ok>>)
=============================================================================
