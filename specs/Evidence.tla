------------------------------ MODULE Evidence ------------------------------
(* bounded design check of EvidenceDef: every vote log of honest (one payload per view) and Byzantine validators, *)
(* every pair of assemblable certificates (any signer subsets, padded bitmaps, mixed views)                        *)
EXTENDS EvidenceDef
CONSTANTS Honest, Byz, Views
VARIABLES votes, ev
Vals == Honest \cup Byz
ViewsFull == {<<1, 0, "PV">>, <<1, 1, "PV">>, <<1, 0, "EV">>}
ViewsTwo == {<<1, 0, "PV">>, <<1, 0, "EV">>}
Payloads == {"p", "q"}
\* claimed bitmap = the aggregated signers, possibly padded with one more validator
QCs(vt) == {q \in [view : Views, phase : {"PV", "EV"}, payload : Payloads, bitmap : SUBSET Vals, sigs : SUBSET Vals] :
               q.phase = q.view[3] /\ Assemblable(q, vt) /\ q.sigs \subseteq q.bitmap /\ Cardinality(q.bitmap \ q.sigs) <= 1}
\* Byzantine validators sign everything (more signatures only help the adversary); honest ones at most one payload per view
Init == /\ votes \in {f \in [Vals -> [Views -> SUBSET Payloads]] :
                        /\ \A h \in Honest : \A w \in Views : Cardinality(f[h][w]) <= 1
                        /\ \A b \in Byz : \A w \in Views : f[b][w] = Payloads}
        /\ ev = [a |-> [view |-> <<1, 0, "PV">>, phase |-> "PV", payload |-> "p", bitmap |-> {}, sigs |-> {}], b |-> [view |-> <<1, 0, "PV">>, phase |-> "PV", payload |-> "p", bitmap |-> {}, sigs |-> {}]]
Next == /\ votes' = votes
        /\ ev' \in [a : QCs(votes), b : QCs(votes)]
Spec == Init /\ [][Next]_<<votes, ev>>
\* C14: nobody who signed at most one payload per view is ever implicated
OnlyEquivocators == Implicated(ev) \subseteq Equivocators(votes, Vals, Views)
=============================================================================
