----------------------------- MODULE EvidenceDef -----------------------------
(***************************************************************************)
(* C14: double-sign evidence (bft/evidence.go ProcessDSE, lib/consensus.go *)
(* GetDoubleSigners).  A certificate is [view, phase, payload, bitmap, sigs]: *)
(* view = <<rootHeight, round, phase>>, bitmap = claimed signers, sigs =   *)
(* the validators whose genuine signature over exactly (view, payload) is  *)
(* aggregated.  votes[v][view] is the set of payloads validator v really   *)
(* signed in that view.                                                    *)
(***************************************************************************)
EXTENDS Integers, FiniteSets, Sequences, TLC

CONSTANTS G_SameView,        \* both certificates carry the same view
          G_BothVerified,    \* both aggregate signatures verify for exactly their bitmap
          G_PayloadsDiffer,  \* the two payloads differ
          G_PhaseAfterPropose

\* an aggregate verifies iff the aggregated signatures are exactly the claimed bitmap
Verifies(q) == q.sigs = q.bitmap
PhaseOK(q) == q.phase \in {"PV", "PCV"}

Valid(e) ==
   /\ G_SameView => e.a.view = e.b.view
   /\ G_BothVerified => (Verifies(e.a) /\ Verifies(e.b))
   /\ G_PayloadsDiffer => e.a.payload # e.b.payload
   /\ G_PhaseAfterPropose => PhaseOK(e.a)

Implicated(e) == IF Valid(e) THEN e.a.bitmap \cap e.b.bitmap ELSE {}

\* who really equivocated in some view: signed two different payloads there
Equivocators(votes, Vals, Views) == {v \in Vals : \E w \in Views : Cardinality(votes[v][w]) >= 2}
\* a certificate can only aggregate signatures that exist
Assemblable(q, votes) == \A v \in q.sigs : q.payload \in votes[v][q.view]
=============================================================================
