--------------------------- MODULE EvidenceTrace ---------------------------
(***************************************************************************)
(* What the REAL evidence processing (bft.ProcessDSE, ValidateByzantine-   *)
(* Evidence) answered for evidence assembled from real signatures of a     *)
(* recorded vote log (harness/bftsim evidence).                            *)
(***************************************************************************)
EXTENDS EvidenceDef, Json
VARIABLES l, cur
vars == <<l, cur>>
Trace == ndJsonDeserialize("trace.ndjson")
Init == l = 1 /\ cur = [kind |-> "none"] /\ TLCSet(1, 0)
Next == l <= Len(Trace) /\ l' = l + 1 /\ cur' = Trace[l] /\ TLCSet(1, l)
Spec == Init /\ [][Next]_vars
TraceAccepted == TLCGet(1) = Len(Trace)
SetOf(s) == {s[i] : i \in DOMAIN s}
QC(j) == [view |-> j.view, phase |-> j.phase, payload |-> j.payload, bitmap |-> SetOf(j.bitmap), sigs |-> SetOf(j.sigs)]
IsEv == cur.kind = "evidence"
Vals == DOMAIN cur.votes
\* who signed two different payloads in some view of the recorded log
RealEquivocators == {v \in Vals : \E w \in DOMAIN cur.votes[v] : Len(cur.votes[v][w]) >= 2}
\* C14: only provable equivocators are implicated, and a proposer cannot add names beyond the attached evidence
OnlyEquivocatorsReal == IsEv => SetOf(cur.implicated) \subseteq RealEquivocators
NoExtraNames == IsEv => ~cur.extraOK
\* conformance with the definition (divergence only)
Conforms == IsEv => SetOf(cur.implicated) = Implicated([a |-> QC(cur.a), b |-> QC(cur.b)])
Preds == [OnlyEquivocatorsReal |-> OnlyEquivocatorsReal, NoExtraNames |-> NoExtraNames, Conforms |-> Conforms]
Report == (\A p \in DOMAIN Preds : Preds[p]) \/ PrintT(<<"VIOL", l - 1, Preds>>)
=============================================================================
