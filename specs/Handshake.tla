------------------------------ MODULE Handshake ------------------------------
(***************************************************************************)
(* C17, the handshake of p2p/encrypt.go as a symbolic (Dolev-Yao) model.   *)
(* Honest endpoints A and B and an active attacker M who owns the wire.    *)
(* Each endpoint draws an ephemeral key, learns "the peer's" ephemeral key *)
(* from the wire (whatever the attacker puts there), derives the session   *)
(* secret and challenge from the pair, signs the challenge with its        *)
(* identity key inside the encrypted channel, and accepts the identity     *)
(* whose signature over its own challenge it receives, if network and      *)
(* chain of the signed meta agree.                                         *)
(* The attacker can put its own or a low-order ephemeral key on the wire,  *)
(* knows every session secret in which one of its keys (or a low-order     *)
(* point) takes part, can read and forward what it can decrypt, sign with  *)
(* its own identity key, and present any identity.                         *)
(***************************************************************************)
EXTENDS Integers, FiniteSets, TLC

CONSTANTS G_VerifySig,       \* the signature is verified under the presented identity key
          G_OwnChallenge,    \* ... over the verifier's own session challenge
          G_RejectLowOrder,  \* a low-order ephemeral key (all-zero shared secret) aborts the handshake
          G_CheckMeta,       \* network id and chain id must agree
          G_RejectSelf       \* an endpoint never accepts its own identity (its own messages reflected back to it)

Honest == {"A", "B"}
Ids == {"A", "B", "M"}
Eph == {"eA", "eB", "eM", "low"}       \* ephemeral public keys; "low" = a low-order point
EphOf(x) == IF x = "A" THEN "eA" ELSE "eB"
\* the session challenge is derived from the Diffie-Hellman secret alone (lib/crypto/aead.go): an unordered pair of
\* ephemeral keys stands for the secret; with a low-order point the secret is the same (all zero) whatever the other key is
Chal(e1, e2) == IF "low" \in {e1, e2} THEN {"low"} ELSE {e1, e2}
Net(x) == 1    \* honest endpoints of this model share network and chain; a foreign configuration is MetaOf = 2
AttackerKnows(c) == "eM" \in c \/ "low" \in c

VARIABLES peerEph,    \* honest endpoint -> ephemeral key it received (or "none")
          sigs,       \* signatures in existence: [by, over]
          accepted,   \* honest endpoint -> identity it accepted ("none", "fail")
          metaNet,    \* honest endpoint -> network/chain configuration the accepted peer's meta showed
          last
vars == <<peerEph, sigs, accepted, metaNet, last>>

Init == /\ peerEph = [x \in Honest |-> "none"] /\ sigs = {} /\ accepted = [x \in Honest |-> "none"]
        /\ metaNet = [x \in Honest |-> 0] /\ last = [a |-> "init"]

MyChal(x) == Chal(EphOf(x), peerEph[x])

\* the wire delivers an ephemeral key to x: the other endpoint's, or one of the attacker's choosing
KeySwap(x, e) ==
   /\ peerEph[x] = "none" /\ e \in Eph \ {EphOf(x)}
   /\ IF e = "low" /\ G_RejectLowOrder
      THEN accepted' = [accepted EXCEPT ![x] = "fail"] /\ UNCHANGED peerEph
      ELSE peerEph' = [peerEph EXCEPT ![x] = e] /\ UNCHANGED accepted
   /\ last' = [a |-> "keyswap", x |-> x, e |-> e] /\ UNCHANGED <<sigs, metaNet>>

\* x signs its challenge inside the channel
Sign(x) == /\ peerEph[x] # "none" /\ accepted[x] # "fail"
           /\ sigs' = sigs \cup {[by |-> x, over |-> MyChal(x)]}
           /\ last' = [a |-> "sign", x |-> x] /\ UNCHANGED <<peerEph, accepted, metaNet>>
\* the attacker signs anything with its own key
MSign(c) == /\ sigs' = sigs \cup {[by |-> "M", over |-> c]}
            /\ last' = [a |-> "msign"] /\ UNCHANGED <<peerEph, accepted, metaNet>>

\* x receives (presented identity id, signature s, meta configuration net) over its channel.  Only someone who knows the
\* channel keys can put anything there: the peer endpoint of the same session, or the attacker if it knows the secret.
CanWriteTo(x, s) == \/ AttackerKnows(MyChal(x))      \* this includes handing x its own signature back
                    \/ (s.by \in Honest /\ s.by # x /\ peerEph[s.by] # "none" /\ MyChal(s.by) = MyChal(x))
Receive(x, id, s, net) ==
   /\ peerEph[x] # "none" /\ accepted[x] = "none" /\ s \in sigs /\ id \in Ids /\ net \in {1, 2}
   /\ CanWriteTo(x, s)
   /\ \/ AttackerKnows(MyChal(x))      \* the attacker chooses id and meta freely
      \/ (id = s.by /\ net = 1)        \* an honest peer presents itself
   /\ LET ok == /\ (G_VerifySig => s.by = id)
                /\ (G_OwnChallenge => s.over = MyChal(x))
                /\ (G_CheckMeta => net = Net(x))
                /\ (G_RejectSelf => id # x)
      IN /\ accepted' = [accepted EXCEPT ![x] = IF ok THEN id ELSE "fail"]
         /\ metaNet' = [metaNet EXCEPT ![x] = IF ok THEN net ELSE 0]
   /\ last' = [a |-> "receive", x |-> x, id |-> id] /\ UNCHANGED <<peerEph, sigs>>

Next == \/ \E x \in Honest, e \in Eph : KeySwap(x, e)
        \/ \E x \in Honest : Sign(x)
        \/ \E c \in {Chal(a, b) : a, b \in Eph} : MSign(c)
        \/ \E x \in Honest, id \in Ids, s \in sigs, net \in {1, 2} : Receive(x, id, s, net)
Spec == Init /\ [][Next]_vars

Other(x) == IF x = "A" THEN "B" ELSE "A"
\* authentication: whoever x accepts as the other honest endpoint really took part in this very session (same challenge),
\* so no attacker key is inside it; and configuration agrees
NoImpersonation == \A x \in Honest : accepted[x] = Other(x) =>
                      /\ peerEph[Other(x)] # "none" /\ MyChal(Other(x)) = MyChal(x)
                      /\ ~AttackerKnows(MyChal(x))
                      /\ [by |-> Other(x), over |-> MyChal(x)] \in sigs
\* possession: nobody is accepted under an identity whose key the party at the other end does not hold
NoReflection == \A x \in Honest : accepted[x] # x
SameConfiguration == \A x \in Honest : accepted[x] \in Ids => metaNet[x] = Net(x)
\* reachability (anti-vacuity): an honest pair can complete
HonestCompletes == ~(accepted["A"] = "B" /\ accepted["B"] = "A")
=============================================================================
