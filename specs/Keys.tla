-------------------------------- MODULE Keys --------------------------------
(***************************************************************************)
(* C19 (store keys).  lib.JoinLenPrefix: a composite key is the            *)
(* concatenation of its segments, each preceded by one byte holding its    *)
(* length.  Checked for EVERY pair of segment tuples over a small byte     *)
(* alphabet in which data bytes can look like length bytes:                *)
(*   Injective  - different tuples never give the same key;                *)
(*   PrefixFree - a key lies in the byte-prefix range of another key only  *)
(*                when its tuple extends the other tuple segment by        *)
(*                segment (so a prefix scan returns exactly the group);    *)
(*   RoundTrip  - DecodeLengthPrefixed inverts the encoding.               *)
(* G_LenPrefix = FALSE is plain concatenation; G_OneByteFits = FALSE lets  *)
(* a segment be longer than the length byte can say (the length wraps).    *)
(***************************************************************************)
EXTENDS Integers, Sequences, FiniteSets, TLC

CONSTANTS Bytes,        \* the byte alphabet, e.g. 0..2
          MaxSegLen,    \* segments have 0..MaxSegLen bytes
          MaxSegs,      \* tuples have 0..MaxSegs segments
          Wrap,         \* the length byte holds len % Wrap
          G_LenPrefix, G_OneByteFits

RECURSIVE SeqsUpTo(_, _)
SeqsUpTo(S, n) == IF n = 0 THEN {<< >>} ELSE LET r == SeqsUpTo(S, n - 1) IN r \cup {Append(s, x) : s \in {t \in r : Len(t) = n - 1}, x \in S}
Segs == SeqsUpTo(Bytes, IF G_OneByteFits THEN MaxSegLen ELSE Wrap)
Tuples == SeqsUpTo(Segs, MaxSegs)

RECURSIVE Enc(_)
Enc(t) == IF t = << >> THEN << >>
          ELSE (IF G_LenPrefix THEN <<Len(t[1]) % Wrap>> ELSE << >>) \o t[1] \o Enc(Tail(t))

RECURSIVE Dec(_)
Dec(k) == IF k = << >> THEN << >>
          ELSE LET n == k[1] IN
               IF n + 1 > Len(k) THEN <<"corrupt">>
               ELSE <<SubSeq(k, 2, n + 1)>> \o Dec(SubSeq(k, n + 2, Len(k)))

IsPrefix(a, b) == Len(a) <= Len(b) /\ SubSeq(b, 1, Len(a)) = a

VARIABLES a, b
vars == <<a, b>>
Init == a \in Tuples /\ b \in Tuples
Next == UNCHANGED vars
Spec == Init /\ [][Next]_vars

Injective  == Enc(a) = Enc(b) => a = b
PrefixFree == IsPrefix(Enc(a), Enc(b)) => IsPrefix(a, b)
RoundTrip  == G_LenPrefix => Dec(Enc(a)) = a
=============================================================================
