----------------------------- MODULE KeysTrace -----------------------------
(***************************************************************************)
(* Facts recorded from the REAL code (harness/signx, harness/nodex wire)   *)
(* judged with the definitions of Keys.tla and Digest.tla:                 *)
(*  field  - one field of a real signed / hashed message was changed; the  *)
(*           digest input may only stay the same for fields that are       *)
(*           stripped by design (Stripped below; Digest.tla Unambiguous);  *)
(*  pair   - two real composite keys: Keys.tla Injective and PrefixFree on *)
(*           the recorded relations;                                       *)
(*  range  - a real key lies in a real prefix range iff it was built for   *)
(*           that group;                                                   *)
(*  handler - structurally incomplete / adversarially framed peer messages  *)
(*           injected into the real listeners: the node survives;          *)
(*  decode - untrusted bytes: no panic, no hang, unknown fields refused by *)
(*           the critical decoders;                                        *)
(*  wire   - a block message with an unknown field somewhere: if the node  *)
(*           commits it, what it stored is readable again and the chain    *)
(*           goes on.                                                      *)
(***************************************************************************)
EXTENDS Integers, Sequences, TLC, Json
VARIABLES l, ok
Trace == ndJsonDeserialize("trace.ndjson")

IsPrefix(a, b) == Len(a) <= Len(b) /\ SubSeq(b, 1, Len(a)) = a

\* what the digests leave out by design: the signature itself; block and results of a certificate (bound by their hashes);
\* attachments of consensus messages that authenticate themselves (certificates, evidence, VRF / VDF proofs) and the
\* wall-clock hint; for election votes and pacemaker messages the payload is the view (and the candidate) only
QcBody == {<<"qc", "block">>, <<"qc", "results">>}
Attach == {<<"high_qc">>, <<"last_double_sign_evidence">>, <<"vrf">>, <<"vdf">>, <<"timestamp">>, <<"signature">>, <<"qc", "signature">>}
Stripped(kind) ==
   CASE kind = "tx.signbytes"                   -> {<<"signature">>}
     [] kind = "tx.hash"                        -> {}
     [] kind = "qc.signbytes"                   -> {<<"block">>, <<"results">>, <<"signature">>}
     [] kind = "qc.signbytes.election"          -> {<<"block">>, <<"results">>, <<"signature">>, <<"block_hash">>, <<"results_hash">>}
     [] kind = "msg.proposer.signbytes"         -> QcBody \cup {<<"signature">>, <<"vdf">>, <<"timestamp">>}
     [] kind = "msg.replica.signbytes"          -> QcBody \cup Attach \cup {<<"rcBuildHeight">>}     \* not read from these votes
     [] kind = "msg.replica.signbytes.election" -> QcBody \cup Attach \cup {<<"qc", "block_hash">>, <<"qc", "results_hash">>, <<"rcBuildHeight">>}   \* accompanies the attached high_qc; a vote's signature is the aggregated one over the shared payload
     [] kind = "msg.pacemaker.signbytes"        -> QcBody \cup Attach \cup {<<"qc", "block_hash">>, <<"qc", "results_hash">>, <<"qc", "proposer_key">>, <<"rcBuildHeight">>}
     [] kind = "results.hash"                   -> {}
     [] kind = "header.hash"                    -> {<<"hash">>}
     [] kind = "peermeta.signbytes"             -> {<<"signature">>}
     [] OTHER                                   -> {}

Good(r) ==
   CASE r.e = "field"  -> (r.equal => \E p \in Stripped(r.kind) : IsPrefix(p, r.path))
     [] r.e = "pair"   -> (r.keyEq => r.segEq) /\ (r.keyPrefix => r.segPrefix)          \* Keys!Injective, Keys!PrefixFree
     [] r.e = "range"  -> (r.inRange <=> r.belongs)
     [] r.e = "decode" -> ~r.panic /\ ~r.slow /\ (r.variant = "sample" => r.accepted)
                          /\ (r.critical /\ r.unknown => ~r.accepted)
     [] r.e = "wire"   -> (r.accepted => r.readBack /\ r.nextBlock) /\ (r.position = 0 => r.accepted)
     [] r.e = "handler" -> ~r.panic /\ ~r.slow           \* a peer message injected into the real inbox listeners of a running node
     [] OTHER          -> FALSE

Init == l = 1 /\ ok = TRUE /\ TLCSet(1, 0)
Next == l <= Len(Trace) /\ l' = l + 1 /\ ok' = Good(Trace[l]) /\ TLCSet(1, l)
Spec == Init /\ [][Next]_<<l, ok>>
TraceAccepted == TLCGet(1) = Len(Trace)
Report == ok \/ PrintT(<<"VIOL", l - 1>>)
=============================================================================
