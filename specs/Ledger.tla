------------------------------- MODULE Ledger -------------------------------
(***************************************************************************)
(* Staking ledger of fsm/ (validator.go, byzantine.go, automatic.go,       *)
(* account.go) at block granularity: validator records, the deferred       *)
(* action indexes (unstaking / paused markers keyed by height), supply     *)
(* tallies, accounts, reward pool.  One action per block; a block carries  *)
(* at most one transaction and at most one double-sign slash, then the     *)
(* end-block actions fire (force-unstake of max-paused, finish unstaking). *)
(* Amounts are small naturals; slashing is integer halving as in           *)
(* SlashValidator (stake * (100-p) / 100, delete on zero).                 *)
(*                                                                         *)
(* C04: conservation.  C12: tallies = sums, markers <-> status bijection,  *)
(* and the next block can always be applied (Wedged is never reached).     *)
(***************************************************************************)
EXTENDS Integers, FiniteSets, Sequences, TLC

CONSTANTS Vals,            \* validator identities
          MaxStake,        \* stake amounts 1..MaxStake
          MaxHeight,
          UnstakingBlocks, MaxPauseBlocks,
          SlashPct,        \* double-sign slash percentage
          G_DeleteClearsMarkers   \* deleting a validator also deletes its unstaking / paused markers

VARIABLES height,
          stake,      \* Vals -> 0..  (0 = no validator record)
          unstaking,  \* Vals -> height at which unstaking finishes (0 = not unstaking)
          paused,     \* Vals -> max paused height (0 = not paused)
          umark,      \* set of <<height, validator>> unstaking markers
          pmark,      \* set of <<height, validator>> paused markers
          bal,        \* Vals -> liquid balance of the validator's output account
          total, staked,   \* supply tallies
          wedged,     \* the block at `height` could not be applied
          last
vars == <<height, stake, unstaking, paused, umark, pmark, bal, total, staked, wedged, last>>
view == <<height, stake, unstaking, paused, umark, pmark, bal, total, staked, wedged>>

RECURSIVE SumF(_, _)
SumF(f, S) == IF S = {} THEN 0 ELSE LET x == CHOOSE y \in S : TRUE IN f[x] + SumF(f, S \ {x})

Exists(v) == stake[v] > 0

Init ==
   /\ height = 1
   /\ stake = [v \in Vals |-> 0]
   /\ unstaking = [v \in Vals |-> 0]
   /\ paused = [v \in Vals |-> 0]
   /\ umark = {} /\ pmark = {}
   /\ bal = [v \in Vals |-> MaxStake]
   /\ total = MaxStake * Cardinality(Vals) /\ staked = 0
   /\ wedged = FALSE
   /\ last = [a |-> "Init"]

\* ---- the transaction of the block (state after it: records s, u, p, marks um, pm, balances b, tallies) ------
St == [stake |-> stake, unstaking |-> unstaking, paused |-> paused, umark |-> umark, pmark |-> pmark,
       bal |-> bal, total |-> total, staked |-> staked]

NoTx(x) == x
StakeTx(x, v, a) ==   \* MessageStake: a new validator
   IF x.stake[v] = 0 /\ x.bal[v] >= a
   THEN [x EXCEPT !.stake[v] = a, !.bal[v] = @ - a, !.staked = @ + a] ELSE x
EditTx(x, v, a) ==    \* MessageEditStake: increase the stake of a validator that is not unstaking
   IF x.stake[v] > 0 /\ x.unstaking[v] = 0 /\ x.bal[v] >= a
   THEN [x EXCEPT !.stake[v] = @ + a, !.bal[v] = @ - a, !.staked = @ + a] ELSE x
PauseTx(x, v) ==
   IF x.stake[v] > 0 /\ x.unstaking[v] = 0 /\ x.paused[v] = 0
   THEN [x EXCEPT !.paused[v] = height + MaxPauseBlocks, !.pmark = @ \cup {<<height + MaxPauseBlocks, v>>}] ELSE x
UnpauseTx(x, v) ==
   IF x.stake[v] > 0 /\ x.paused[v] # 0
   THEN [x EXCEPT !.pmark = @ \ {<<x.paused[v], v>>}, !.paused[v] = 0] ELSE x
\* SetValidatorUnstaking: marker, un-pause, unstaking height
BeginUnstake(x, v) ==
   LET y == IF x.paused[v] # 0 THEN [x EXCEPT !.pmark = @ \ {<<x.paused[v], v>>}, !.paused[v] = 0] ELSE x
   IN [y EXCEPT !.unstaking[v] = height + UnstakingBlocks, !.umark = @ \cup {<<height + UnstakingBlocks, v>>}]
UnstakeTx(x, v) == IF x.stake[v] > 0 /\ x.unstaking[v] = 0 THEN BeginUnstake(x, v) ELSE x

\* DeleteValidator
DeleteVal(x, v) ==
   LET y == [x EXCEPT !.staked = @ - x.stake[v], !.stake[v] = 0]
   IN IF G_DeleteClearsMarkers
      THEN [y EXCEPT !.umark = {m \in @ : m[2] # v}, !.pmark = {m \in @ : m[2] # v}, !.unstaking[v] = 0, !.paused[v] = 0]
      ELSE [y EXCEPT !.unstaking[v] = 0, !.paused[v] = 0]   \* the record is gone, the markers stay

\* SlashValidator (double sign reported in the last certificate, handled at begin-block)
Slash(x, v) ==
   IF x.stake[v] = 0 THEN x
   ELSE LET after == (x.stake[v] * (100 - SlashPct)) \div 100
            burn == x.stake[v] - after
            y == [x EXCEPT !.total = @ - burn]
        IN IF after = 0 THEN DeleteVal(y, v)
           ELSE [y EXCEPT !.stake[v] = after, !.staked = @ - burn]

\* ---- end-block ------------------------------------------------------------------------------------------
\* ForceUnstakeMaxPaused: every paused marker of this height; a missing / already unstaking validator is skipped
RECURSIVE ForceAll(_, _)
ForceAll(x, ms) ==
   IF ms = {} THEN x
   ELSE LET m == CHOOSE y \in ms : TRUE
            v == m[2]
            x1 == IF x.stake[v] > 0 /\ x.unstaking[v] = 0 THEN BeginUnstake(x, v) ELSE x
        IN ForceAll([x1 EXCEPT !.pmark = @ \ {m}], ms \ {m})

\* DeleteFinishedUnstaking: every unstaking marker of this height; a marker without validator aborts the block
Finishable(x, ms) == \A m \in ms : x.stake[m[2]] > 0
RECURSIVE FinishAll(_, _)
FinishAll(x, ms) ==
   IF ms = {} THEN x
   ELSE LET m == CHOOSE y \in ms : TRUE
            v == m[2]
            x1 == [x EXCEPT !.bal[v] = @ + x.stake[v]]
            x2 == [DeleteVal(x1, v) EXCEPT !.umark = @ \ {m}]
        IN FinishAll(x2, ms \ {m})

\* one block: slash s (or none), transaction tx, end-block
Block(tx, s) ==
   /\ ~wedged /\ height < MaxHeight
   /\ LET x0 == IF s \in Vals THEN Slash(St, s) ELSE St
          x1 == CASE tx.op = "none"    -> x0
                  [] tx.op = "stake"   -> StakeTx(x0, tx.v, tx.a)
                  [] tx.op = "edit"    -> EditTx(x0, tx.v, tx.a)
                  [] tx.op = "pause"   -> PauseTx(x0, tx.v)
                  [] tx.op = "unpause" -> UnpauseTx(x0, tx.v)
                  [] tx.op = "unstake" -> UnstakeTx(x0, tx.v)
          x2 == ForceAll(x1, {m \in x1.pmark : m[1] = height})
          due == {m \in x2.umark : m[1] = height}
      IN IF Finishable(x2, due)
         THEN LET x3 == FinishAll(x2, due) IN
              /\ stake' = x3.stake /\ unstaking' = x3.unstaking /\ paused' = x3.paused /\ umark' = x3.umark
              /\ pmark' = x3.pmark /\ bal' = x3.bal /\ total' = x3.total /\ staked' = x3.staked
              /\ height' = height + 1 /\ wedged' = FALSE
         ELSE /\ wedged' = TRUE
              /\ UNCHANGED <<height, stake, unstaking, paused, umark, pmark, bal, total, staked>>
   /\ last' = [a |-> "Block", tx |-> tx, slash |-> s]

Txs == {[op |-> "none", v |-> CHOOSE v \in Vals : TRUE, a |-> 0]}
       \cup [op : {"stake", "edit"}, v : Vals, a : 1..MaxStake]
       \cup [op : {"pause", "unpause", "unstake"}, v : Vals, a : {0}]

Next == \E tx \in Txs : \E s \in Vals \cup {"nobody"} : Block(tx, s)
Spec == Init /\ [][Next]_vars

-----------------------------------------------------------------------------
\* C04
Conservation == total = SumF(bal, Vals) + SumF(stake, Vals)
\* C12
StakedTally == staked = SumF(stake, Vals)
MarkersMatchStatus ==
   /\ umark = {<<unstaking[v], v>> : v \in {w \in Vals : unstaking[w] # 0}}
   /\ pmark = {<<paused[v], v>> : v \in {w \in Vals : paused[w] # 0}}
   /\ \A v \in Vals : (unstaking[v] # 0 \/ paused[v] # 0) => Exists(v)
   /\ \A v \in Vals : ~(unstaking[v] # 0 /\ paused[v] # 0)
NoWedge == ~wedged
=============================================================================
