---------------------------- MODULE LedgerTrace ----------------------------
(***************************************************************************)
(* Validation of REAL chain histories (harness/nodex: real controller +    *)
(* FSM + store, full raw state scan after every committed block) against   *)
(* the ledger predicates of Ledger.tla, evaluated on the recorded state:   *)
(*   C04  SumEq, NonNegative/NoWrap, MintBound (action property)           *)
(*   C12  StakedTally, DelegatedTally, CommitteeTallies, MarkersMatch,     *)
(*        NoWedge                                                          *)
(* The recorded scan is taken as the state (free mode); `prev` is the      *)
(* previous scan of the same run for the action properties.                *)
(***************************************************************************)
EXTENDS Integers, Sequences, FiniteSets, TLC, Json, CommitteeDef

VARIABLES l, cur, prev
vars == <<l, cur, prev>>

Trace == ndJsonDeserialize("trace.ndjson")

RECURSIVE SumSeq(_, _)
SumSeq(s, i) == IF i > Len(s) THEN 0 ELSE s[i].v + SumSeq(s, i + 1)
RECURSIVE SumStake(_, _)
SumStake(s, i) == IF i > Len(s) THEN 0 ELSE s[i].stake + SumStake(s, i + 1)
Idx(s) == 1..Len(s)

Scan == cur.scan
Valset == {Scan.vals[i] : i \in Idx(Scan.vals)}
SumOver(S) == LET RECURSIVE F(_)
                  F(T) == IF T = {} THEN 0 ELSE LET x == CHOOSE y \in T : TRUE IN x.stake + F(T \ {x})
              IN F(S)
Lookup(seq, k) == LET hits == {i \in Idx(seq) : seq[i].k = k} IN IF hits = {} THEN 0 ELSE seq[CHOOSE i \in hits : TRUE].v
Committees == UNION {{v.committees[i] : i \in Idx(v.committees)} : v \in Valset}
CName(c) == "c" \o ToString(c)

Init == l = 1 /\ cur = [kind |-> "none"] /\ prev = [kind |-> "none"] /\ TLCSet(1, 0)
Next == /\ l <= Len(Trace)
        /\ l' = l + 1
        /\ cur' = Trace[l]
        /\ prev' = IF Trace[l].kind = "genesis" THEN [kind |-> "none"] ELSE IF cur.kind \in {"genesis", "block"} THEN cur ELSE prev
        /\ TLCSet(1, l)
Spec == Init /\ [][Next]_vars
TraceAccepted == TLCGet(1) = Len(Trace)

IsState == cur.kind \in {"genesis", "block", "end", "proposal"}
\* "proposal" = the proposer's working state after building a block (what its proposed state root commits to)

\* ---- C04 ----
SumEq == IsState => /\ Scan.sumResidual = "0"
                    /\ cur.small => SumSeq(Scan.accounts, 1) + SumSeq(Scan.pools, 1) + SumStake(Scan.vals, 1) = Scan.total
NoWrap == IsState => /\ Scan.noWrap
                     /\ \A i \in Idx(Scan.accounts) : Scan.accounts[i].v >= 0 /\ Scan.accounts[i].v <= Scan.total
\* from one block to the next the total changes only by the scheduled mint and by burns (slashes, undistributed rewards):
\* never more than the mint, never less than mint - slashes - what the pools could hold
MintBound == (cur.kind = "block" /\ prev.kind \in {"genesis", "block"} /\ cur.small) =>
                LET d == Scan.total - prev.scan.total
                IN /\ d <= cur.mint
                   /\ d >= cur.mint - cur.slashed - (cur.prevPool + cur.mint + cur.fees)
\* ---- C12 ----
StakedTally == (IsState /\ cur.small) => Scan.staked = SumStake(Scan.vals, 1)
DelegatedTally == (IsState /\ cur.small) => Scan.delegated = SumOver({v \in Valset : v.delegate})
CommitteeTallies == (IsState /\ cur.small) =>
   \A c \in Committees :
      /\ Lookup(Scan.cstaked, CName(c)) = SumOver({v \in Valset : \E i \in Idx(v.committees) : v.committees[i] = c})
      /\ Lookup(Scan.cdeleg, CName(c)) = SumOver({v \in Valset : v.delegate /\ \E i \in Idx(v.committees) : v.committees[i] = c})
MarkersMatch == IsState =>
   /\ {<<Scan.unstakingIdx[i].h, Scan.unstakingIdx[i].name>> : i \in Idx(Scan.unstakingIdx)}
        = {<<v.unstaking, v.name>> : v \in {w \in Valset : w.unstaking # 0}}
   /\ {<<Scan.pausedIdx[i].h, Scan.pausedIdx[i].name>> : i \in Idx(Scan.pausedIdx)}
        = {<<v.paused, v.name>> : v \in {w \in Valset : w.paused # 0}}
   /\ \A v \in Valset : ~(v.unstaking # 0 /\ v.paused # 0)
NoWedge == cur.kind # "wedge"
\* ---- C13 ----
AsPairs(seq) == [i \in 1..Len(seq) |-> <<seq[i].k, seq[i].v>>]
CommitteeMatches == IsState =>
   \A i \in Idx(Scan.comm) :
      LET c == Scan.comm[i]
          exp == Expected(Valset, c.chain, Scan.maxCommSize, FALSE)
          expD == Expected(Valset, c.chain, Scan.maxDelegSize, TRUE)
      IN /\ c.err = ""
         /\ AsPairs(c.members) = exp
         /\ AsPairs(c.delegates) = expD
         /\ (Len(exp) > 0 /\ cur.small) => (c.total = SumPower(exp, 1) /\ c.maj23 = Maj23(c.total))
HistoryStable == IsState => Scan.histOK
\* ---- C14 (ledger side) ----
SlashOnce == cur.kind = "block" => \A i \in Idx(cur.dblsign) : cur.dblsign[i].indexed

\* one-pass reporting (always true; prints the lines whose recorded real state falsifies a predicate)
Preds == [SumEq |-> SumEq, NoWrap |-> NoWrap, MintBound |-> MintBound, StakedTally |-> StakedTally, DelegatedTally |-> DelegatedTally,
          CommitteeTallies |-> CommitteeTallies, MarkersMatch |-> MarkersMatch, NoWedge |-> NoWedge,
          CommitteeMatches |-> CommitteeMatches, HistoryStable |-> HistoryStable, SlashOnce |-> SlashOnce]
Report == (\A p \in DOMAIN Preds : Preds[p]) \/ PrintT(<<"VIOL", l - 1, Preds>>)
=============================================================================
