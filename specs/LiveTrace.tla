------------------------------ MODULE LiveTrace ------------------------------
(***************************************************************************)
(* Runs of the REAL bft.BFT replicas on a virtual clock (harness/bftsim    *)
(* live mode): an adversarial prefix, then timely delivery.  For every     *)
(* round after the heal the run records who led, which honest replicas     *)
(* took part, how far apart they entered it and the shortest phase wait of *)
(* that round.  Liveness.tla proves that a synchronous round led by an     *)
(* honest validator in which all honest replicas take part commits, from   *)
(* any state a prefix can leave; here that obligation is evaluated on what *)
(* the real replicas did: such a round - with the entry spread plus twice  *)
(* the network delay inside the shortest phase wait - must commit.         *)
(***************************************************************************)
EXTENDS Integers, Sequences, TLC, Json
VARIABLES l, ok
Trace == ndJsonDeserialize("trace.ndjson")
NHonest == 3

\* the round meets the hypotheses of Liveness!HonestRoundCommits
Synchronous(r) == r.leaderHonest /\ Len(r.inRound) = NHonest /\ r.aligned
Good(x) == /\ x.agreement
           /\ \A i \in 1..Len(x.rounds) : Synchronous(x.rounds[i]) => x.rounds[i].committed
\* (replicas that were not part of the committing round learn the block through block gossip / sync, which is outside the
\*  consensus module and not driven here)

Init == l = 1 /\ ok = TRUE /\ TLCSet(1, 0)
Next == l <= Len(Trace) /\ l' = l + 1 /\ ok' = Good(Trace[l]) /\ TLCSet(1, l)
Spec == Init /\ [][Next]_<<l, ok>>
TraceAccepted == TLCGet(1) = Len(Trace)
Report == ok \/ PrintT(<<"VIOL", l - 1>>)
=============================================================================
