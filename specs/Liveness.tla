------------------------------ MODULE Liveness ------------------------------
(***************************************************************************)
(* C15: what a round achieves once the network is synchronous.             *)
(* The state before the round is ANY outcome of an adversarial prefix that *)
(* safety allows: every honest replica may hold a lock (a certificate of   *)
(* some earlier round with its block), certificates may exist that only    *)
(* the Byzantine validator knows, replicas may have been in different      *)
(* rounds (the pacemaker has brought them to the same round number).       *)
(* SyncRound is one round with timely delivery among the honest replicas:  *)
(*   election votes carry each replica's highest certificate; the          *)
(*   Byzantine validator may add any certificate it knows, with or without *)
(*   the block it certifies, before or after the honest votes arrive, may  *)
(*   stay silent or vote;                                                  *)
(*   an honest leader re-proposes the highest certificate it heard of (or  *)
(*   a fresh block); replicas vote by the safe-node rule; with +2/3 of the *)
(*   power the round commits.                                              *)
(* Property: a synchronous round led by an honest validator in which all   *)
(* honest replicas take part commits - whatever the prefix left behind.    *)
(***************************************************************************)
EXTENDS Integers, FiniteSets, TLC

CONSTANTS Honest, Vals, MaxRnd,
          G_UsableHighQC,   \* the leader only adopts a certificate that comes with the block it certifies
          G_HighestWins,    \* the leader re-proposes the highest certificate it heard of, not the first
          G_SafeNodeLive    \* a replica locked on an older certificate accepts a proposal justified by a newer one

None == [rnd |-> -1, val |-> "none"]
Certs == [rnd : 0..MaxRnd, val : Vals]
Byz == "b1"
Power(S) == Cardinality(S)
Quorum(S) == 3 * Power(S) > 2 * (Cardinality(Honest) + 1)       \* +2/3 of Honest + one Byzantine, equal power

VARIABLES lock,      \* honest replica -> certificate it is locked on (None or a Cert); it has the block
          exist,     \* certificates that exist at all (at most one value per round)
          rnd, committed, last
vars == <<lock, exist, rnd, committed, last>>

\* ---- every state an adversarial prefix can leave (as far as safety allows) ------------------------------------
OneValPerRound(S) == \A a, b \in S : a.rnd = b.rnd => a.val = b.val
Init == /\ exist \in {S \in SUBSET Certs : OneValPerRound(S)}
        /\ lock \in [Honest -> Certs \cup {None}]
        /\ \A n \in Honest : lock[n] # None => lock[n] \in exist
        /\ rnd = MaxRnd + 1 /\ committed = "none" /\ last = [a |-> "init"]

Higher(a, b) == a.rnd > b.rnd
MaxOf(S) == IF S = {} THEN None ELSE CHOOSE a \in S : \A b \in S : ~Higher(b, a)

\* one synchronous round led by honest leader l; the Byzantine validator contributes the certificates byzWith (with block) and
\* byzBare (without), and `byzFirst` says whether its vote reaches the leader before the honest ones
SyncRound(l, byzWith, byzBare, byzFirst, byzVotes) ==
   /\ committed = "none" /\ l \in Honest
   /\ byzWith \subseteq exist /\ byzBare \subseteq exist
   /\ LET honestHQ == {lock[n] : n \in Honest} \ {None}
          usableByz == byzWith \cup (IF G_UsableHighQC THEN {} ELSE byzBare)
          \* what the leader ends up holding: the real rule replaces only by a strictly higher certificate, so among
          \* equals the first wins; a bare certificate is "usable" only when the guard is off
          best == IF G_HighestWins THEN MaxOf(honestHQ \cup usableByz)
                  ELSE IF byzFirst /\ usableByz # {} THEN MaxOf(usableByz) ELSE MaxOf(honestHQ \cup usableByz)
          bare == best # None /\ best \in byzBare /\ ~G_UsableHighQC /\ (best \notin honestHQ \/ byzFirst) /\ best \notin byzWith
          proposal == IF best = None THEN [val |-> CHOOSE v \in Vals : TRUE, just |-> None, block |-> TRUE]
                      ELSE [val |-> best.val, just |-> best, block |-> ~bare]
          safe(n) == \/ lock[n] = None
                     \/ proposal.val = lock[n].val
                     \/ (G_SafeNodeLive /\ Higher(proposal.just, lock[n]))
          voters == {n \in Honest : proposal.block /\ safe(n)} \cup (IF byzVotes THEN {Byz} ELSE {})
      IN IF Quorum(voters)
         THEN /\ committed' = proposal.val
              /\ lock' = [n \in Honest |-> IF n \in voters THEN [rnd |-> rnd, val |-> proposal.val] ELSE lock[n]]
              /\ exist' = exist \cup {[rnd |-> rnd, val |-> proposal.val]}
         ELSE UNCHANGED <<committed, lock, exist>>
   /\ rnd' = rnd + 1
   /\ last' = [a |-> "sync", l |-> l]

Next == \E l \in Honest, bw \in SUBSET exist, bb \in SUBSET exist, f \in BOOLEAN, v \in BOOLEAN : SyncRound(l, bw, bb, f, v)
Spec == Init /\ [][Next]_vars

\* the round after the heal commits (checked as: one step from any initial state leads to a committed state)
HonestRoundCommits == rnd > MaxRnd + 1 => committed # "none"
=============================================================================
