---------------------------- MODULE MCConsensus ----------------------------
EXTENDS Consensus
CONSTANTS n1, n2, n3, b1
MCPowerOf(S) == Cardinality(S)
AnyLeader(r, k) == Nodes
\* a fixed schedule: honest, Byzantine, honest, Byzantine ...
FixedLeader(r, k) == IF (r + k) % 2 = 1 THEN {n1} ELSE {b1}
\* ---- progress-biased next-state relation for random simulation (behaviour export) ----
AvailE(n) == {v.n : v \in EVotesFor(n)} \cup Byz
AvailV(n, p) == {v.n : v \in {w \in votes : w.ph = p /\ w.ldr = n /\ w.val = blk[n] /\ w.rnd = rnd[n] /\ w.rh = rh[n]}} \cup Byz
Pick(M) == IF M = {} THEN {None} ELSE M
RotLeader(r, k) == CASE (r + k) % 4 = 0 -> {n2} [] (r + k) % 4 = 1 -> {n1} [] (r + k) % 4 = 2 -> {b1} [] OTHER -> {n3}
SimNodeNext(n) ==
   \/ ph[n] = "EV" /\ \E l \in LeaderChoices(rh[n], rnd[n]) : ElectionVote(n, l)
   \/ ph[n] = "P" /\ \E f \in Values : Propose(n, AvailE(n), f)
   \/ AtPV(n) /\ ~(ph[n] = "P" /\ PowerOf(AvailE(n)) >= Quorum) /\ \E m \in Pick(MsgsP(n)) : ProposeVote(n, m)
   \/ ph[n] = "PC" /\ ldr[n] = n /\ Precommit(n, AvailV(n, "PV"))
   \/ AtPCV(n) /\ \E m \in Pick(MsgsQ(n, "PC")) : PrecommitVote(n, m)
   \/ ph[n] = "C" /\ ldr[n] = n /\ Commit(n, AvailV(n, "PCV"))
   \/ AtCP(n) /\ \E m \in Pick(MsgsQ(n, "C")) : CommitProcess(n, m)
   \/ ph[n] # "DONE" /\ \E q \in OfferedLocks(n) : AdoptLock(n, q)
   \/ ph[n] = "PM" /\ \E r \in Rnds : Pacemaker(n, r)
   \/ Reset(n)
SimNext == (\E n \in Honest : SimNodeNext(n)) \/ RootBump
SimSpec == Init /\ [][SimNext]_vars
Symm23 == Permutations({n2, n3})
Symm == Permutations({n1, n2, n3})
=============================================================================
