---- MODULE MCMempool ----
EXTENDS Mempool
MCFees == <<4, 5, 3>>
MCSizes == <<2, 3, 1, 2>>
====
