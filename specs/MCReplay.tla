------------------------------ MODULE MCReplay ------------------------------
EXTENDS Replay
MCContents == {[chain |-> 1, net |-> 1, created |-> 2], [chain |-> 1, net |-> 1, created |-> 4],
               [chain |-> 2, net |-> 1, created |-> 2], [chain |-> 1, net |-> 2, created |-> 2],
               [chain |-> 1, net |-> 1, created |-> 50]}
=============================================================================
