------------------------------- MODULE MCSmt -------------------------------
EXTENDS Smt, Randomization
AllStates == [UserKeys -> Vals \cup {Absent}]
\* C08, second half: the root term is injective on states (evaluated once, over all pairs)
RootsInjective == \A s1, s2 \in AllStates : s1 # s2 => RootOf(s1) # RootOf(s2)
ASSUME InjectiveOK == (K > 3) \/ RootsInjective
\* random-walk friendly next-state relation for the larger instances (one random batch per step)
SimNext == \E n \in 1..Cardinality(UserKeys) :
             LET D == CHOOSE X \in SUBSET UserKeys : TRUE IN
             \E par \in (IF UseBorders THEN BOOLEAN ELSE {FALSE}) :
               LET DD == RandomSubset(n, UserKeys)
                   ops == [k \in DD |-> RandomElement(Vals \cup {Absent})]
               IN Batch(ops, par)
SimSpec == Init /\ [][SimNext]_vars
=============================================================================
