------------------------------- MODULE MCStore -------------------------------
EXTENDS Store
\* keys 1..6 in byte order of their encoding: a/1 a/2 a/3 b/1 b/2 ab/1
MCPrefixOf(k) == CASE k \in {1, 2, 3, 4} -> "a" [] k \in {5, 6} -> "b" [] OTHER -> "ab"   \* a/1 a/1/x a/2 a/3 b/1 b/2 ab/1
=============================================================================
