---- MODULE MCTiming ----
EXTENDS Timing
\* waits of the default configuration in units of 250 ms (round 0): election 6, election-vote 6, propose 10, propose-vote 16, precommit 8, precommit-vote 8
MCWaitOf(k) == <<6, 6, 10, 16, 8, 8>>[k]
====
