------------------------------ MODULE Mempool ------------------------------
(***************************************************************************)
(* lib/mempool.go (FeeMempool): the pool of pending transactions a         *)
(* proposer builds blocks from.  A transaction is [id, fee, size]; the     *)
(* pool is a sequence ordered by fee, highest first, stable for equal fees *)
(* (insertion order), without duplicates.  Adding a batch skips what the   *)
(* pool or the batch already has, then - while the pool holds at least     *)
(* MaxCount transactions or more than MaxBytes bytes - drops the lowest    *)
(* DropPct per cent plus one.  A proposer takes the longest prefix whose    *)
(* sizes fit the block.  The operators are functions of the pool so that   *)
(* MempoolTrace.tla can use the specification as the oracle of the real    *)
(* implementation.                                                         *)
(***************************************************************************)
EXTENDS Integers, Sequences, FiniteSets, TLC

CONSTANTS MaxCount, MaxBytes, DropPct, MaxTxSize,
          G_StableOrder,   \* equal fees keep their insertion order
          G_DedupBatch,    \* a transaction repeated inside one batch is added once
          G_DropLowest     \* what is dropped at the limits are the lowest fees

Ids(pool) == {pool[i].id : i \in DOMAIN pool}
RECURSIVE Bytes(_)
Bytes(pool) == IF pool = << >> THEN 0 ELSE pool[1].size + Bytes(Tail(pool))

\* stable insertion of one transaction: behind every transaction with a fee >= its own
RECURSIVE Pos(_, _, _)
Pos(pool, tx, i) == IF i > Len(pool) THEN i
                    ELSE IF (IF G_StableOrder THEN pool[i].fee < tx.fee ELSE pool[i].fee <= tx.fee) THEN i ELSE Pos(pool, tx, i + 1)
InsertOne(pool, tx) == LET p == Pos(pool, tx, 1) IN SubSeq(pool, 1, p - 1) \o <<tx>> \o SubSeq(pool, p, Len(pool))
RECURSIVE InsertAll(_, _)
InsertAll(pool, batch) ==
   IF batch = << >> THEN pool
   ELSE IF batch[1].id \in Ids(pool) /\ G_DedupBatch THEN InsertAll(pool, Tail(batch))
        ELSE InsertAll(InsertOne(pool, batch[1]), Tail(batch))
\* lim = <<MaxCount, MaxBytes, DropPct, MaxTxSize>>: the limits are a parameter so that recorded executions with other
\* limits can be recomputed with the same operators
Lim == <<MaxCount, MaxBytes, DropPct, MaxTxSize>>
DropOnce(pool, lim) == LET n == (Len(pool) * lim[3]) \div 100 + 1
                      k == IF n >= Len(pool) THEN Len(pool) ELSE n
                  IN IF G_DropLowest THEN SubSeq(pool, 1, Len(pool) - k) ELSE SubSeq(pool, k + 1, Len(pool))
RECURSIVE Shrink(_, _)
Shrink(pool, lim) == IF Len(pool) >= lim[1] \/ Bytes(pool) > lim[2] THEN Shrink(DropOnce(pool, lim), lim) ELSE pool

\* AddTransactions: refused as a whole when one transaction of the batch is too big
AddF(pool, batch, lim) ==
   LET fresh == SelectSeq(batch, LAMBDA t : t.id \notin Ids(pool)) IN
   IF \E i \in DOMAIN fresh : fresh[i].size > lim[4] THEN [ok |-> FALSE, pool |-> pool]
   ELSE [ok |-> TRUE, pool |-> Shrink(InsertAll(pool, fresh), lim)]
RECURSIVE Prefix(_, _)
Prefix(pool, room) == IF pool = << >> \/ pool[1].size > room THEN << >> ELSE <<pool[1]>> \o Prefix(Tail(pool), room - pool[1].size)
GetF(pool, maxBytes) == Prefix(pool, maxBytes)
DeleteF(pool, ids) == SelectSeq(pool, LAMBDA t : t.id \notin ids)

\* ---- a small closed system for the design check ----------------------------------------------------------------
CONSTANTS TxIds, Fees, Sizes, MaxSteps
VARIABLES pool, steps, arrival, last
vars == <<pool, steps, arrival, last>>
Txs == [id : TxIds, fee : Fees, size : Sizes]
FeeOf(id) == Fees[1 + (id % Len(Fees))]      \* a transaction's fee and size are functions of its identity
SizeOf(id) == Sizes[1 + (id % Len(Sizes))]
Tx(id, seq) == [id |-> id, fee |-> FeeOf(id), size |-> SizeOf(id), seq |-> seq]      \* seq: arrival number (history only)
Init == pool = << >> /\ steps = 0 /\ arrival = 0 /\ last = [a |-> "init"]
Add(batch) == /\ steps < MaxSteps /\ LET r == AddF(pool, batch, Lim) IN pool' = r.pool
              /\ steps' = steps + 1 /\ arrival' = arrival + Len(batch) /\ last' = [a |-> IF AddF(pool, batch, Lim).ok THEN "add" ELSE "refused", batch |-> batch]
Delete(ids) == /\ steps < MaxSteps /\ pool' = DeleteF(pool, ids) /\ steps' = steps + 1 /\ last' = [a |-> "delete", batch |-> << >>] /\ UNCHANGED arrival
Next == \/ \E a, b \in TxIds : Add(<<Tx(a, arrival + 1), Tx(b, arrival + 2)>>)
        \/ \E a \in TxIds : Add(<<Tx(a, arrival + 1)>>) \/ Delete({a})
Spec == Init /\ [][Next]_vars

Sorted == \A i, j \in DOMAIN pool : i < j => pool[i].fee >= pool[j].fee
NoDuplicates == \A i, j \in DOMAIN pool : i # j => pool[i].id # pool[j].id
WithinLimits == Len(pool) < MaxCount /\ Bytes(pool) <= MaxBytes
\* what a proposer takes is a prefix of the pool in fee order that fits, and nothing that fits was skipped in front of it
ProposalIsBestPrefix == \A room \in 0..MaxBytes : LET g == GetF(pool, room) IN
                           /\ Bytes(g) <= room /\ g = SubSeq(pool, 1, Len(g))
                           /\ (Len(g) < Len(pool) => Bytes(g) + pool[Len(g) + 1].size > room)
\* equal fees: first come, first served
Fifo == \A i, j \in DOMAIN pool : i < j /\ pool[i].fee = pool[j].fee => pool[i].seq < pool[j].seq
\* what the limits force out is never better than what stays
DropsAreLowest == [][last'.a = "add" =>
                       LET offered == {pool[i] : i \in DOMAIN pool} \cup {last'.batch[i] : i \in DOMAIN last'.batch}
                           kept == {pool'[i] : i \in DOMAIN pool'}
                       IN \A d \in offered : d.id \notin {k.id : k \in kept} => \A k \in kept : d.fee <= k.fee]_vars
=============================================================================
