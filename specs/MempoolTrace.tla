---------------------------- MODULE MempoolTrace ----------------------------
(***************************************************************************)
(* Operation sequences executed on the REAL lib.FeeMempool (harness/poolx) *)
(* with every result and the pool's content afterwards.  TLC recomputes    *)
(* each step from the previously recorded pool with the operators of       *)
(* Mempool.tla (the limits of each sequence come from its start line) and  *)
(* requires the recorded pool, the returned transactions, the counters and *)
(* Contains() to be exactly the specification's; the module's invariants   *)
(* are evaluated on every recorded pool.                                   *)
(***************************************************************************)
EXTENDS Mempool, Json
VARIABLES l, ok, cur, cfg
Trace == ndJsonDeserialize("trace.ndjson")

IdSeq(p) == [i \in DOMAIN p |-> p[i].id]
Exempt(t) == t.fee = 1000000                  \* certificate results: ranked first, no individual size limit
SizeCapped(batch, c) == [i \in DOMAIN batch |-> IF Exempt(batch[i]) THEN [batch[i] EXCEPT !.size = 0] ELSE batch[i]]
Expected(r) ==
   CASE r.e = "add"    -> LET res == AddF(cur, r.batch, cfg)
                              \* the size limit is judged on the real size, exempt transactions never violate it
                              tooBig == \E i \in DOMAIN r.batch : r.batch[i].id \notin Ids(cur) /\ ~Exempt(r.batch[i]) /\ r.batch[i].size > cfg[4]
                          IN IF tooBig THEN [err |-> TRUE, pool |-> cur, got |-> << >>]
                             ELSE [err |-> FALSE, pool |-> Shrink(InsertAll(cur, SelectSeq(r.batch, LAMBDA t : t.id \notin Ids(cur))), cfg), got |-> << >>]
     [] r.e = "get"    -> [err |-> FALSE, pool |-> cur, got |-> IdSeq(GetF(cur, r.maxBytes))]
     [] r.e = "delete" -> [err |-> FALSE, pool |-> DeleteF(cur, {r.ids[i] : i \in DOMAIN r.ids}), got |-> << >>]
     [] r.e = "clear"  -> [err |-> FALSE, pool |-> << >>, got |-> << >>]

SortedP(p) == \A i, j \in DOMAIN p : i < j => p[i].fee >= p[j].fee
NoDupP(p) == \A i, j \in DOMAIN p : i # j => p[i].id # p[j].id
FifoP(p) == \A i, j \in DOMAIN p : i < j /\ p[i].fee = p[j].fee => p[i].seq < p[j].seq
Good(r) == LET e == Expected(r) IN
           /\ e.err = r.err
           /\ IdSeq(e.pool) = IdSeq(r.pool)
           /\ e.got = r.got
           /\ r.count = Len(r.pool) /\ r.bytes = Bytes(r.pool)
           /\ \A i \in DOMAIN r.ids : r.contains[i] = (r.ids[i] \in Ids(r.pool))
           /\ SortedP(r.pool) /\ NoDupP(r.pool) /\ FifoP(r.pool)
           /\ (r.e = "add" /\ ~r.err => Len(r.pool) < cfg[1] /\ Bytes(r.pool) <= cfg[2])

TraceNext == /\ UNCHANGED vars /\ l <= Len(Trace) /\ l' = l + 1 /\ TLCSet(1, l)
        /\ IF Trace[l].e = "start" THEN cfg' = Trace[l].cfg /\ cur' = << >> /\ ok' = TRUE
           ELSE cfg' = cfg /\ cur' = Trace[l].pool /\ ok' = Good(Trace[l])
TraceInit == l = 1 /\ ok = TRUE /\ cur = << >> /\ cfg = <<1, 1, 1, 1>> /\ TLCSet(1, 0) /\ pool = << >> /\ steps = 0 /\ arrival = 0 /\ last = [a |-> "trace"]
TraceSpec == TraceInit /\ [][TraceNext]_<<l, ok, cur, cfg, vars>>
TraceAccepted == TLCGet(1) = Len(Trace)
Report == ok \/ PrintT(<<"VIOL", l - 1>>)
=============================================================================
