-------------------------------- MODULE Mux --------------------------------
(***************************************************************************)
(* C18, p2p/conn.go: one MultiConn between two peers.  Concurrent Send     *)
(* calls cut a message into packets (the last one carries EOF) and queue   *)
(* them on the topic's send queue while holding the topic's mutex; ONE     *)
(* sender goroutine picks any non-empty topic queue and puts the head on   *)
(* the (ordered, authenticated) wire; the receiver appends the packet to   *)
(* the topic's assembler and on EOF hands the assembled message to the     *)
(* topic's inbox - or drops it when the inbox is full.  A peer may also    *)
(* put foreign traffic on the wire (unknown topic, a message beyond the    *)
(* limit): the connection is closed and nothing partial is delivered.      *)
(*                                                                         *)
(* A message is [id, topic, n] (n packets); packet = [id, topic, k, eof].  *)
(* An assembled message is the sequence of <<id, k>> it was built from.    *)
(***************************************************************************)
EXTENDS Integers, Sequences, FiniteSets, TLC

CONSTANTS Topics, Senders, MaxMsgs, MaxChunks, QueueCap, InboxCap, Limit,
          G_StreamMutex,      \* the packets of one message are queued without another message of the topic in between
          G_PerTopicAssembly, \* every topic has its own reassembly buffer
          G_EofOnLast,        \* exactly the last packet of a message carries EOF
          G_ResetOnDrop,      \* a message dropped at a full inbox leaves nothing behind in the assembler
          G_CapBeforeAppend   \* the size cap is checked before the packet is appended and the buffer is emptied

VARIABLES nextId,     \* message ids handed out so far
          sending,    \* sender -> the message being queued ([m, k] next packet) or None
          mutex,      \* topic -> holder or None
          queue,      \* topic -> sequence of packets
          wire,       \* packets in flight, in order
          asm,        \* topic -> sequence of <<id, k>> collected so far
          inbox,      \* topic -> sequence of assembled messages
          taken,      \* everything the application ever took out of an inbox: set of [topic, parts]
          sent,       \* every message given to Send: set of [id, topic, n]
          closed,     \* the connection has been closed
          last
vars == <<nextId, sending, mutex, queue, wire, asm, inbox, taken, sent, closed, last>>
view == <<nextId, sending, mutex, queue, wire, asm, inbox, taken, sent, closed>>
None == "none"
Idle == [m |-> [id |-> 0, topic |-> "", n |-> 0], k |-> 0]

Init == /\ nextId = 0 /\ sending = [s \in Senders |-> Idle] /\ mutex = [t \in Topics |-> None]
        /\ queue = [t \in Topics |-> << >>] /\ wire = << >> /\ asm = [t \in Topics |-> << >>]
        /\ inbox = [t \in Topics |-> << >>] /\ taken = {} /\ sent = {} /\ closed = FALSE /\ last = [a |-> "init"]

\* ---- sending side --------------------------------------------------------------------------------------------
SendBegin(s, t, n) ==
   /\ ~closed /\ sending[s] = Idle /\ nextId < MaxMsgs /\ n \in 1..MaxChunks
   /\ (G_StreamMutex => mutex[t] = None)
   /\ LET m == [id |-> nextId + 1, topic |-> t, n |-> n] IN
      /\ sending' = [sending EXCEPT ![s] = [m |-> m, k |-> 1]]
      /\ sent' = sent \cup {m}
   /\ mutex' = IF G_StreamMutex THEN [mutex EXCEPT ![t] = s] ELSE mutex
   /\ nextId' = nextId + 1
   /\ last' = [a |-> "sendBegin", s |-> s]
   /\ UNCHANGED <<queue, wire, asm, inbox, taken, closed>>

Enqueue(s) ==
   /\ sending[s] # Idle
   /\ LET m == sending[s].m
          k == sending[s].k
          t == m.topic
          eof == IF G_EofOnLast THEN k = m.n ELSE (k = m.n /\ m.n = 1)    \* the deviation: multi-packet messages never end
      IN /\ Len(queue[t]) < QueueCap
         /\ queue' = [queue EXCEPT ![t] = Append(@, [id |-> m.id, topic |-> t, k |-> k, eof |-> eof])]
         /\ IF k = m.n
            THEN /\ sending' = [sending EXCEPT ![s] = Idle]
                 /\ mutex' = IF G_StreamMutex THEN [mutex EXCEPT ![t] = None] ELSE mutex
            ELSE /\ sending' = [sending EXCEPT ![s].k = k + 1] /\ UNCHANGED mutex
   /\ last' = [a |-> "enqueue", s |-> s]
   /\ UNCHANGED <<nextId, wire, asm, inbox, taken, sent, closed>>

\* the single sender goroutine: select across topic queues
ToWire(t) ==
   /\ ~closed /\ Len(queue[t]) > 0
   /\ wire' = Append(wire, Head(queue[t])) /\ queue' = [queue EXCEPT ![t] = Tail(@)]
   /\ last' = [a |-> "toWire", t |-> t]
   /\ UNCHANGED <<nextId, sending, mutex, asm, inbox, taken, sent, closed>>

\* ---- receiving side ------------------------------------------------------------------------------------------
Slot(t) == IF G_PerTopicAssembly THEN t ELSE CHOOSE x \in Topics : TRUE
Receive ==
   /\ ~closed /\ Len(wire) > 0
   /\ LET p == Head(wire) IN
      /\ wire' = Tail(wire)
      /\ IF p.topic \notin Topics
         THEN /\ closed' = TRUE /\ UNCHANGED <<asm, inbox>>                    \* unknown stream: close
         ELSE LET slot == Slot(p.topic)
                  over == Len(asm[slot]) + 1 > Limit
              IN IF over /\ G_CapBeforeAppend
                 THEN /\ closed' = TRUE /\ asm' = [asm EXCEPT ![slot] = << >>] /\ UNCHANGED inbox
                 ELSE LET parts == Append(asm[slot], <<p.id, p.k>>) IN
                      IF p.eof
                      THEN /\ closed' = closed
                           /\ IF Len(inbox[p.topic]) < InboxCap
                              THEN inbox' = [inbox EXCEPT ![p.topic] = Append(@, parts)] /\ asm' = [asm EXCEPT ![slot] = << >>]
                              ELSE /\ UNCHANGED inbox                          \* full inbox: the newest message is dropped
                                   /\ asm' = [asm EXCEPT ![slot] = IF G_ResetOnDrop THEN << >> ELSE parts]
                      ELSE /\ asm' = [asm EXCEPT ![slot] = parts] /\ UNCHANGED <<inbox, closed>>
   /\ last' = [a |-> "receive"]
   /\ UNCHANGED <<nextId, sending, mutex, queue, taken, sent>>

\* the application reads an inbox
Take(t) == /\ Len(inbox[t]) > 0
           /\ taken' = taken \cup {[topic |-> t, parts |-> Head(inbox[t])]}
           /\ inbox' = [inbox EXCEPT ![t] = Tail(@)]
           /\ last' = [a |-> "take", t |-> t]
           /\ UNCHANGED <<nextId, sending, mutex, queue, wire, asm, sent, closed>>

\* the peer puts foreign traffic on the wire: a packet for a topic that does not exist
Foreign == /\ ~closed /\ Len(wire) < 3
           /\ wire' = Append(wire, [id |-> 0, topic |-> "nosuch", k |-> 1, eof |-> TRUE])
           /\ last' = [a |-> "foreign"]
           /\ UNCHANGED <<nextId, sending, mutex, queue, asm, inbox, taken, sent, closed>>

Next == \/ \E s \in Senders, t \in Topics, n \in 1..MaxChunks : SendBegin(s, t, n)
        \/ \E s \in Senders : Enqueue(s)
        \/ \E t \in Topics : ToWire(t) \/ Take(t)
        \/ Receive \/ Foreign
Spec == Init /\ [][Next]_vars

\* ---- properties -----------------------------------------------------------------------------------------------
Parts(m) == [k \in 1..m.n |-> <<m.id, k>>]
Delivered == taken \cup UNION {{[topic |-> t, parts |-> inbox[t][i]] : i \in 1..Len(inbox[t])} : t \in Topics}
\* whole, unmodified, on the topic it was sent on
Whole == \A d \in Delivered : \E m \in sent : m.topic = d.topic /\ d.parts = Parts(m)
\* no message is delivered twice
AtMostOnce == \A t \in Topics : \A i, j \in 1..Len(inbox[t]) : i # j => inbox[t][i] # inbox[t][j]
\* messages of a topic arrive in the order in which their Send calls took the topic's queue (ids grow per topic)
RECURSIVE Increasing(_)
Increasing(s) == Len(s) < 2 \/ (s[1][1][1] < s[2][1][1] /\ Increasing(Tail(s)))
TopicOrder == \A t \in Topics : Increasing(inbox[t])
\* nothing beyond the message limit is ever delivered
NoOversize == \A d \in Delivered : Len(d.parts) <= Limit
=============================================================================
