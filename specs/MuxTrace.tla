----------------------------- MODULE MuxTrace -----------------------------
(***************************************************************************)
(* Executions of REAL p2p.MultiConn pairs (harness/muxx) checked against   *)
(* Mux.tla: the model's history variables `sent` (every message given to   *)
(* Send) and `taken` (everything that came out of a remote inbox) are set  *)
(* from the log, and the model's own invariants are evaluated on them.     *)
(* A delivery that is not byte for byte one whole sent message is recorded *)
(* as a part sequence no sent message has.                                 *)
(***************************************************************************)
EXTENDS Mux, Json
VARIABLES l, ok
tvars == <<vars, l, ok>>
Trace == ndJsonDeserialize("trace.ndjson")

TraceInit == Init /\ l = 1 /\ ok = TRUE /\ TLCSet(1, 0)

Msg(r) == [id |-> <<r.dir, r.id>>, topic |-> r.topic, n |-> r.n]     \* one connection carries two independent directions
Got(r) == [topic |-> r.topic, parts |-> IF r.ok THEN Parts(Msg(r)) ELSE <<<<<<r.dir, r.id>>, 0>>>>]
Keep == UNCHANGED <<nextId, sending, mutex, queue, wire, asm, inbox, closed>>

Step(r) ==
   CASE r.e = "case"    -> /\ sent' = {} /\ taken' = {} /\ last' = [a |-> "init"] /\ ok' = TRUE /\ Keep
     [] r.e = "send"    -> /\ sent' = sent \cup {Msg(r)} /\ UNCHANGED taken /\ last' = [a |-> "send"] /\ ok' = TRUE /\ Keep
     [] r.e = "deliver" -> /\ taken' = taken \cup {Got(r)} /\ UNCHANGED sent /\ last' = [a |-> "deliver"] /\ Keep
                           /\ ok' = (Got(r) \notin taken /\ r.senderOK)          \* at most once, attributed to the authenticated peer
     [] r.e = "end"     -> /\ UNCHANGED <<sent, taken>> /\ last' = [a |-> "end"] /\ Keep
                           /\ ok' = (Whole /\ NoOversize)
     [] r.e = "attack"  -> /\ UNCHANGED <<sent, taken>> /\ last' = [a |-> "attack"] /\ Keep
                           /\ ok' = (Whole /\ NoOversize /\ (r.ok => r.closed))     \* foreign traffic: closed, nothing partial delivered

TraceNext == l <= Len(Trace) /\ l' = l + 1 /\ Step(Trace[l]) /\ TLCSet(1, l)
TraceSpec == TraceInit /\ [][TraceNext]_tvars
TraceAccepted == TLCGet(1) = Len(Trace)
Report == ok \/ PrintT(<<"VIOL", l - 1, last>>)
=============================================================================
