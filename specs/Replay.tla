------------------------------- MODULE Replay -------------------------------
(***************************************************************************)
(* C06.  A transaction is a signed CONTENT carried by a byte ENCODING.     *)
(* The signature covers the content (re-marshalled form); a node keeps an  *)
(* index of what it included.  The intended filter identifies a            *)
(* transaction by its content; G_ReplayByContent = FALSE models a filter   *)
(* that identifies it by the hash of the raw bytes although several byte   *)
(* strings decode to one content.  An encoding is anything outside the     *)
(* signed content that changes the bytes: protobuf field order, explicit   *)
(* defaults, non-minimal varints, and the representation of the public key *)
(* and of the signature in the Signature field ("altkey": the 0x04         *)
(* prefixed form of an Ethereum key, a high-s signature, S + L).           *)
(***************************************************************************)
EXTENDS Integers, FiniteSets, TLC

CONSTANTS Contents,       \* signed contents; each is [chain, net, created]
          Encodings,      \* byte encodings of one content (the canonical one is "canon")
          ThisChain, ThisNet, Window, MaxHeight,
          G_ReplayByContent, G_ChainBound, G_WindowBound

VARIABLES height, indexed,   \* set of <<content, encoding>> that were included
          execs,             \* content -> number of executions
          last
vars == <<height, indexed, execs, last>>
view == <<height, indexed, execs>>

Init == height = 2 /\ indexed = {} /\ execs = [c \in Contents |-> 0] /\ last = [a |-> "Init"]

Seen(c, e) == IF G_ReplayByContent THEN \E x \in indexed : x[1] = c ELSE <<c, e>> \in indexed
InWindow(c) == c.created <= height + Window /\ c.created + Window >= height
Accept(c, e) ==
   /\ ~Seen(c, e)
   /\ G_ChainBound => (c.chain = ThisChain /\ c.net = ThisNet)
   /\ G_WindowBound => InWindow(c)

\* one block that offers (c, e)
Offer(c, e) ==
   /\ height < MaxHeight
   /\ IF Accept(c, e)
      THEN indexed' = indexed \cup {<<c, e>>} /\ execs' = [execs EXCEPT ![c] = @ + 1]
      ELSE UNCHANGED <<indexed, execs>>
   /\ height' = height + 1
   /\ last' = [a |-> "Offer", c |-> c, e |-> e]

Next == \E c \in Contents, e \in Encodings : Offer(c, e)
Spec == Init /\ [][Next]_vars

AtMostOnce == \A c \in Contents : execs[c] <= 1
OnlyThisChain == \A c \in Contents : (c.chain # ThisChain \/ c.net # ThisNet) => execs[c] = 0
OnlyInWindow == \A c \in Contents : execs[c] > 0 => c.created <= MaxHeight + Window
=============================================================================
