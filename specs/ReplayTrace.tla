---------------------------- MODULE ReplayTrace ----------------------------
(***************************************************************************)
(* Recorded offers to a REAL node (harness/nodex replay): per signed       *)
(* content the number of executions (observed on the recipient's balance)  *)
(* must never exceed one; content for another chain / network or beyond    *)
(* the creation window must never execute; the first canonical offer of a  *)
(* legitimate content must execute (otherwise the run shows nothing).      *)
(***************************************************************************)
EXTENDS Integers, Sequences, FiniteSets, TLC, Json
VARIABLES l, execs, cur
vars == <<l, execs, cur>>
Trace == ndJsonDeserialize("trace.ndjson")
Ids == 1..30
Init == l = 1 /\ execs = [c \in Ids |-> 0] /\ cur = [kind |-> "none"] /\ TLCSet(1, 0)
Next == /\ l <= Len(Trace) /\ l' = l + 1
        /\ LET r == Trace[l] IN
             /\ cur' = r
             /\ execs' = IF r.kind = "start" THEN [c \in Ids |-> 0]
                         ELSE IF r.content \in Ids /\ r.executed THEN [execs EXCEPT ![r.content] = @ + 1] ELSE execs
        /\ TLCSet(1, l)
Spec == Init /\ [][Next]_vars
TraceAccepted == TLCGet(1) = Len(Trace)
AtMostOnce == (cur.kind = "offer" /\ cur.content \in Ids) => execs[cur.content] <= 1   \* about the content just offered
Foreign == cur.kind = "offer" /\ cur.variant \in {"other-chain", "other-network", "created-beyond-window", "chain-id-rewritten", "network-id-rewritten"}
ForeignNeverExecutes == Foreign => ~cur.executed
LegitExecutes == (cur.kind = "offer" /\ cur.legit) => cur.executed
NoError == cur.kind = "offer" => cur.err = ""
Preds == [AtMostOnce |-> AtMostOnce, ForeignNeverExecutes |-> ForeignNeverExecutes, LegitExecutes |-> LegitExecutes, NoError |-> NoError]
Report == (\A p \in DOMAIN Preds : Preds[p]) \/ PrintT(<<"VIOL", l - 1, Preds>>)
=============================================================================
