------------------------------- MODULE Slash -------------------------------
(***************************************************************************)
(* C14 (last clause) / C03: the per-block slash budget, fsm/byzantine.go   *)
(* SlashValidator + SlashTracker and fsm/state.go ApplyTransactions /      *)
(* Reset.  Under protocol version 2 a committee may take at most MaxSlash  *)
(* percent of a validator's stake within one block; the budget already     *)
(* used is remembered in an IN-MEMORY tracker (validator, committee) ->    *)
(* percent that is neither in the store nor in the caches.  The store is   *)
(* rolled back when a transaction fails on delivery and when a speculative *)
(* execution of a block is discarded, so the tracker must be rolled back   *)
(* with it - exactly as far, no further:                                   *)
(*   TxFail   : back to the tracker at the start of THAT transaction       *)
(*   Reset    : an empty tracker (the block starts over)                   *)
(*   Commit   : an empty tracker (a new block has a new budget)            *)
(* `appl` is a ghost: the percent that really went out of the validator's  *)
(* stake in the surviving execution of the current block.                  *)
(***************************************************************************)
EXTENDS Integers, Sequences, FiniteSets, TLC

CONSTANTS Vals, Chains, MaxSlash, Pcts, Stake0, MaxSteps, MaxBlocks,
          G_RollbackPerTx,   \* a failed transaction restores the tracker of its own start (not of the block's start)
          G_ResetClears,     \* discarding a speculative execution empties the tracker
          G_FreshPerBlock,   \* every block starts with an empty tracker
          G_EjectAtCap,      \* the slash that reaches the cap removes the validator from that committee
          G_CheckBudget      \* a slash looks at the budget already used

\* ---- the pure step: one call of SlashValidator (shared with SlashTrace.tla) ------------------------------------
After(s, p) == IF p >= 100 THEN 0 ELSE (s * (100 - p)) \div 100
\* st = [stake |-> [v -> Nat], comm |-> [v -> SUBSET Chains], tr |-> [v -> [c -> Nat]]];  a validator with stake 0 does not exist
SlashCapped(st, v, c, pct, max, checkBudget, eject) ==
   IF st.stake[v] = 0 \/ c \notin st.comm[v] THEN st          \* unknown validator / not a member of the slashing committee
   ELSE LET tot == IF checkBudget THEN st.tr[v][c] ELSE 0 IN
        IF tot >= max THEN st                                  \* budget used up: nothing happens
        ELSE LET hit == tot + pct >= max
                 p   == IF hit THEN max - tot ELSE pct
                 ns  == After(st.stake[v], p)
             IN [st EXCEPT !.stake[v] = ns,
                           !.comm[v] = IF ns = 0 THEN {} ELSE IF hit /\ eject THEN @ \ {c} ELSE @,
                           !.tr[v][c] = st.tr[v][c] + p]
\* protocol version 1: not scoped to a committee, no budget
SlashPlain(st, v, pct) == IF st.stake[v] = 0 THEN st
                          ELSE LET ns == After(st.stake[v], pct) IN [st EXCEPT !.stake[v] = ns, !.comm[v] = IF ns = 0 THEN {} ELSE @]
Applied(old, new, v, c) == new.tr[v][c] - old.tr[v][c]

\* ---- the block execution engine ----------------------------------------------------------------------------------
VARIABLES cur,      \* working state of the execution (stake, comm, tr)
          base,     \* committed state the block builds on (stake, comm)
          appl,     \* ghost: [v -> [c -> percent really applied in the surviving execution of this block]]
          inTx,     \* a transaction is being delivered
          txsnap,   \* cur and appl at the start of that transaction
          blocktr,  \* the tracker when the block's transactions started (what a hoisted snapshot would hold)
          steps, blocks, last
vars == <<cur, base, appl, inTx, txsnap, blocktr, steps, blocks, last>>
view == <<cur, base, appl, inTx, txsnap, blocktr, steps, blocks>>

Zero == [v \in Vals |-> [c \in Chains |-> 0]]
Init == /\ cur = [stake |-> [v \in Vals |-> Stake0], comm |-> [v \in Vals |-> Chains], tr |-> Zero]
        /\ base = [stake |-> [v \in Vals |-> Stake0], comm |-> [v \in Vals |-> Chains]]
        /\ appl = Zero /\ inTx = FALSE /\ txsnap = [cur |-> cur, appl |-> Zero] /\ blocktr = Zero
        /\ steps = 0 /\ blocks = 0 /\ last = [a |-> "init"]

Tick == steps < MaxSteps /\ steps' = steps + 1
DoSlash(v, c, pct) ==
   LET n == SlashCapped(cur, v, c, pct, MaxSlash, G_CheckBudget, G_EjectAtCap) IN
   /\ cur' = n
   /\ appl' = [appl EXCEPT ![v][c] = @ + Applied(cur, n, v, c)]

\* a slash ordered by the last certificate of the own chain, at the beginning of the block (cannot fail)
BeginSlash(v, c, pct) == /\ ~inTx /\ Tick /\ DoSlash(v, c, pct) /\ blocktr' = cur'.tr
                         /\ last' = [a |-> "beginSlash", v |-> v, c |-> c]
                         /\ UNCHANGED <<base, inTx, txsnap, blocks>>
TxBegin == /\ ~inTx /\ Tick /\ inTx' = TRUE /\ txsnap' = [cur |-> cur, appl |-> appl]
           /\ last' = [a |-> "txBegin"] /\ UNCHANGED <<cur, base, appl, blocktr, blocks>>
\* a slash ordered by a certificate-results transaction of a nested chain
TxSlash(v, c, pct) == /\ inTx /\ Tick /\ DoSlash(v, c, pct)
                      /\ last' = [a |-> "txSlash", v |-> v, c |-> c]
                      /\ UNCHANGED <<base, inTx, txsnap, blocktr, blocks>>
TxOk == /\ inTx /\ Tick /\ inTx' = FALSE /\ last' = [a |-> "txOk"]
        /\ UNCHANGED <<cur, base, appl, txsnap, blocktr, blocks>>
\* the transaction fails on delivery: its store writes are dropped
TxFail == /\ inTx /\ Tick /\ inTx' = FALSE
          /\ cur' = [stake |-> txsnap.cur.stake, comm |-> txsnap.cur.comm, tr |-> IF G_RollbackPerTx THEN txsnap.cur.tr ELSE blocktr]
          /\ appl' = txsnap.appl
          /\ last' = [a |-> "txFail"] /\ UNCHANGED <<base, txsnap, blocktr, blocks>>
\* a speculative execution (a proposal that was validated but not committed) is discarded: Reset()
Reset == /\ ~inTx /\ Tick
         /\ cur' = [stake |-> base.stake, comm |-> base.comm, tr |-> IF G_ResetClears THEN Zero ELSE cur.tr]
         /\ appl' = Zero /\ blocktr' = cur'.tr
         /\ last' = [a |-> "reset"] /\ UNCHANGED <<base, inTx, txsnap, blocks>>
\* the block is committed; the next one starts
Commit == /\ ~inTx /\ blocks < MaxBlocks /\ blocks' = blocks + 1 /\ steps' = 0
          /\ base' = [stake |-> cur.stake, comm |-> cur.comm]
          /\ cur' = [cur EXCEPT !.tr = IF G_FreshPerBlock THEN Zero ELSE @]
          /\ appl' = Zero /\ blocktr' = cur'.tr
          /\ last' = [a |-> "commit"] /\ UNCHANGED <<inTx, txsnap>>

Next == \/ \E v \in Vals, c \in Chains, p \in Pcts : BeginSlash(v, c, p) \/ TxSlash(v, c, p)
        \/ TxBegin \/ TxOk \/ TxFail \/ Reset \/ Commit
Spec == Init /\ [][Next]_vars

\* ---- properties ---------------------------------------------------------------------------------------------------
\* within one block a committee never takes more than the cap from a validator
CapPerBlock == \A v \in Vals, c \in Chains : appl[v][c] <= MaxSlash
\* the tracker is exactly what was applied in the surviving execution: the result of executing a block is a function of
\* the committed state and the block alone (C03: not of earlier discarded executions or failed transactions)
TrackerExact == ~inTx => cur.tr = appl
\* reaching the cap ends the membership
EjectedAtCap == \A v \in Vals, c \in Chains : appl[v][c] >= MaxSlash => c \notin cur.comm[v]
\* the stake never falls below what the caps of the validator's committees allow (percent sums overestimate the loss)
LossBound == \A v \in Vals : cur.stake[v] * 100 + 100 * MaxSteps >= base.stake[v] * (100 - MaxSlash * Cardinality(base.comm[v]))
=============================================================================
