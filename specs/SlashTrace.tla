----------------------------- MODULE SlashTrace -----------------------------
(***************************************************************************)
(* Blocks executed by the REAL node (harness/nodex slash mode): the stake  *)
(* and committees of the slashed validators before the block, the slashes  *)
(* the block orders (own-chain certificate at block begin, then the        *)
(* certificate-results transactions of a nested chain in block order, with *)
(* failing transactions between them) and the validators afterwards - in   *)
(* the state the proposer's header commits to and in the committed state.  *)
(* TLC folds Slash.tla's SlashCapped / SlashPlain over the orders.         *)
(***************************************************************************)
EXTENDS Slash, Json
VARIABLES l, ok
Trace == ndJsonDeserialize("trace.ndjson")

Names(r) == {r.before[i].name : i \in DOMAIN r.before}
Rec(seq, n) == seq[CHOOSE i \in DOMAIN seq : seq[i].name = n]
ToSet(s) == {s[i] : i \in DOMAIN s}
St0(r) == [stake |-> [n \in Names(r) |-> Rec(r.before, n).stake],
           comm  |-> [n \in Names(r) |-> ToSet(Rec(r.before, n).committees)],
           tr    |-> [n \in Names(r) |-> [c \in {1, 2} |-> 0]]]
RECURSIVE Fold(_, _, _)
Fold(r, st, i) == IF i > Len(r.slashes) THEN st
                  ELSE LET o == r.slashes[i] IN
                       Fold(r, IF o.name \notin Names(r) THEN st
                               ELSE IF r.capOn THEN SlashCapped(st, o.name, o.chain, o.pct, r.max, TRUE, TRUE)
                               ELSE SlashPlain(st, o.name, o.pct), i + 1)
Present(r, n) == \E i \in DOMAIN r.after : r.after[i].name = n
StakeAfter(r, n) == IF Present(r, n) THEN Rec(r.after, n).stake ELSE 0
CommAfter(r, n) == IF Present(r, n) THEN ToSet(Rec(r.after, n).committees) ELSE {}
\* the property: a committee takes from a validator no more than what it ordered and never more than its cap (percent sums
\* overestimate the loss of consecutive slashes, so this is a lower bound on the stake for ANY correct implementation)
Slashers(r, n) == {r.slashes[i].chain : i \in {j \in DOMAIN r.slashes : r.slashes[j].name = n}} \cap ToSet(Rec(r.before, n).committees)
RECURSIVE Ordered(_, _, _, _)
Ordered(r, n, c, i) == IF i > Len(r.slashes) THEN 0
                       ELSE (IF r.slashes[i].name = n /\ r.slashes[i].chain = c THEN r.slashes[i].pct ELSE 0) + Ordered(r, n, c, i + 1)
Min(a, b) == IF a < b THEN a ELSE b
RECURSIVE Floor(_, _, _, _)
Floor(r, n, s, cs) == IF cs = {} THEN s ELSE LET c == CHOOSE x \in cs : TRUE IN Floor(r, n, After(s, Min(Ordered(r, n, c, 1), r.max)), cs \ {c})
WithinCap(r) == r.capOn => \A n \in Names(r) : StakeAfter(r, n) + 2 * Len(r.slashes) >= Floor(r, n, Rec(r.before, n).stake, Slashers(r, n))
\* the design's rule, exactly
Exact(r) == LET e == Fold(r, St0(r), 1) IN \A n \in Names(r) : StakeAfter(r, n) = e.stake[n] /\ CommAfter(r, n) = e.comm[n]
\* more was taken than the block's fresh evidence orders: a (validator, height) pair slashed again, or a slash nobody ordered
MoreThanOrdered(r) == LET e == Fold(r, St0(r), 1) IN \E n \in Names(r) : StakeAfter(r, n) + 2 * Len(r.slashes) < e.stake[n]
\* a certificate-results transaction that reports only new pairs at a new chain height was not executed
ValidRefused(r) == r.validIncluded < r.validSubmitted
Judge(r) == IF r.kind = "wedge" THEN "wedge" ELSE IF ~WithinCap(r) THEN "over-cap" ELSE IF MoreThanOrdered(r) THEN "more-than-ordered"
            ELSE IF ValidRefused(r) THEN "valid-refused" ELSE IF ~Exact(r) THEN "deviation" ELSE "ok"

TraceInit == /\ l = 1 /\ ok = "ok" /\ TLCSet(1, 0)
             /\ cur = 0 /\ base = 0 /\ appl = 0 /\ inTx = FALSE /\ txsnap = 0 /\ blocktr = 0 /\ steps = 0 /\ blocks = 0 /\ last = 0
TraceNext == l <= Len(Trace) /\ l' = l + 1 /\ ok' = Judge(Trace[l]) /\ TLCSet(1, l) /\ UNCHANGED vars
TraceSpec == TraceInit /\ [][TraceNext]_<<l, ok, vars>>
TraceAccepted == TLCGet(1) = Len(Trace)
Report == ok = "ok" \/ PrintT(<<"VIOL", l - 1, ok>>)
=============================================================================
