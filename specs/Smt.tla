-------------------------------- MODULE Smt --------------------------------
(***************************************************************************)
(* The state-commitment tree of store/smt.go: a compressed binary trie     *)
(* over K-bit key hashes with a minimum (0...0) and a maximum (1...1)      *)
(* sentinel leaf, batches of set/delete operations processed in sorted     *)
(* order (sequential commit), the parallel commit with synthetic border    *)
(* leaves, Merkle proofs and the proof verifier.                           *)
(*                                                                         *)
(* Hashes are injective terms.  C08: the stored tree after ANY history is  *)
(* Canon(state) node for node.  C16: proofs produced for true statements   *)
(* verify, and no proof of the adversarial family verifies for a false     *)
(* statement.                                                              *)
(***************************************************************************)
EXTENDS Integers, Sequences, FiniteSets, TLC

CONSTANTS K,            \* key length in bits
          Vals,         \* value tags
          Absent,
          UseBorders,   \* model the parallel commit (needs K >= 5)
          G_ProofEndsAtProven  \* the verifier's re-traversal must end at the proven node, and a non-membership
                               \* proof must end where the path to the key really leaves the tree

Bit == {0, 1}
AllKeys == [1..K -> Bit]
MinKey == [i \in 1..K |-> 0]
MaxKey == [i \in 1..K |-> 1]
\* the root node is stored under the K-bit truncation of 0x7FFF..: that key is reserved like the sentinels
RootPat == [i \in 1..K |-> IF i = 1 THEN 0 ELSE 1]
\* border leaves of the 8 parallel subtrees: prefix i (3 bits) followed by all zeros / all ones
IsBorder(k) == K >= 5 /\ ((\A i \in 4..K : k[i] = 0) \/ (\A i \in 4..K : k[i] = 1))
UserKeys == (IF UseBorders THEN {k \in AllKeys : ~IsBorder(k)} ELSE AllKeys \ {MinKey, MaxKey}) \ {RootPat}
Borders == {k \in AllKeys : IsBorder(k)} \ {MinKey, MaxKey}

VARIABLES st,     \* abstract state: UserKeys -> Vals \cup {Absent}
          tree,   \* the stored tree (functional mirror of the node store)
          last
vars == <<st, tree, last>>
view == <<st, tree>>

-----------------------------------------------------------------------------
\* bit strings
Prefix(a, n) == SubSeq(a, 1, n)
IsPrefixOf(p, k) == Len(p) <= Len(k) /\ Prefix(k, Len(p)) = p
RECURSIVE GcpLen(_, _, _)
GcpLen(a, b, n) == IF n < Len(a) /\ n < Len(b) /\ a[n + 1] = b[n + 1] THEN GcpLen(a, b, n + 1) ELSE n
Gcp(a, b) == Prefix(a, GcpLen(a, b, 0))
\* lexicographic order on equal-length keys
RECURSIVE KeyLess(_, _, _)
KeyLess(a, b, i) == IF i > K THEN FALSE ELSE IF a[i] # b[i] THEN a[i] < b[i] ELSE KeyLess(a, b, i + 1)

\* trees
Leaf(k, v) == [t |-> "L", k |-> k, v |-> v]
Node(k, l, r) == [t |-> "N", k |-> k, l |-> l, r |-> r]
RootK == << >>

\* the hash of a node as an injective term (updateParentValue: H(lkey, lval, rkey, rval))
RECURSIVE Hv(_)
Hv(t) == IF t.t = "L" THEN <<"v", t.v>> ELSE <<"H", t.l.k, Hv(t.l), t.r.k, Hv(t.r)>>

\* canonical tree of a set of leaves sharing prefix p
RECURSIVE CanonSub(_)
CanonSub(L) ==
   IF Cardinality(L) = 1 THEN CHOOSE x \in L : TRUE
   ELSE LET a == CHOOSE x \in L : TRUE
            n == CHOOSE m \in 0..K : (\A x \in L : Prefix(x.k, m) = Prefix(a.k, m)) /\
                                    (m = K \/ \E x \in L : x.k[m + 1] # a.k[m + 1])
        IN Node(Prefix(a.k, n), CanonSub({x \in L : x.k[n + 1] = 0}), CanonSub({x \in L : x.k[n + 1] = 1}))

LeavesOf(s) == {Leaf(MinKey, "min"), Leaf(MaxKey, "max")} \cup {Leaf(k, s[k]) : k \in {x \in DOMAIN s : s[x] # Absent}}
Canon(s) == LET L == LeavesOf(s)
            IN Node(RootK, CanonSub({x \in L : x.k[1] = 0}), CanonSub({x \in L : x.k[1] = 1}))
RootOf(s) == Hv(Canon(s))

-----------------------------------------------------------------------------
\* implementation-shaped updates: one key at a time, as traverse()+set()/delete() do
Join(a, b) == LET p == Gcp(a.k, b.k)
              IN IF b.k[Len(p) + 1] = 0 THEN Node(p, b, a) ELSE Node(p, a, b)

RECURSIVE Ins(_, _, _)
Ins(t, k, v) ==
   IF t.t = "L" THEN (IF t.k = k THEN Leaf(k, v) ELSE Join(t, Leaf(k, v)))
   ELSE IF t.k = RootK \/ IsPrefixOf(t.k, k)
        THEN LET n == IF t.k = RootK THEN 0 ELSE Len(t.k)
             IN IF k[n + 1] = 0 THEN Node(t.k, Ins(t.l, k, v), t.r) ELSE Node(t.k, t.l, Ins(t.r, k, v))
        ELSE Join(t, Leaf(k, v))

RECURSIVE Del(_, _)
Del(t, k) ==
   IF t.t = "L" THEN t
   ELSE IF t.k = RootK \/ IsPrefixOf(t.k, k)
        THEN LET n == IF t.k = RootK THEN 0 ELSE Len(t.k)
                 c == IF k[n + 1] = 0 THEN t.l ELSE t.r
                 o == IF k[n + 1] = 0 THEN t.r ELSE t.l
             IN IF c.t = "L" /\ c.k = k /\ t.k # RootK THEN o     \* parent replaced by the sibling
                ELSE IF k[n + 1] = 0 THEN Node(t.k, Del(t.l, k), t.r) ELSE Node(t.k, t.l, Del(t.r, k))
        ELSE t

\* a batch is a function from a set of keys to Vals \cup {Absent}; processed in key order
RECURSIVE ApplySorted(_, _, _)
ApplySorted(t, ops, ks) ==
   IF ks = {} THEN t
   ELSE LET k == CHOOSE x \in ks : \A y \in ks : y = x \/ KeyLess(x, y, 1)
            t2 == IF ops[k] = Absent THEN Del(t, k) ELSE Ins(t, k, ops[k])
        IN ApplySorted(t2, ops, ks \ {k})

\* sequential commit
CommitSeq(t, ops) == ApplySorted(t, ops, DOMAIN ops)

\* parallel commit: insert the synthetic borders, apply, delete the borders
RECURSIVE InsAll(_, _)
InsAll(t, ks) == IF ks = {} THEN t ELSE LET k == CHOOSE x \in ks : TRUE IN InsAll(Ins(t, k, "border"), ks \ {k})
RECURSIVE DelAll(_, _)
DelAll(t, ks) == IF ks = {} THEN t ELSE LET k == CHOOSE x \in ks : TRUE IN DelAll(Del(t, k), ks \ {k})
CommitPar(t, ops) == DelAll(ApplySorted(InsAll(t, Borders), ops, DOMAIN ops), Borders)

-----------------------------------------------------------------------------
Init == /\ st = [k \in UserKeys |-> Absent]
        /\ tree = Canon([k \in UserKeys |-> Absent])
        /\ last = [a |-> "Init"]

Batch(ops, par) ==
   /\ DOMAIN ops # {}
   /\ st' = [k \in UserKeys |-> IF k \in DOMAIN ops THEN ops[k] ELSE st[k]]
   /\ tree' = IF par THEN CommitPar(tree, ops) ELSE CommitSeq(tree, ops)
   /\ last' = [a |-> "Batch", ops |-> ops, par |-> par]

Next == \E D \in SUBSET UserKeys : \E ops \in [D -> Vals \cup {Absent}] : \E par \in (IF UseBorders THEN BOOLEAN ELSE {FALSE}) :
           Batch(ops, par)
Spec == Init /\ [][Next]_vars

\* C08: whatever the history, the stored tree is the canonical tree of the state
TreeIsCanon == tree = Canon(st)

-----------------------------------------------------------------------------
\* proofs (GetMerkleProof): the node where the traversal towards k stops, then the siblings up to the root
RECURSIVE PathTo(_, _)
PathTo(t, k) ==   \* sequence of nodes from t down to the stop node
   IF t.t = "L" THEN <<t>>
   ELSE IF t.k = RootK \/ (IsPrefixOf(t.k, k) /\ Len(t.k) < K)
        THEN LET n == IF t.k = RootK THEN 0 ELSE Len(t.k) IN <<t>> \o PathTo(IF k[n + 1] = 0 THEN t.l ELSE t.r, k)
        ELSE <<t>>
PNode(t, side) == [k |-> t.k, v |-> Hv(t), side |-> side]
Prove(t, k) ==
   LET p == PathTo(t, k)
       n == Len(p)
   IN [i \in 1..n |-> IF i = 1 THEN PNode(p[n], 0)
                      ELSE LET par == p[n - i + 1]
                               ch  == p[n - i + 2]
                           IN IF par.l = ch THEN PNode(par.r, 1) ELSE PNode(par.l, 0)]

\* VerifyProof: fold the hashes, rebuild the path, re-traverse towards the claimed key
RECURSIVE Fold(_, _, _, _)
Fold(pf, i, curK, h) ==   \* returns <<hash, sequence of rebuilt path nodes [k, lk, rk] from bottom to top>>
   IF i > Len(pf) THEN <<h, <<>>>>
   ELSE LET s == pf[i]
            nh == IF s.side = 0 THEN <<"H", s.k, s.v, curK, h>> ELSE <<"H", curK, h, s.k, s.v>>
            pk == IF i = Len(pf) THEN RootK ELSE Gcp(s.k, curK)
            nd == [k |-> pk, lk |-> IF s.side = 0 THEN s.k ELSE curK, rk |-> IF s.side = 0 THEN curK ELSE s.k]
            rest == Fold(pf, i + 1, pk, nh)
        IN <<rest[1], <<nd>> \o rest[2]>>

\* walk the rebuilt path nodes (top first) towards k; returns the key of the node where the walk stops
RECURSIVE Walk(_, _, _)
Walk(nodes, j, k) ==     \* nodes[j] is the current rebuilt inner node (j counts from the top = Len(nodes))
   LET nd == nodes[j]
       n  == IF nd.k = RootK THEN 0 ELSE Len(nd.k)
       c  == IF k[n + 1] = 0 THEN nd.lk ELSE nd.rk
   IN IF j > 1 /\ c = nodes[j - 1].k /\ IsPrefixOf(c, k) /\ Len(c) < K THEN Walk(nodes, j - 1, k) ELSE c

Verify(root, k, v, member, pf) ==
   /\ Len(pf) >= 2
   /\ LET f == Fold(pf, 2, pf[1].k, pf[1].v)
          stop == Walk(f[2], Len(f[2]), k)
          exists == stop = k
      IN /\ f[1] = root
         /\ G_ProofEndsAtProven => (stop = pf[1].k /\ (~member => ~IsPrefixOf(stop, k)))
         /\ IF member THEN exists /\ pf[1].v = <<"v", v>> ELSE ~exists

\* the statements
IsMember(s, k, v) == s[k] = v /\ v # Absent
IsAbsent(s, k) == s[k] = Absent

\* C16 completeness: the honest proof of every true statement verifies
Complete == \A k \in UserKeys :
               IF st[k] # Absent THEN Verify(RootOf(st), k, st[k], TRUE, Prove(Canon(st), k))
               ELSE Verify(RootOf(st), k, Absent, FALSE, Prove(Canon(st), k))

\* adversarial proofs: honest proofs for any key (offered for another key / claim), their truncations,
\* with one value substituted or one side bit flipped
HonestProofs == {Prove(Canon(st), k) : k \in UserKeys}
Mutations(pf) == {pf} \cup {SubSeq(pf, 1, n) : n \in 2..Len(pf)}
                      \cup {[pf EXCEPT ![i].side = 1 - pf[i].side] : i \in 2..Len(pf)}
                      \cup {[pf EXCEPT ![1].v = <<"v", w>>] : w \in Vals}
AdvProofs == UNION {Mutations(pf) : pf \in HonestProofs}

\* C16 soundness: nothing from the adversarial family verifies for a false statement
Sound == \A pf \in AdvProofs : \A k \in UserKeys :
            /\ \A v \in Vals : Verify(RootOf(st), k, v, TRUE, pf) => IsMember(st, k, v)
            /\ Verify(RootOf(st), k, Absent, FALSE, pf) => IsAbsent(st, k)

\* C08: different states have different roots (checked over all states by the MC module)
=============================================================================
