----------------------------- MODULE SmtTrace -----------------------------
(***************************************************************************)
(* Validation of executions of the REAL sparse merkle tree / proof         *)
(* verifier (harness/smtx) against Smt.tla.                                *)
(*  kind "batch": the real node dump after a commit becomes `tree`, the    *)
(*     operations update `st`; TreeIsCanon is thereby evaluated on the     *)
(*     real tree.  The driver's reference tree (used for 160-bit roots)    *)
(*     must equal Canon(st) too, every stored inner hash must be the       *)
(*     SHA-256 of its children, and the real root must equal the reference.*)
(*  kind "proof": what VerifyProof really answered for a statement over a  *)
(*     state: accepted => the statement is true (soundness), honest proof  *)
(*     of a true statement => accepted (completeness), never a panic.      *)
(***************************************************************************)
EXTENDS Smt, Json

VARIABLES l, aux
tvars == <<vars, l, aux>>

Trace == ndJsonDeserialize("trace.ndjson")

RECURSIVE ToTree(_)
ToTree(j) == IF j.t = "L" THEN Leaf(j.k, j.v) ELSE Node(j.k, ToTree(j.l), ToTree(j.r))

KeysOf(seq) == {seq[i].k : i \in DOMAIN seq}
ValOf(seq, k) == LET i == CHOOSE j \in DOMAIN seq : seq[j].k = k IN IF seq[i].v = "" THEN Absent ELSE seq[i].v
StateOf(seq) == [k \in UserKeys |-> IF k \in KeysOf(seq) THEN ValOf(seq, k) ELSE Absent]

OK == [refCanon |-> TRUE, hashOK |-> TRUE, rootEq |-> TRUE, sound |-> TRUE, complete |-> TRUE, nopanic |-> TRUE, noerr |-> TRUE]

TraceInit == Init /\ l = 1 /\ aux = OK /\ TLCSet(1, 0)

StepBatch(rec) ==
   /\ KeysOf(rec.ops) \subseteq UserKeys
   /\ st' = [k \in UserKeys |-> IF k \in KeysOf(rec.ops) THEN ValOf(rec.ops, k) ELSE st[k]]
   /\ IF rec.err = ""
      THEN /\ tree' = ToTree(rec.real)
           /\ aux' = [OK EXCEPT !.refCanon = (ToTree(rec.ref) = Canon(st')), !.hashOK = rec.hashOK, !.rootEq = rec.rootEq]
      ELSE /\ tree' = tree
           /\ aux' = [OK EXCEPT !.noerr = FALSE]
   /\ last' = [a |-> "Batch", par |-> rec.par]

StepProof(rec) ==
   LET s == StateOf(rec.state)
       truth == IF rec.member THEN IsMember(s, rec.key, IF rec.val = "" THEN Absent ELSE rec.val) ELSE IsAbsent(s, rec.key)
   IN /\ st' = s
      /\ tree' = Canon(s)
      /\ aux' = [OK EXCEPT !.sound = (rec.accepted => truth),
                           !.complete = ((rec.honest /\ truth) => rec.accepted),
                           !.nopanic = ~rec.panicked]
      /\ last' = [a |-> "Proof"]

\* real Store, 160-bit keys: the committed root against the reference root (the reference is bound to Canon by
\* RefIsCanon on the K-bit runs), two different histories/batchings of the same states, read-only proofs
StepStore(rec) ==
   /\ UNCHANGED <<st, tree>>
   /\ aux' = [OK EXCEPT !.rootEq = (rec.rootEq /\ rec.sameState # "false"),
                        !.complete = (rec.proofsAccepted = rec.proofsTried /\ rec.proofErr = ""),
                        !.sound = (rec.falseAccepted = 0),
                        !.noerr = (rec.err = "")]
   /\ last' = [a |-> "Store"]

TraceNext ==
   /\ l <= Len(Trace)
   /\ l' = l + 1
   /\ LET rec == Trace[l] IN
        CASE rec.kind = "start" -> st' = [k \in UserKeys |-> Absent] /\ tree' = Canon([k \in UserKeys |-> Absent])
                                   /\ aux' = OK /\ last' = [a |-> "Init"]
          [] rec.kind = "batch" -> StepBatch(rec)
          [] rec.kind = "proof" -> StepProof(rec)
          [] rec.kind = "store" -> StepStore(rec)
   /\ TLCSet(1, l)

TraceSpec == TraceInit /\ [][TraceNext]_tvars
TraceAccepted == TLCGet(1) = Len(Trace)

\* C08 on real trees
RealTreeIsCanon == TreeIsCanon
RefIsCanon == aux.refCanon
HashesOK   == aux.hashOK
RootMatchesReference == aux.rootEq
NoCommitError == aux.noerr
\* C16 on the real verifier
ProofSound    == aux.sound
ProofComplete == aux.complete
NoPanic       == aux.nopanic

\* one-pass reporting: always true, but prints every line whose recorded real outcome falsifies a predicate
Report == (aux = OK /\ (last.a # "Batch" \/ TreeIsCanon)) \/ PrintT(<<"VIOL", l - 1, TreeIsCanon, aux>>)
=============================================================================
