-------------------------------- MODULE Store --------------------------------
(***************************************************************************)
(* C10: the store as a plain versioned map.                                *)
(*  vers[i]   the key/value map committed at version i                     *)
(*  stack     overlays of uncommitted writes: stack[1] belongs to the      *)
(*            store itself, deeper ones to nested transactions             *)
(*  cp        an independent copy of the store (Store.Copy): the committed *)
(*            map at copy time plus its own overlay                        *)
(* Reads (point, forward / reverse prefix iteration, historical) are       *)
(* functions of these maps only.  Keys are numbered in the byte order of   *)
(* their length-prefixed encoding; PrefixOf gives the first key segment.   *)
(***************************************************************************)
EXTENDS Integers, Sequences, FiniteSets, TLC

CONSTANTS Keys, Vals, NoVal, Untouched, PrefixOf(_), Prefixes, MaxVersion, MaxDepth, EnableCopy, EnableRollback

VARIABLES vers, stack, cp, last
vars == <<vers, stack, cp, last>>
view == <<vers, stack, cp>>

Empty == [k \in Keys |-> Untouched]
NoMap == [k \in Keys |-> NoVal]
Over(base, ov) == [k \in Keys |-> IF ov[k] = Untouched THEN base[k] ELSE ov[k]]
RECURSIVE Fold(_, _, _)
Fold(base, st, i) == IF i > Len(st) THEN base ELSE Fold(Over(base, st[i]), st, i + 1)
Committed == IF Len(vers) = 0 THEN NoMap ELSE vers[Len(vers)]
\* what the top-most writer sees
View == Fold(Committed, stack, 1)
CopyView == Over(cp.base, cp.ov)

\* ---- reads -------------------------------------------------------------------------------------------------
GetIn(m, k) == m[k]
RECURSIVE Asc(_, _)
Asc(S, m) == IF S = {} THEN << >> ELSE LET k == CHOOSE x \in S : \A y \in S : x <= y IN <<<<k, m[k]>>>> \o Asc(S \ {k}, m)
RECURSIVE Desc(_, _)
Desc(S, m) == IF S = {} THEN << >> ELSE LET k == CHOOSE x \in S : \A y \in S : x >= y IN <<<<k, m[k]>>>> \o Desc(S \ {k}, m)
IterIn(m, p, rev) == LET S == {k \in Keys : PrefixOf(k) = p /\ m[k] # NoVal} IN IF rev THEN Desc(S, m) ELSE Asc(S, m)

\* ---- writes ------------------------------------------------------------------------------------------------
Top == Len(stack)
WriteTop(k, v) == stack' = [stack EXCEPT ![Top][k] = v]

Init == vers = << >> /\ stack = <<Empty>> /\ cp = [on |-> FALSE, base |-> NoMap, ov |-> Empty] /\ last = [op |-> "init"]

Set(k, v)  == WriteTop(k, v) /\ UNCHANGED <<vers, cp>> /\ last' = [op |-> "set", k |-> k, v |-> v]
Delete(k)  == WriteTop(k, NoVal) /\ UNCHANGED <<vers, cp>> /\ last' = [op |-> "delete", k |-> k]
Get(k)     == UNCHANGED <<vers, stack, cp>> /\ last' = [op |-> "get", k |-> k, res |-> GetIn(View, k)]
Iter(p, r) == UNCHANGED <<vers, stack, cp>> /\ last' = [op |-> "iter", p |-> p, rev |-> r, res |-> IterIn(View, p, r)]
Nest       == Top < MaxDepth /\ stack' = Append(stack, Empty) /\ UNCHANGED <<vers, cp>> /\ last' = [op |-> "nest"]
Flush      == Top > 1 /\ stack' = [i \in 1..(Top - 1) |-> IF i = Top - 1 THEN Over(stack[i], stack[Top]) ELSE stack[i]]
              /\ UNCHANGED <<vers, cp>> /\ last' = [op |-> "flush"]
Discard    == Top > 1 /\ stack' = SubSeq(stack, 1, Top - 1) /\ UNCHANGED <<vers, cp>> /\ last' = [op |-> "discard"]
Commit     == Top = 1 /\ Len(vers) < MaxVersion /\ vers' = Append(vers, View) /\ stack' = <<Empty>> /\ UNCHANGED cp /\ last' = [op |-> "commit"]
ReadAt(v, k)    == v \in 1..Len(vers) /\ UNCHANGED <<vers, stack, cp>> /\ last' = [op |-> "getAt", ver |-> v, k |-> k, res |-> vers[v][k]]
IterAt(v, p, r) == v \in 1..Len(vers) /\ UNCHANGED <<vers, stack, cp>> /\ last' = [op |-> "iterAt", ver |-> v, p |-> p, rev |-> r, res |-> IterIn(vers[v], p, r)]
\* Store.Rollback(v): the versions above v are pruned, pending writes are dropped (a copy taken before is not used any more)
Rollback(v) == /\ EnableRollback /\ Top = 1 /\ v \in 1..Len(vers)
               /\ IF v = Len(vers) THEN UNCHANGED <<vers, stack>>            \* the current version: nothing happens, pending writes stay
                  ELSE vers' = SubSeq(vers, 1, v) /\ stack' = <<Empty>>
               /\ cp' = [cp EXCEPT !.on = FALSE]
               /\ last' = [op |-> "rollback", ver |-> v]
\* Store.Copy(): the committed map plus the store's own pending writes; from then on independent
CopyMake   == EnableCopy /\ Top = 1 /\ cp' = [on |-> TRUE, base |-> Committed, ov |-> stack[1]] /\ UNCHANGED <<vers, stack>> /\ last' = [op |-> "copy"]
CopySet(k, v) == cp.on /\ cp' = [cp EXCEPT !.ov[k] = v] /\ UNCHANGED <<vers, stack>> /\ last' = [op |-> "cpset", k |-> k, v |-> v]
CopyDel(k)    == cp.on /\ cp' = [cp EXCEPT !.ov[k] = NoVal] /\ UNCHANGED <<vers, stack>> /\ last' = [op |-> "cpdelete", k |-> k]
CopyGet(k)    == cp.on /\ UNCHANGED <<vers, stack, cp>> /\ last' = [op |-> "cpget", k |-> k, res |-> CopyView[k]]
CopyIter(p, r) == cp.on /\ UNCHANGED <<vers, stack, cp>> /\ last' = [op |-> "cpiter", p |-> p, rev |-> r, res |-> IterIn(CopyView, p, r)]

Next == \/ \E k \in Keys, v \in Vals : Set(k, v) \/ CopySet(k, v)
        \/ \E k \in Keys : Delete(k) \/ Get(k) \/ CopyDel(k) \/ CopyGet(k)
        \/ \E p \in Prefixes, r \in BOOLEAN : Iter(p, r) \/ CopyIter(p, r)
        \/ Nest \/ Flush \/ Discard \/ Commit \/ CopyMake
        \/ \E v \in 1..MaxVersion : Rollback(v)
        \/ \E v \in 1..MaxVersion, k \in Keys : ReadAt(v, k)
        \/ \E v \in 1..MaxVersion, p \in Prefixes, r \in BOOLEAN : IterAt(v, p, r)
Spec == Init /\ [][Next]_vars

\* design-level sanity of the reference semantics
\* a committed version never changes while it exists (a rollback removes the versions above its target, nothing else)
Immutable == [][\A i \in 1..Len(vers) : i <= Len(vers') => vers'[i] = vers[i]]_vars
RollbackExact == last.op = "rollback" => Len(vers) = last.ver
ReadYourWrites == last.op = "set" => View[last.k] = last.v
DeletesHide == last.op = "delete" => View[last.k] = NoVal
IterSorted == (last.op \in {"iter", "iterAt", "cpiter"}) =>
                 \A i \in 1..(Len(last.res) - 1) : IF last.rev THEN last.res[i][1] > last.res[i + 1][1] ELSE last.res[i][1] < last.res[i + 1][1]
=============================================================================
