----------------------------- MODULE StoreTrace -----------------------------
(***************************************************************************)
(* Operations executed on the REAL store (harness/storex: store.Store,     *)
(* nested transactions, copies, read-only historical views, memtable       *)
(* flushes and compactions in between) with every result.  The model state *)
(* is advanced by the logged operation; every logged read must equal what  *)
(* the plain versioned map of Store.tla answers.                           *)
(***************************************************************************)
EXTENDS Store, Json
VARIABLES l, ok
tvars == <<vars, l, ok>>
Trace == ndJsonDeserialize("trace.ndjson")
MCPrefixOf(k) == CASE k \in {1, 2, 3, 4} -> "a" [] k \in {5, 6} -> "b" [] OTHER -> "ab"   \* a/1 a/1/x a/2 a/3 b/1 b/2 ab/1

V(x) == IF x = "" THEN NoVal ELSE x
\* "e" stands for the empty value: such a key is live (iteration lists it) but a point read cannot tell it from an absent one
Blind(v) == IF v = "e" THEN NoVal ELSE v
Pairs(seq) == [i \in 1..Len(seq) |-> <<seq[i].k, V(seq[i].v)>>]

TraceInit == Init /\ l = 1 /\ ok = TRUE /\ TLCSet(1, 0)

Step(r) ==
   CASE r.op = "start"    -> vers' = << >> /\ stack' = <<Empty>> /\ cp' = [on |-> FALSE, base |-> NoMap, ov |-> Empty] /\ last' = [op |-> "init"] /\ ok' = TRUE
     [] r.op = "set"      -> Set(r.k, r.v) /\ ok' = (r.err = "")
     [] r.op = "delete"   -> Delete(r.k) /\ ok' = (r.err = "")
     [] r.op = "get"      -> Get(r.k) /\ ok' = (r.err = "" /\ Blind(last'.res) = V(r.val))
     [] r.op = "iter"     -> Iter(r.p, r.rev) /\ ok' = (r.err = "" /\ last'.res = Pairs(r.items))
     [] r.op = "nest"     -> Nest /\ ok' = TRUE
     [] r.op = "flush"    -> Flush /\ ok' = (r.err = "")
     [] r.op = "discard"  -> Discard /\ ok' = TRUE
     [] r.op = "commit"   -> Commit /\ ok' = (r.err = "")
     [] r.op = "getAt"    -> ReadAt(r.ver, r.k) /\ ok' = (r.err = "" /\ Blind(last'.res) = V(r.val))
     [] r.op = "iterAt"   -> IterAt(r.ver, r.p, r.rev) /\ ok' = (r.err = "" /\ last'.res = Pairs(r.items))
     [] r.op = "copy"     -> CopyMake /\ ok' = (r.err = "")
     [] r.op = "cpset"    -> CopySet(r.k, r.v) /\ ok' = (r.err = "")
     [] r.op = "cpdelete" -> CopyDel(r.k) /\ ok' = (r.err = "")
     [] r.op = "cpget"    -> CopyGet(r.k) /\ ok' = (r.err = "" /\ Blind(last'.res) = V(r.val))
     [] r.op = "cpiter"   -> CopyIter(r.p, r.rev) /\ ok' = (r.err = "" /\ last'.res = Pairs(r.items))
     [] r.op = "rollback" -> Rollback(r.ver) /\ ok' = (r.err = "")
     [] r.op = "maint"    -> UNCHANGED vars /\ ok' = (r.err = "")     \* memtable flush / compaction: no logical effect

TraceNext == l <= Len(Trace) /\ l' = l + 1 /\ Step(Trace[l]) /\ TLCSet(1, l)
TraceSpec == TraceInit /\ [][TraceNext]_tvars
TraceAccepted == TLCGet(1) = Len(Trace)
\* one-pass reporting: the line just consumed gave a different answer than the versioned map
Report == ok \/ PrintT(<<"VIOL", l - 1, last>>)
=============================================================================
