-------------------------------- MODULE Swap --------------------------------
(***************************************************************************)
(* C20 (order book side), fsm/swap.go and the order handlers of            *)
(* fsm/message.go: sell orders escrow the seller's funds in the chain's    *)
(* escrow pool; the seller may edit or delete an order that is not locked; *)
(* a certificate of the buyer's committee carries lock / reset / close     *)
(* instructions (possibly duplicated or conflicting) that are applied in   *)
(* the order locks, resets (skipped when the same certificate closes the   *)
(* order), closes.  Closing pays the escrowed amount to the buyer and      *)
(* deletes the order.                                                      *)
(***************************************************************************)
EXTENDS Integers, Sequences, FiniteSets, TLC

CONSTANTS Acct, Amounts, MaxOrders, MaxSteps, Bal0,
          G_DeleteOnClose,    \* a closed order is removed from the book
          G_LockedFrozen,     \* a locked order can be neither edited nor deleted by the seller
          G_EditMovesDelta,   \* an edit moves exactly the difference between account and escrow
          G_CloseNeedsLock    \* only a locked order can be closed

None == "none"
VARIABLES bal, escrow, book,   \* book: id -> [amt, seller, buyer]  (ids 1..nextId-1; absent = not in DOMAIN)
          nextId, paid,        \* paid: id -> total ever paid out of escrow for that order (refund or swap)
          escrowed,            \* id -> amount currently owed to the order by the escrow (history variable)
          steps, last
vars == <<bal, escrow, book, nextId, paid, escrowed, steps, last>>
view == <<bal, escrow, book, nextId, paid, escrowed, steps>>

Init == /\ bal = [a \in Acct |-> Bal0] /\ escrow = 0 /\ book = << >> /\ nextId = 1 /\ paid = << >> /\ escrowed = << >>
        /\ steps = 0 /\ last = [a |-> "init"]
Ids == DOMAIN book
Tick == steps < MaxSteps /\ steps' = steps + 1
Put(f, k, v) == [x \in DOMAIN f \cup {k} |-> IF x = k THEN v ELSE f[x]]
Del(f, k) == [x \in DOMAIN f \ {k} |-> f[x]]

Create(a, amt) ==
   /\ Tick /\ nextId <= MaxOrders /\ bal[a] >= amt
   /\ bal' = [bal EXCEPT ![a] = @ - amt] /\ escrow' = escrow + amt
   /\ book' = Put(book, nextId, [amt |-> amt, seller |-> a, buyer |-> None])
   /\ paid' = Put(paid, nextId, 0) /\ escrowed' = Put(escrowed, nextId, amt) /\ nextId' = nextId + 1
   /\ last' = [a |-> "create"]
Edit(id, amt) ==
   /\ Tick /\ id \in Ids /\ (G_LockedFrozen => book[id].buyer = None)
   /\ LET o == book[id]  delta == amt - o.amt IN
      /\ delta # 0 /\ bal[o.seller] >= delta
      /\ IF G_EditMovesDelta
         THEN bal' = [bal EXCEPT ![o.seller] = @ - delta] /\ escrow' = escrow + delta
         ELSE bal' = [bal EXCEPT ![o.seller] = @ - amt] /\ escrow' = escrow + amt       \* the deviation: escrows the new amount again
      /\ book' = [book EXCEPT ![id].amt = amt] /\ escrowed' = [escrowed EXCEPT ![id] = amt]
   /\ last' = [a |-> "edit"] /\ UNCHANGED <<nextId, paid>>
Delete(id) ==
   /\ Tick /\ id \in Ids /\ (G_LockedFrozen => book[id].buyer = None) /\ escrow >= book[id].amt
   /\ LET o == book[id] IN bal' = [bal EXCEPT ![o.seller] = @ + o.amt] /\ escrow' = escrow - o.amt /\ paid' = [paid EXCEPT ![id] = @ + o.amt]
   /\ book' = Del(book, id) /\ escrowed' = [escrowed EXCEPT ![id] = 0]
   /\ last' = [a |-> "delete"] /\ UNCHANGED nextId

\* one certificate: locks, resets, closes (sequences of ids, possibly repeated / unknown)
LockOne(b, id, buyer) == IF id \in DOMAIN b /\ b[id].buyer = None THEN [b EXCEPT ![id].buyer = buyer] ELSE b
ResetOne(b, id) == IF id \in DOMAIN b THEN [b EXCEPT ![id].buyer = None] ELSE b
RECURSIVE Closes(_, _)
Closes(st, ids) ==      \* st = [bal, escrow, book, paid, escrowed]
   IF ids = << >> THEN st
   ELSE LET id == ids[1] IN
        IF id \in DOMAIN st.book /\ (G_CloseNeedsLock => st.book[id].buyer # None) /\ st.escrow >= st.book[id].amt
        THEN LET o == st.book[id]
                 to == IF o.buyer = None THEN o.seller ELSE o.buyer
             IN Closes([bal |-> [st.bal EXCEPT ![to] = @ + o.amt], escrow |-> st.escrow - o.amt,
                        book |-> IF G_DeleteOnClose THEN Del(st.book, id) ELSE st.book,
                        paid |-> [st.paid EXCEPT ![id] = @ + o.amt], escrowed |-> [st.escrowed EXCEPT ![id] = 0]], Tail(ids))
        ELSE Closes(st, Tail(ids))
Certificate(lockId, buyer, resetId, closes) ==
   /\ Tick
   /\ LET b1 == LockOne(book, lockId, buyer)
          b2 == IF resetId \in {closes[i] : i \in DOMAIN closes} THEN b1 ELSE ResetOne(b1, resetId)
          r == Closes([bal |-> bal, escrow |-> escrow, book |-> b2, paid |-> paid, escrowed |-> escrowed], closes)
      IN bal' = r.bal /\ escrow' = r.escrow /\ book' = r.book /\ paid' = r.paid /\ escrowed' = r.escrowed
   /\ last' = [a |-> "certificate"] /\ UNCHANGED nextId

AnyId == 0..MaxOrders
Next == \/ \E a \in Acct, amt \in Amounts : Create(a, amt)
        \/ \E id \in Ids, amt \in Amounts : Edit(id, amt)
        \/ \E id \in Ids : Delete(id)
        \/ \E l \in AnyId, r \in AnyId, b \in Acct, c1 \in AnyId, c2 \in AnyId : Certificate(l, b, r, <<c1, c2>>)
Spec == Init /\ [][Next]_vars

RECURSIVE SumF(_, _)
SumF(f, S) == IF S = {} THEN 0 ELSE LET e == CHOOSE e \in S : TRUE IN f[e] + SumF(f, S \ {e})
OpenAmt == [id \in Ids |-> book[id].amt]
\* the escrow pool equals the sum of the open sell orders
EscrowExact == escrow = SumF(OpenAmt, Ids)
\* closing, deleting or refunding pays exactly the escrowed amount exactly once: nothing is ever paid beyond what the
\* order had in escrow, and an order that left the book has been paid in full
PaidOnce == \A id \in DOMAIN paid : (id \in Ids => paid[id] = 0) /\ (id \notin Ids => escrowed[id] = 0)
Conserved == SumF(bal, Acct) + escrow = Cardinality(Acct) * Bal0
=============================================================================
