----------------------------- MODULE SwapTrace -----------------------------
(***************************************************************************)
(* Order-book operations executed on a REAL state machine (harness/nodex   *)
(* swap mode: HandleMessageCreateOrder / EditOrder / DeleteOrder and       *)
(* HandleCommitteeSwaps with duplicated and conflicting instructions).     *)
(* TLC recomputes every step from the previously recorded state with the   *)
(* operators of Swap.tla, requires the recorded state to be exactly that,  *)
(* and evaluates the accounting identities on every recorded state.        *)
(***************************************************************************)
EXTENDS Swap, Json
VARIABLES l, ok, cur, sup
tvars == <<vars, l, ok, cur, sup>>
Trace == ndJsonDeserialize("trace.ndjson")
MinOrder == 1000

Fn(rec, D) == [k \in D |-> rec[k]]
BookOf(list) == [id \in {list[i].id : i \in DOMAIN list} |->
                   LET e == CHOOSE e \in {list[i] : i \in DOMAIN list} : e.id = id IN [amt |-> e.amt, seller |-> e.seller, buyer |-> e.buyer]]
St(p) == [bal |-> Fn(p.bal, Acct), escrow |-> p.escrow, book |-> BookOf(p.book)]
Fail(st) == [err |-> TRUE, st |-> st]
Fine(st) == [err |-> FALSE, st |-> st]

RECURSIVE Locks(_, _, _)
Locks(b, ids, buyer) == IF ids = << >> THEN b ELSE Locks(LockOne(b, ids[1], buyer), Tail(ids), buyer)
RECURSIVE Resets(_, _, _)
Resets(b, ids, closes) == IF ids = << >> THEN b
                          ELSE Resets(IF ids[1] \in {closes[i] : i \in DOMAIN closes} THEN b ELSE ResetOne(b, ids[1]), Tail(ids), closes)
NoHist == [x \in {} |-> 0]
Hist(b) == [id \in DOMAIN b |-> 0]

Expected(pre, r) ==
   CASE r.op = "create" -> IF r.amt >= MinOrder /\ pre.bal[r.a] >= r.amt
                           THEN Fine([bal |-> [pre.bal EXCEPT ![r.a] = @ - r.amt], escrow |-> pre.escrow + r.amt,
                                      book |-> Put(pre.book, r.id, [amt |-> r.amt, seller |-> r.a, buyer |-> None])])
                           ELSE Fail(pre)
     [] r.op = "edit"   -> IF r.id \in DOMAIN pre.book /\ pre.book[r.id].buyer = None /\ r.amt >= MinOrder
                              /\ pre.bal[pre.book[r.id].seller] >= r.amt - pre.book[r.id].amt
                           THEN LET o == pre.book[r.id]  delta == r.amt - o.amt IN
                                Fine([bal |-> [pre.bal EXCEPT ![o.seller] = @ - delta], escrow |-> pre.escrow + delta, book |-> [pre.book EXCEPT ![r.id].amt = r.amt]])
                           ELSE Fail(pre)
     [] r.op = "delete" -> IF r.id \in DOMAIN pre.book /\ pre.book[r.id].buyer = None /\ pre.escrow >= pre.book[r.id].amt
                           THEN LET o == pre.book[r.id] IN
                                Fine([bal |-> [pre.bal EXCEPT ![o.seller] = @ + o.amt], escrow |-> pre.escrow - o.amt, book |-> Del(pre.book, r.id)])
                           ELSE Fail(pre)
     [] r.op = "cert"   -> LET b1 == Locks(pre.book, r.locks, r.buyer)
                               b2 == Resets(b1, r.resets, r.closes)
                               c == Closes([bal |-> pre.bal, escrow |-> pre.escrow, book |-> b2, paid |-> Hist(b2), escrowed |-> Hist(b2)], r.closes)
                           IN Fine([bal |-> c.bal, escrow |-> c.escrow, book |-> c.book])

SumOpen(st) == SumF([id \in DOMAIN st.book |-> st.book[id].amt], DOMAIN st.book)
Sound(st) == st.escrow = SumOpen(st) /\ SumF(st.bal, Acct) + st.escrow = sup

TraceInit == Init /\ l = 1 /\ ok = TRUE /\ cur = [bal |-> [a \in Acct |-> 0], escrow |-> 0, book |-> << >>] /\ sup = 0 /\ TLCSet(1, 0)
Step(r) ==
   IF r.e = "swapstart"
   THEN cur' = St(r.post) /\ sup' = SumF(St(r.post).bal, Acct) + r.post.escrow /\ ok' = (r.post.escrow = SumOpen(St(r.post)))
   ELSE LET e == Expected(cur, r)  post == St(r.post) IN
        /\ ok' = (e.err = r.err /\ e.st = post /\ Sound(post))
        /\ cur' = post /\ UNCHANGED sup
TraceNext == l <= Len(Trace) /\ l' = l + 1 /\ Step(Trace[l]) /\ TLCSet(1, l) /\ UNCHANGED vars
TraceSpec == TraceInit /\ [][TraceNext]_tvars
TraceAccepted == TLCGet(1) = Len(Trace)
Report == ok \/ PrintT(<<"VIOL", l - 1>>)
Explain == ok \/ l < 2 \/ Trace[l - 1].e = "swapstart" \/ PrintT(<<"EXPECTED", l - 1, Expected(cur, Trace[l - 1])>>)
=============================================================================
