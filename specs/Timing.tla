------------------------------- MODULE Timing -------------------------------
(***************************************************************************)
(* C15, the clock side of a round (bft/bft.go SetTimerForNextPhase /       *)
(* WaitTime): every replica runs the same seven timed phases; it enters    *)
(* the round at its own offset, handles phase k, then waits Wait[k] before *)
(* it handles phase k+1.  What a replica sends while handling phase k is   *)
(* consumed by its peers when they handle phase k+1 (votes by the leader,  *)
(* leader messages by the replicas) and is delayed by at most Delta.       *)
(* Property: if the replicas' offsets differ by at most Spread and         *)
(* Spread + Delta < Wait[k] for every phase, then every message is there   *)
(* before it is needed (AlignedIsEnough).  This is the hypothesis `aligned` *)
(* of LiveTrace.tla.  Alignment does NOT imply that a message never        *)
(* reaches a replica before that replica has entered the round (NotBefore  *)
(* is refuted by TLC); the implementation does not need it: messages are   *)
(* filed by (round, phase) whatever round the receiver is in.              *)
(***************************************************************************)
EXTENDS Integers, FiniteSets, TLC

CONSTANTS Nodes, Phases, WaitOf(_), MaxOffset, Delta,
          G_CountDelay    \* the network delay is part of the alignment condition

VARIABLES offset           \* entry offset per replica; the delay of a message is anything in 0..Delta (the extremes decide)
vars == <<offset>>

Init == offset \in [Nodes -> 0..MaxOffset]
Next == UNCHANGED vars
Spec == Init /\ [][Next]_vars

RECURSIVE Sum(_)
Sum(k) == IF k = 0 THEN 0 ELSE WaitOf(k) + Sum(k - 1)
\* replica n handles phase k at
At(n, k) == offset[n] + Sum(k - 1)
Spread == LET S == {offset[n] : n \in Nodes} IN (CHOOSE x \in S : \A y \in S : x >= y) - (CHOOSE x \in S : \A y \in S : x <= y)
MinWait == LET S == {WaitOf(k) : k \in 1..(Phases - 1)} IN CHOOSE x \in S : \A y \in S : x <= y

\* what s sends while handling phase k reaches r before r handles phase k + 1
Timely == \A s, r \in Nodes, k \in 1..(Phases - 1) : At(s, k) + Delta <= At(r, k + 1)
\* ... and not before r has entered the round (messages of a round a replica has not reached are dropped)
NotBefore == \A s, r \in Nodes, k \in 1..(Phases - 1) : At(s, k) + 0 >= At(r, 1)

Aligned == Spread + (IF G_CountDelay THEN Delta ELSE 0) < MinWait
AlignedIsEnough == Aligned => Timely
\* stated to be refuted: alignment does not keep an early sender's first message from reaching a late entrant too early
AlignedNotBefore == Aligned => NotBefore
=============================================================================
