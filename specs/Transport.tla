------------------------------ MODULE Transport ------------------------------
(***************************************************************************)
(* C17, record layer of p2p/encrypt.go (one direction): the sender cuts    *)
(* writes into frames of at most F bytes sealed with a counter nonce; the  *)
(* wire is in the hands of an adversary (flip, drop, duplicate, swap,      *)
(* truncate, replay, inject); the receiver opens frame i with counter i,   *)
(* buffers what the caller's read buffer cannot take (unread), and the     *)
(* owner of the connection stops reading after the first failure.          *)
(* Bytes are numbered 1, 2, 3 ... as written; a frame carries the interval *)
(* from+1 .. from+n.  `delivered` counts bytes handed to the reader and    *)
(* `inOrder` says they were exactly 1 .. delivered.                        *)
(***************************************************************************)
EXTENDS Integers, Sequences, FiniteSets, TLC

CONSTANTS F, MaxBytes, MaxFaults, BufSizes,
          G_NonceCounter,   \* a frame only opens under the counter of its position
          G_Tag,            \* a modified frame never opens
          G_DeadAfterError  \* the connection's owner reads nothing after the first failure

VARIABLES sentN,      \* bytes written so far (they are 1..sentN)
          wire,       \* frames in flight: [ctr, ok, from, n]   ok = FALSE once tampered / forged
          recvCtr, unread, delivered, inOrder, dead, afterErr, faults, seenWire, last
vars == <<sentN, wire, recvCtr, unread, delivered, inOrder, dead, afterErr, faults, seenWire, last>>
view == <<sentN, wire, recvCtr, unread, delivered, inOrder, dead, afterErr, faults, seenWire>>

NoUnread == [from |-> 0, n |-> 0]
Init == /\ sentN = 0 /\ wire = << >> /\ recvCtr = 0 /\ unread = NoUnread /\ delivered = 0 /\ inOrder = TRUE /\ dead = FALSE
        /\ afterErr = 0 /\ faults = 0 /\ seenWire = {} /\ last = [a |-> "init"]

RECURSIVE Frames(_, _, _)
Frames(from, n, ctr) ==     \* frames for bytes from+1 .. from+n starting with counter ctr
   IF n = 0 THEN << >>
   ELSE LET m == IF n < F THEN n ELSE F
        IN <<[ctr |-> ctr, ok |-> TRUE, from |-> from, n |-> m]>> \o Frames(from + m, n - m, ctr + 1)
SendCtr == Cardinality({f \in seenWire : f.ok})   \* frames ever sealed by the sender
Min(a, b) == IF a < b THEN a ELSE b

Write(n) ==
   /\ n > 0 /\ sentN + n <= MaxBytes
   /\ LET fs == Frames(sentN, n, SendCtr) IN
      /\ wire' = wire \o fs
      /\ seenWire' = seenWire \cup {fs[i] : i \in 1..Len(fs)}
   /\ sentN' = sentN + n
   /\ last' = [a |-> "write", n |-> n, err |-> FALSE]
   /\ UNCHANGED <<recvCtr, unread, delivered, inOrder, dead, afterErr, faults>>

Deliver(from, m) == /\ delivered' = delivered + m
                    /\ inOrder' = (inOrder /\ from = delivered)
                    /\ afterErr' = IF dead THEN afterErr + m ELSE afterErr

\* the receiving application reads with a buffer of b bytes
Read(b) ==
   /\ ~dead \/ ~G_DeadAfterError
   /\ IF unread.n > 0
      THEN LET m == Min(b, unread.n) IN
           /\ Deliver(unread.from, m)
           /\ unread' = [from |-> unread.from + m, n |-> unread.n - m]
           /\ last' = [a |-> "read", n |-> m, err |-> FALSE]
           /\ UNCHANGED <<wire, recvCtr, dead>>
      ELSE /\ Len(wire) > 0
           /\ LET f == wire[1]
                  opens == (G_Tag => f.ok) /\ (G_NonceCounter => f.ctr = recvCtr)
              IN IF opens
                 THEN LET m == Min(b, f.n) IN
                      /\ Deliver(f.from, m)
                      /\ unread' = [from |-> f.from + m, n |-> f.n - m]
                      /\ recvCtr' = recvCtr + 1 /\ dead' = dead
                      /\ last' = [a |-> "read", n |-> m, err |-> FALSE]
                 ELSE /\ dead' = TRUE /\ UNCHANGED <<delivered, inOrder, afterErr, unread, recvCtr>>
                      /\ last' = [a |-> "read", n |-> 0, err |-> TRUE]
           /\ wire' = Tail(wire)
   /\ UNCHANGED <<sentN, faults, seenWire>>

\* ---- the adversary on the wire ---------------------------------------------------------------------------
Fault(w, name) == /\ faults < MaxFaults /\ wire' = w /\ faults' = faults + 1 /\ last' = [a |-> name, n |-> 0, err |-> FALSE]
                  /\ UNCHANGED <<sentN, recvCtr, unread, delivered, inOrder, dead, afterErr, seenWire>>
Forged == [ctr |-> recvCtr, ok |-> FALSE, from |-> 0, n |-> 1]
InsertAt(w, i, f) == SubSeq(w, 1, i - 1) \o <<f>> \o SubSeq(w, i, Len(w))
Flip(i)     == i \in 1..Len(wire) /\ Fault([wire EXCEPT ![i].ok = FALSE], "flip")
Drop(i)     == i \in 1..Len(wire) /\ Fault(SubSeq(wire, 1, i - 1) \o SubSeq(wire, i + 1, Len(wire)), "drop")
Dup(i)      == i \in 1..Len(wire) /\ Fault(InsertAt(wire, i, wire[i]), "dup")
Swap(i)     == i \in 1..(Len(wire) - 1) /\ Fault([wire EXCEPT ![i] = wire[i + 1], ![i + 1] = wire[i]], "swap")
Truncate(i) == i \in 1..Len(wire) /\ Fault(SubSeq(wire, 1, i - 1) \o <<[wire[i] EXCEPT !.ok = FALSE]>>, "truncate")  \* a cut frame, then end of stream
Replay(f, i) == f \in seenWire /\ i \in 1..(Len(wire) + 1) /\ Fault(InsertAt(wire, i, f), "replay")
Inject(i)   == i \in 1..(Len(wire) + 1) /\ Fault(InsertAt(wire, i, Forged), "inject")

Next == \/ \E n \in 1..MaxBytes : Write(n)
        \/ \E b \in BufSizes : Read(b)
        \/ \E i \in 1..3 : Flip(i) \/ Drop(i) \/ Dup(i) \/ Swap(i) \/ Truncate(i) \/ Inject(i)
        \/ \E f \in seenWire, i \in 1..2 : Replay(f, i)
Spec == Init /\ [][Next]_vars

\* what is delivered is a prefix of what was written, in order, exactly once
PrefixOfSent == inOrder /\ delivered <= sentN
\* nothing is handed to the reader once a frame failed to open
NothingAfterError == afterErr = 0
=============================================================================
