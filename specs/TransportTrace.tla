--------------------------- MODULE TransportTrace ---------------------------
(***************************************************************************)
(* Executions of the REAL encrypted transport (harness/p2px: two real      *)
(* p2p.NewHandshake endpoints joined by an adversarial wire) replayed      *)
(* through Transport.tla: the model is advanced by the logged writes, the  *)
(* logged wire fault and the logged read buffer sizes; every logged read   *)
(* result (bytes obtained, error) must be what the model's Read returns,   *)
(* and the model's invariants are evaluated on every state.  Handshake     *)
(* lines carry the abstract facts of Handshake.tla (who signed what, for   *)
(* which session) and what the real endpoints accepted.                    *)
(***************************************************************************)
EXTENDS Transport, Json
VARIABLES l, ok
tvars == <<vars, l, ok>>
Trace == ndJsonDeserialize("trace.ndjson")

TraceInit == Init /\ l = 1 /\ ok = TRUE /\ TLCSet(1, 0)

FirstFrame == CHOOSE f \in seenWire : f.ctr = 0 /\ f.ok
CanRead == ~dead /\ (unread.n > 0 \/ Len(wire) > 0)

Role(x, acc) == IF acc = "" THEN "" ELSE IF acc = x THEN "self" ELSE IF acc \in {"A", "B"} THEN "peer" ELSE acc
SideOK(h, role) ==
   role # "" => /\ role = h.presented          \* the accepted identity is the one presented ...
                /\ h.signer = h.presented      \* ... its key made the signatures ...
                /\ h.ownChallenge              \* ... over this very session's challenge ...
                /\ h.sameConfig                \* ... on the same network and chain ...
                /\ (role \in {"peer", "self"} => ~h.attackerInside)   \* ... and the party at the other end holds that key
HsOK(h) == /\ SideOK(h, Role("A", h.aAccepts)) /\ SideOK(h, Role("B", h.bAccepts))
           /\ (h.scenario \in {"honest", "honest-2"} => h.aAccepts = "B" /\ h.bAccepts = "A")

Step(r) ==
   CASE r.e = "case"  -> /\ sentN' = 0 /\ wire' = << >> /\ recvCtr' = 0 /\ unread' = NoUnread /\ delivered' = 0 /\ inOrder' = TRUE
                         /\ dead' = FALSE /\ afterErr' = 0 /\ faults' = 0 /\ seenWire' = {} /\ last' = [a |-> "init"] /\ ok' = TRUE
     [] r.e = "write" -> Write(r.n) /\ ok' = TRUE
     [] r.e = "fault" -> /\ CASE r.name = "flip"     -> Flip(r.at)
                              [] r.name = "drop"     -> Drop(r.at)
                              [] r.name = "dup"      -> Dup(r.at)
                              [] r.name = "swap"     -> Swap(r.at)
                              [] r.name = "truncate" -> Truncate(r.at)
                              [] r.name = "replay"   -> Replay(FirstFrame, r.at)
                              [] r.name = "inject"   -> Inject(r.at)
                         /\ ok' = TRUE
     [] r.e = "read"  -> IF CanRead
                         THEN Read(r.b) /\ ok' = (last'.n = r.n /\ last'.err = r.err)
                         ELSE UNCHANGED vars /\ ok' = (r.n = 0)     \* the model has nothing to give: no byte may arrive
     [] r.e = "end"   -> UNCHANGED vars /\ ok' = (r.prefixOK /\ r.n = delivered /\ PrefixOfSent /\ NothingAfterError)
     [] r.e = "hs"    -> UNCHANGED vars /\ ok' = HsOK(r.hs)

TraceNext == l <= Len(Trace) /\ l' = l + 1 /\ Step(Trace[l]) /\ TLCSet(1, l)
TraceSpec == TraceInit /\ [][TraceNext]_tvars
TraceAccepted == TLCGet(1) = Len(Trace)
Report == ok \/ PrintT(<<"VIOL", l - 1, last>>)
=============================================================================
